#!/bin/bash
# soak.sh "C02 C03 ..." "0 1 2 3"  — clean-tree silence over several seeds (false-alarm discipline)
cd "$(dirname "$0")/.."
for P in $1; do for S in $2; do
  out=$(VERIF_SEED=$S ./check $P --tier quick 2>&1 | grep -E "VIOLATION|INFRA|^\[$P\]")
  echo "$out" | grep -q "VIOLATION\|INFRA" && echo "ALARM $P seed=$S: $out"
done; echo "soaked $P"; done
