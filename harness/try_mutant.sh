#!/bin/bash
# usage: try_mutant.sh <worktree> <PROP> [more props...]
# 1) confirm in the scratch worktree: demo fails with the change, passes without, test suite unchanged
# 2) apply the diff to /repo, run the property's quick check(s), revert /repo
set -u
WT=$1; shift
cd "$WT" || exit 2
export PYTHONPATH="$WT"
git checkout -q -- ssptools; git apply mutation.diff || { echo "mutation.diff does not apply in worktree"; exit 2; }
echo "== demo with change:"; /venv/bin/python demo.py > /tmp/demo_mod.out 2>&1; echo "exit=$?"; tail -3 /tmp/demo_mod.out
git apply -R mutation.diff
echo "== demo without change:"; /venv/bin/python demo.py > /tmp/demo_orig.out 2>&1; echo "exit=$?"; tail -2 /tmp/demo_orig.out
git apply mutation.diff
echo "== tests with change:"; /venv/bin/python -m pytest -q -p no:cacheprovider tests 2>&1 | tail -1
unset PYTHONPATH
cd /verif
git -C /repo apply "$WT/mutation.diff" || { echo "diff does not apply to /repo"; exit 2; }
for P in "$@"; do
  echo "== ./check $P on mutated /repo"; ./check $P --tier quick 2>&1 | grep -E "VIOLATION|KNOWN|^\[$P\]|INFRA"
done
git -C /repo checkout -- .
git -C /repo status --short | head -3
