#!/venv/bin/python
"""Regenerates /verif/MANIFEST.json from the table below (single source of truth for what is claimed)."""
import json, pathlib
V = pathlib.Path(__file__).resolve().parent.parent

CLAIMED = {
    # id: (technique, level text, level_note, design_ref)
    "C12": ("Lean 4 proof over ℝ (integral representation, positivity, additivity, mean-in-interval, NaN rule, element-wise) "
            "+ translator bridge for both branches + Float-driver correspondence + 60-digit reference sweep",
            "Theorem C12_partial (kernel-checked, all a,k,m1,m2) proves the exact-real content; the code is tied to it by the "
            "generated bridge gen_pk/gen_resolution and by running model and masses.Pk on the same inputs. The 1e-9 float-accuracy "
            "clause is measured against a 60-digit reference (partial).",
            "Float accuracy clause measured not proved; numpy pow/log trusted to 1e-12*scale of libm; known finding C12-cancellation.",
            "DESIGN §6 C12"),
    "C14": ("Lean 4 proof over ℝ (monotonicity, mutual inverse, HasDerivAt of the turn-off function = both hand-derived sweep speeds) "
            "on the expressions the translator extracts from the source + kernel check of the 20 coefficient rows + correspondence",
            "Theorem C14_holds is about Generated.tms_main/tms_bh/mto_*/dmdt_sev/dmdt_bh, i.e. the expressions in the source now; "
            "msto_rows_coeffs (decide +kernel on the regenerated table) discharges the sign hypotheses for every packaged row.",
            "Float evaluation trusted to 1e-12*scale; rate clause observed on the real derivative functions vs central differences.",
            "DESIGN §6 C14"),
    "C07": ("Lean 4 proof by list induction (exact budget, heaviest-first shape, mean preserved, non-negativity, definedness, "
            "over-ejection error, row-level budget with kicks) + Float-driver correspondence on arrays and real constructions",
            "Theorem C07_holds covers every bin count and content, every budget and retention fraction; model tied to the code by running "
            "both on the same arrays (20k/400k per run) and on real constructions vs their full-retention twins.",
            "Model of the loop hand-written (correspondence-checked); kick retention enters through the KicksLaw hypothesis proved in C15.",
            "DESIGN §6 C07"),
    "C08": ("Lean 4 proof (closed-form removal on the generated Mrem, loop invariant by list induction: fraction met exactly, shape, "
            "non-negativity, infeasible target unchanged) + correspondence + real EvolvedMFWithBH constructions",
            "Theorem C08_partial for every bin list / total / target; strict-mode error, identical stars and reported retention are decided "
            "by the sweep on real constructions (partial).",
            "Row-level glue (strict flag, per-age target index) checked on real constructions, not proved.",
            "DESIGN §6 C08"),
    "C15": ("Lean 4 proof (erf from the Gaussian integral; Maxwellian CDF′ = generated pdf, = ∫pdf, monotone, in [0,1]; sigmoid in [0,1]; "
            "per-bin bookkeeping by list induction) + correspondence of every kicks.py routine",
            "Theorem C15_holds; the real retention routine is compared with the closed-form CDF (after fix: it *is* the closed form).",
            "scipy erf / interp1d trusted; fallback tables taken as data with range check.",
            "DESIGN §6 C15"),
    "C11": ("Lean 4 proof (normalisation Σ A_i·Pk_i = 1 hence ∫ = N0 for any number of segments, continuity at every break, ext modes, "
            "np.select first-match semantics, from_M0, binned = integrals, telescoping of aligned bins, straddle witness) + correspondence",
            "Theorem C11_partial over all segment lists; the documented promise about unaligned bins is refuted by binned_straddle_witness "
            "(known finding C11-straddle). Tie: constants, evaluation, binned evaluation and total mass of the real PowerLawIMF vs the model.",
            "Mtot is scipy.quad in the code (exact first moment in the model, 1e-4 budget); constants re-associated in the model (ℝ-equal).",
            "DESIGN §6 C11"),
    "C13": ("Lean 4 proof (bin-count division, linear/geometric spacing strictly increasing with exact end points, lookup = last lower "
            "edge <= m with overflow check, truncation touches one upper edge, pack/unpack inverse for any sizes; star bins from increasing edges tile; exactly one "
            "NS bin for a NS mass inside the range; WD bins tile up to the maximum WD mass, BH bins from the minimum BH mass) + "
            "correspondence of edges, carving, lookup, truncation on real MassBins for every nbins form",
            "Theorem C13_partial; the carving *model* is proved to tile, and tied to MassBins.__init__ by correspondence and the sweep.",
            "np.linspace/np.geomspace trusted to 1e-12 of the model formulas; where the IFMR bounds come from is C09.",
            "DESIGN §6 C13"),
    "C01": ("Lean 4 proof that the closed form solves the model's ODE (HasDerivAt of A·Pk(α,1,l,m_to(t)) = the model derivative; deposit "
            "rate = retained flux; the Nmin residue m* and its two-sided bound; per-piece number and mass = interval integrals of the IMF "
            "density × linear remnant mass; turn-off breaks in the integration grid) + correspondence of the executable closed form "
            "(ClosedBin.stars / closedRemnants) with real EvolvedMF rows at tightened tolerance",
            "Theorem C01_partial over every bin/slope/normalisation/lifetime row/time, including uniqueness for the draining star bin "
            "(closed_star_unique); dopri5's convergence is not proved (partial): the real rows at rtol=atol=1e-10 are compared with the Lean closed form to 3e-6 (numbers) / 1e-4 "
            "(masses) of each class total, and the property's own predicate is evaluated at default and tightened tolerance with an "
            "independent quadrature oracle.",
            "dopri5 trusted as an approximate solver; IFMR and bins taken from the real sub-objects (C09/C10/C13); remnant deposit glued "
            "over class/bin crossings by the executable model with crossings found by bisection (checked, not proved).",
            "DESIGN §6 C01"),
    "C02": ("Lean 4 proof about the stellar-evolution derivative model (single turn-off bin = first bin whose upper edge has turned off "
            "and it contains the turn-off mass; flux ≤ 0; deposit = retention × flux in the IFMR's class and bin with the IFMR mass; "
            "conservation and mass-never-gained corollaries) + exact-support correspondence on synthetic and recorded ODE states",
            "Theorem C02_partial over every state/layout/time, with trajectory corollaries for exact solutions (objects conserved, star bins never "
            "grow, mass never gained); the flux, both deposits and both conditions are the source's own expressions (translator + rfl "
            "bridges); the rest of the derivative is tied to the code by comparing which entries are non-zero, the class, "
            "the bin index exactly and the values to 1e-11 (scale-aware) on >1800 states per quick run. Trajectory clauses are about exact "
            "solutions (partial); they are additionally observed on dopri5 output rows.",
            "IFMR functions enter the theorem as parameters (their range properties are C09); dopri5 trusted for the row-level sweep.",
            "DESIGN §6 C02"),
    "C03": ("Lean 4 proof of the escape derivative's identities (sums equal the rate in both branches and normalisations, uniform "
            "fractional loss before core collapse, support/mean preservation/weight integral/secant slope rule after it, zero rate) "
            "+ full-entry correspondence on both sides of the core-collapse time",
            "Theorem C03_partial: every element-wise entry of the derivative is the source's own expression (translator + bridges), the sum "
            "identities hold for every state, and N(t1)=N(t0)+∫rate for exact solutions. The slope-implied mass change is only "
            "second-order accurate (known finding C03-slope-secant).",
            "Measured, not proved: slope-implied clause; N(t)=N0+∫rate on dopri5 output (integrator accuracy).",
            "DESIGN §6 C03"),
    "C19": ("Lean 4 proof that the nested BH-only derivative is the projection of the full stellar-evolution derivative (same turn-off bin, "
            "flux and definedness for every state; same BH entries up to the final age under full retention; nothing deposited afterwards), "
            "that the reported age is where the turn-off mass equals BH_mi.lower+0.1 and every earlier turn-off star makes a BH, that the "
            "loss bookkeeping returns the IMF number and mass above the final turn-off, that remnant mass of a piece never exceeds its "
            "progenitors' mass, and the from_BHMF binning (C11 reuse); duplicated closures and constants bridged to EvolvedMF's by the translator "
            "+ correspondence of `_derivs_BHs`, age, bookkeeping and from_BHMF + twin constructions",
            "Theorem C19_partial; that the two dopri5 runs agree is observed at default and tightened tolerance (partial); kicks are C15's "
            "per-bin theorem, checked here through N, M and _kicked_M.",
            "The nested closure is captured through scipy's ode wrapper; bins/IFMR rebuilt from the configuration.",
            "DESIGN §6 C19"),
    "C18": ("Lean 4 proof of degree-one homogeneity of every building block (turn-off flux, both escape branches, ejection loop, kicks, "
            "binned initial values) under the explicit proviso that no 0.1-object comparison flips + real derivative/construction pairs",
            "Theorem C18_partial; on the real code: derivatives at (λy, λ·rate) vs λ·derivatives, construction pairs at tightened "
            "integrator tolerance, IMF-N0 irrelevance and from_powerlaw equivalence bit-for-bit.",
            "A scaled exact solution is an exact solution (proved); dopri5 at default tolerance is not scale-free on remnant bins (pairs run at 1e-10).",
            "DESIGN §6 C18"),
    "C04": ("Lean 4 proof (row extraction defined and non-negative on non-negative states above Pk's resolution; summary views: equal "
            "lengths, m=M/N, exactly the populated bins in class order; ejection keeps non-negativity; lookup soundness) + extraction/view "
            "correspondence on real output rows + random-configuration sweep over the documented domain",
            "Theorem C04_partial; whether the hypotheses hold at dopri5 output is what the sweep (150 / 5000 configurations incl. dict "
            "layouts, escape, kicks, BH targets) looks for; the non-convergence flag is honoured.",
            "dopri5 numerical facts not proved; known finding C04-solver-undershoot.",
            "DESIGN §6 C04"),
    "C05": ("Lean 4 proof (star mean mass strictly inside the truncated bin from the moment integrals; cone invariant lo·N ≤ M ≤ hi·N under "
            "deposits and common-factor rescalings by induction over any update sequence; NS bins exact; empty bins report the centre; "
            "escape and ejection move a bin along its own ray) + sweep of ms/mr against bin edges on every row",
            "Theorem C05_partial: discrete invariant and forward invariance of the cone along exact solutions (integrating factor); a star bin "
            "truncated to zero width reports its lower edge. Rows of real constructions (dopri5 output) are checked by the sweep.",
            "dopri5 output trusted only through the sweep.",
            "DESIGN §6 C05"),
    "C06": ("Lean 4 proof of the extraction loop with an abstract exact flow (loop invariant over any sorted grid: every requested age — "
            "any order, repeats, zero, equal to turn-off times — gets its own single-age row with its own target; grid sorted and "
            "containing all ages and turn-off times) + exact grid correspondence + schedule-differential on real constructions",
            "Theorem C06_partial / schedule_independent / age_zero_row. Real flow has the semigroup property only to integrator accuracy: "
            "multi-age rows vs single-age runs at rtol=atol=1e-10 and at the default tolerance.",
            "dopri5 restarts its step control at every integrate call (not modelled).",
            "DESIGN §6 C06"),
    "C17": ("Lean 4 proof of the validation decision logic (whatever passes satisfies every documented requirement; each invalid family ⇒ "
            "ValueError), sticky convergence flag over any fault sequence, flag ⇒ rows at requested ages + malformed-argument "
            "correspondence through the real constructors + genuine solver faults injected at every segment position",
            "Theorem C17_partial; error kinds compared on 12 families × random valid remainders; scipy failures forced via nsteps.",
            "scipy's success flag semantics observed, not proved.",
            "DESIGN §6 C17"),
    "C10": ("Lean 4 proof on exact dyadic arithmetic (two-decimal half-even rounding is nearest; clamped name stays on the grid range; "
            "file exists for every metallicity given a complete grid with both zero spellings; argmin row is nearest) + kernel check "
            "(decide +kernel) that the four regenerated file-name grids are complete + correspondence of format/clamp/opened files",
            "Theorem C10_holds for every double; the grids are re-listed from /repo's data directory on every run and re-checked by the kernel; "
            "which file each predictor and the kick routine opens is observed by wrapping numpy.loadtxt.",
            "Python's float formatting trusted to equal the model's rounding (compared on >2e4 floats incl. exact ties).",
            "DESIGN §6 C10"),
    "C09": ("Lean 4 proof (three contiguous progenitor classes in increasing order, type/mass use the same conditions; linear "
            "interpolation through knots with 0 < mf ≤ mi stays positive, ≤ progenitor and ≥ the table minimum, by induction over the knot "
            "list; analytic prescriptions at default parameters) + per-table kernel check (decide +kernel on the packed table, lifted by the "
            "proved decoder lemma check_sound) + correspondence of predict/predict_type, FITPACK, Polynomial",
            "Theorem C09_partial; quick kernel-checks the tables of the sampled + default metallicities (28), thorough all 1186. All seven WD "
            "degree-10 polynomials are bounded in Lean on [0.7, m_max] (positive, <= progenitor, < 1.4) by kernel-checked Taylor-shift "
            "bounds over Q regenerated from wdifmr.dat on every run.",
            "FITPACK/Polynomial float evaluation trusted to 1e-12 (cond-aware); the run-time WD maximum (numerical critical points) is sampled.",
            "DESIGN §6 C09"),
    "C20": ("Lean 4 proof (moment helpers extracted from the source = ∫x^(-a), ∫x·x^(-a) for every exponent incl. 1 and 2; continuity "
            "constants; Σ piece probabilities = 1; inverse-CDF sampler stays inside its piece for every slope incl. 1; density positive; "
            "integral(): pieces visited = those meeting the range, each adding the exact clipped moments) + correspondence "
            "of helpers, constants, normalisation, evaluation and integral()",
            "Theorem C20_partial is stated on Generated.kroupa_mom0/mom1/getmass (the source's expressions, special-case literals "
            "included) and on the hand model of the constants, eval and integral(), tied by correspondence incl. error branches.",
            "np.random and numpy float evaluation trusted; sampling checked on the real class.",
            "DESIGN §6 C20"),
    "C16": ("Lean 4 proof over a store of argument objects whose per-function write sites are *generated* from the source by an alias "
            "analysis on every run: kernel-decided 'every write site belongs to a documented in-place routine' ⇒ any call history "
            "leaves all argument objects unchanged (induction over the history) + dynamic call-history check with deep snapshots",
            "Theorem C16_partial (all_sites_documented is re-decided on the regenerated table); histories of 2-8 constructor calls sharing "
            "dicts, IMF objects, lists and arrays (BH-fraction targets included): arguments unchanged, results bit-identical to fresh builds "
            "in the same interpreter and to the same call built first in a fresh interpreter, in-place routines return their arrays.",
            "Alias analysis is syntactic (parameters, simple aliases, self attributes bound to parameters); hidden state in numpy/scipy trusted; dynamic check is sampling.",
            "DESIGN §6 C16"),
}

NOT_YET = "check not built yet in this session (planned: see DESIGN §6); not claimed until its quick check is silent on the clean tree"
ALL = [f"C{i:02d}" for i in range(1, 21)]


def main():
    checks = []
    for pid, (tech, text, note, ref) in sorted(CLAIMED.items()):
        checks.append({
            "property_id": pid,
            "quick_cmd": f"./check {pid} --tier quick",
            "thorough_cmd": f"./check {pid} --tier thorough",
            "evidence_file": f"evidence/{pid}.json",
            "replay_cmd_template": f"./check {pid} --replay {{path}}",
            "engine": "lean-proof+correspondence",
            "level_claimed": {"category": "proof", "text": text, "design_ref": ref},
            "level_note": note,
            "technique": tech,
        })
    m = {
        "version": 1,
        "setup_cmd": "./setup.sh",
        "hooks": {"guard": "SSPTOOLS_VERIF", "enable": "no source hooks: the harness observes the real code from outside (monkey-patching in-process)",
                  "baseline_off_cmd": "cd /repo && /venv/bin/python -m pytest -ra -q -p no:cacheprovider --timeout=900 --continue-on-collection-errors",
                  "source_commits": [], "add_only": True},
        "engines": [{"name": "lean-proof+correspondence", "path": "lean/ + harness/", "serves_properties": sorted(CLAIMED),
                     "kind_free_text": "Lean 4 model generic over a Scalar class: theorems at ℝ (Mathlib), executed at Float in a compiled driver "
                                       "against the real Python code; translator regenerates formulas/constants/tables from /repo each run"}],
        "checks": checks,
        "not_applicable": [{"property_id": p, "reason": NOT_YET} for p in ALL if p not in CLAIMED],
        "notes": "All checks: exit 0 held / exit 1 VIOLATION line / exit 2 infrastructure. KNOWN-FINDING lines come from known_findings.json.",
    }
    (V / "MANIFEST.json").write_text(json.dumps(m, indent=1))
    print(f"claimed {len(checks)}; not_applicable {len(m['not_applicable'])}")


if __name__ == "__main__":
    main()
