#!/venv/bin/python
"""Regenerates /verif/MANIFEST.json from the table below (single source of truth for what is claimed)."""
import json, pathlib
V = pathlib.Path(__file__).resolve().parent.parent

CLAIMED = {
    # id: (technique, level text, level_note, design_ref)
    "C12": ("Lean 4 proof over ℝ (integral representation, positivity, additivity, mean-in-interval, NaN rule, element-wise) "
            "+ translator bridge for both branches + Float-driver correspondence + 60-digit reference sweep",
            "Theorem C12_partial (kernel-checked, all a,k,m1,m2) proves the exact-real content; the code is tied to it by the "
            "generated bridge gen_pk/gen_resolution and by running model and masses.Pk on the same inputs. The 1e-9 float-accuracy "
            "clause is measured against a 60-digit reference (partial).",
            "Float accuracy clause measured not proved; numpy pow/log trusted to 1e-12*scale of libm; known finding C12-cancellation.",
            "DESIGN §6 C12"),
}

NOT_YET = "check not built yet in this session (planned: see DESIGN §6); not claimed until its quick check is silent on the clean tree"
ALL = [f"C{i:02d}" for i in range(1, 21)]


def main():
    checks = []
    for pid, (tech, text, note, ref) in sorted(CLAIMED.items()):
        checks.append({
            "property_id": pid,
            "quick_cmd": f"./check {pid} --tier quick",
            "thorough_cmd": f"./check {pid} --tier thorough",
            "evidence_file": f"evidence/{pid}.json",
            "replay_cmd_template": f"./check {pid} --replay {{path}}",
            "engine": "lean-proof+correspondence",
            "level_claimed": {"category": "proof", "text": text, "design_ref": ref},
            "level_note": note,
            "technique": tech,
        })
    m = {
        "version": 1,
        "setup_cmd": "./setup.sh",
        "hooks": {"guard": "SSPTOOLS_VERIF", "enable": "no source hooks: the harness observes the real code from outside (monkey-patching in-process)",
                  "baseline_off_cmd": "cd /repo && /venv/bin/python -m pytest -ra -q -p no:cacheprovider --timeout=900 --continue-on-collection-errors",
                  "source_commits": [], "add_only": True},
        "engines": [{"name": "lean-proof+correspondence", "path": "lean/ + harness/", "serves_properties": sorted(CLAIMED),
                     "kind_free_text": "Lean 4 model generic over a Scalar class: theorems at ℝ (Mathlib), executed at Float in a compiled driver "
                                       "against the real Python code; translator regenerates formulas/constants/tables from /repo each run"}],
        "checks": checks,
        "not_applicable": [{"property_id": p, "reason": NOT_YET} for p in ALL if p not in CLAIMED],
        "notes": "All checks: exit 0 held / exit 1 VIOLATION line / exit 2 infrastructure. KNOWN-FINDING lines come from known_findings.json.",
    }
    (V / "MANIFEST.json").write_text(json.dumps(m, indent=1))
    print(f"claimed {len(checks)}; not_applicable {len(m['not_applicable'])}")


if __name__ == "__main__":
    main()
