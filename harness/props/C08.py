"""C08 — the requested final black-hole mass fraction is met (EvolvedMFWithBH)."""
import math, warnings
import numpy as np
from common import h, uh, hl, jf, jfl, unjf, close, run_driver, loguniform
import real, gen
from real import evolve_mf
from props.C07 import gen_bins, parse_bins, retention_list, quick_kick_kw

TRUSTED = ["numpy float64 arithmetic vs Lean Float within 1e-12*scale", "dopri5 output taken as given (model and twin run the same solver)"]
ASSUMPTIONS = ["the 'formed' BH population is read from the standard model built with BH_ret_dyn=1 and no kicks; kicks re-applied by the harness "
               "through the real retention function"]
RULE = ("corr: BH arrays (0-40 bins, empty bins anywhere) × total masses × targets below/at/above the formed fraction vs the real "
        "EvolvedMFWithBH._dyn_eject_BH, closed-form Mrem; sweep: bin-level guarantees on the real routine and, on real constructions "
        "with per-age targets (strict and non-strict, with and without kicks), fraction met per row / stars and other remnants "
        "identical to the standard model / reported retention; distinct = distinct inputs/configurations")


def bare():
    return evolve_mf.EvolvedMFWithBH.__new__(evolve_mf.EvolvedMFWithBH)


def real_target(M, N, Mtot, f):
    Mr, Nr = np.array(M, dtype=float), np.array(N, dtype=float)
    try:
        with np.errstate(all="ignore"):
            a, b = bare()._dyn_eject_BH(Mr, Nr, Mtot, f)
        return "ok", list(map(float, a)), list(map(float, b)), (a is Mr and b is Nr)
    except Exception as e:
        return type(e).__name__, None, None, None


def gen_case(rng):
    M, N = gen_bins(rng)
    mbh = sum(M)
    other = loguniform(rng, 0.5, 1e3) * max(mbh, 1.0) if rng.random() < 0.9 else loguniform(rng, 1e-3, 1.0) * max(mbh, 1.0)
    mtot = mbh + other
    cur = mbh / mtot
    r = rng.random()
    if r < 0.15:
        f = 0.0
    elif r < 0.25:
        f = cur
    elif r < 0.4:
        f = min(0.999, cur * (1 + loguniform(rng, 1e-9, 1.0)))
    elif r < 0.5 and M:
        k = rng.randint(0, len(M))
        rem = sum(M[:len(M) - k])
        f = rem / (mtot - (mbh - rem))           # exactly a whole number of bins
    else:
        f = cur * rng.random()
    return M, N, mtot, f


def corr(ctx):
    n = ctx.n(20000, 400000)
    cases = [gen_case(ctx.rng) for _ in range(n)]
    lines = []
    for M, N, mtot, f in cases:
        flat = []
        for m, nn in zip(reversed(M), reversed(N)):
            flat += [h(m), h(nn)]
        lines.append(f"target {h(float(np.sum(np.array(M))))} {h(mtot)} {h(f)} " + " ".join(flat))
    outs = run_driver(lines)
    for (M, N, mtot, f), o in zip(cases, outs):
        kind, rM, rN, same = real_target(M, N, mtot, f)
        toks = o.split()
        mbh = sum(M)
        cur = mbh / mtot
        branch = "empty" if not M else ("infeasible" if f > cur else "at" if f == cur else "zero" if f == 0 else "partial")
        detail = {"M": jfl(M), "N": jfl(N), "Mtot": jf(mtot), "f": jf(f), "real": kind, "model": o[:200]}
        if kind != "ok":
            ctx.corr_case("target", False, detail, branch=branch); continue
        defined = toks[1] == "true"
        mM, mN = parse_bins(toks[2:]); mM, mN = mM[::-1], mN[::-1]
        has_nan = any(math.isnan(x) for x in rM + rN)
        ok = len(mM) == len(rM) and (defined == (not has_nan))
        ind = False
        if ok:
            sc = max([abs(x) for x in M] + [1e-300])
            for a, b in zip(rM + rN, mM + mN):
                if not close(a, b, max(sc, abs(a), abs(b)), rel=1e-11):
                    ok = False
            if not ok:
                # a whole-bin / partial decision at a tie (removing whole bins lands exactly on the target) may flip
                for k in range(len(M) + 1):
                    rem = sum(M[:len(M) - k])
                    fk = rem / (mtot - (mbh - rem)) if mtot - (mbh - rem) != 0 else float("nan")
                    if abs(fk - f) <= 1e-12 * max(f, 1e-300) + 1e-15:
                        ind = True
        ctx.corr_case("target", ok, detail, branch=branch, indeterminate=(not ok) and ind, nontrivial=bool(M))
    ctx.sample({"op": "target", "M": cases[0][0], "N": cases[0][1], "Mtot": cases[0][2], "f": cases[0][3], "model": outs[0][:120]})
    # closed-form amount
    mr = [(ctx.rng.random() * 0.5, loguniform(ctx.rng, 1, 1e5)) for _ in range(ctx.n(2000, 50000))]
    trip = [(d, mb, mb * loguniform(ctx.rng, 1.5, 1e3)) for d, mb in mr]
    outs = run_driver([f"mrem {h(d)} {h(mb)} {h(mt)}" for d, mb, mt in trip])
    for (d, mb, mt), o in zip(trip, outs):
        realv = (mt ** 2 * d) / ((mt * (1 + d)) - mb)      # the source expression is also tied by the translator bridge gen_mrem
        ctx.corr_case("mrem", close(realv, uh(o), rel=1e-12), {"args": [jf(d), jf(mb), jf(mt)], "model": o})


# ------------------------------------------------------------------ predicates on the real code
def check_direct(M, N, mtot, f):
    kind, rM, rN, same = real_target(M, N, mtot, f)
    if kind != "ok":
        return {"clause": "unexpected exception", "observed": kind}
    mbh = sum(M)
    cur = mbh / mtot
    if any(math.isnan(x) for x in rM + rN):
        return {"clause": "no NaN", "observed": {"M": [repr(x) for x in rM], "N": [repr(x) for x in rN]}}
    if not same:
        return {"clause": "returns the arrays it was given"}
    eps = 1e-9 * max([abs(x) for x in M + N] + [1e-300])
    if any(x < -eps for x in rM + rN):
        return {"clause": "no negative count or mass"}
    if f > cur * (1 + 1e-12):
        if rM != M or rN != N:
            return {"clause": "unreachable target leaves BHs unchanged"}
        return None
    if f >= cur * (1 - 1e-12) and rM == M and rN == N:
        return None      # target met within rounding of the summation order: unchanged is right
    removed = mbh - sum(rM)
    frac = sum(rM) / (mtot - removed)
    if not abs(frac - f) <= 1e-9 * max(f, cur * 1e-6) + 1e-12 * cur:
        return {"clause": "final BH mass fraction = target", "observed": repr(frac), "expected": repr(f)}
    j = len(M) - 1
    while j >= 0 and rM[j] == 0 and rN[j] == 0:
        j -= 1
    for k in range(j):
        if rM[k] != M[k] or rN[k] != N[k]:
            return {"clause": "bins below the cut untouched", "bin": k}
    if j >= 0 and (rM[j] != M[j] or rN[j] != N[j]) and M[j] > 0 and N[j] > 0 and rM[j] > 1e-6 * M[j]:
        if abs(rM[j] / rN[j] - M[j] / N[j]) > 1e-9 * (M[j] / N[j]) * max(1.0, M[j] / rM[j] * 1e-3):
            return {"clause": "partly depleted bin keeps its mean mass", "bin": j}
    return None


def model_cfgs(ctx, n):
    out = []
    for _ in range(n):
        cfg = gen.gen_config(ctx.rng, small=True, kicks=(ctx.rng.random() < 0.35))
        cfg["kw"].pop("BH_ret_dyn", None)
        cfg["tout"] = sorted(set(gen.gen_tout(ctx.rng, ctx.rng.choice([1, 2, 3]))))
        cfg["mode"] = ctx.rng.choice(["below", "below", "below", "zero", "above-strict", "above-lenient", "tiny", "near"])
        cfg["u"] = [ctx.rng.random() for _ in cfg["tout"]]
        out.append(cfg)
    return out


def model_worker(cfg):
    res = {"cfg": cfg}
    base = {k: v for k, v in cfg.items() if k not in ("mode", "u")}
    try:
        twin = gen.build(base, BH_ret_dyn=1.0, natal_kicks=False)
    except Exception as e:
        res["twin_error"] = f"{type(e).__name__}: {e}"[:200]
        return res
    if not twin.converged:
        res["twin_error"] = "not converged"; return res
    t_bh = float(twin.compute_tms(twin.IFMR.BH_mi.upper))
    res["t_bh"] = t_bh
    kicks_on = bool(cfg["kw"].get("natal_kicks"))
    formed_f, formed_M = [], []
    for i, t in enumerate(cfg["tout"]):
        M, N = twin.Mr.BH[i].copy(), twin.Nr.BH[i].copy()
        if kicks_on and t > t_bh:
            try:
                rets = retention_list(quick_kick_kw(cfg), M, N)
            except Exception as e:
                res["twin_error"] = f"kick retention: {e}"[:200]; return res
            M = np.array([m * r for m, r in zip(M, rets)])
        mtot = float(twin.Ms[i].sum() + twin.Mr.WD[i].sum() + twin.Mr.NS[i].sum() + M.sum())
        formed_f.append(float(M.sum() / mtot) if mtot > 0 else 0.0)
        formed_M.append(M.tolist())
    res["formed_f"] = formed_f
    mode = cfg["mode"]
    targets = []
    for ff, u in zip(formed_f, cfg["u"]):
        if mode == "zero":
            targets.append(0.0)
        elif mode == "tiny":
            targets.append(ff * 1e-6 * u)
        elif mode == "near":
            targets.append(ff * (1 - 1e-6 * u))
        elif mode.startswith("above"):
            targets.append(min(0.99, ff * (1.05 + u) + 1e-4))
        else:
            targets.append(ff * u)
    res["targets"] = targets
    strict = mode != "above-lenient"
    try:
        obj = gen.build(base, cls=evolve_mf.EvolvedMFWithBH, f_BH=targets if len(targets) > 1 else targets[0], strict_BH_target=strict)
        res["error"] = None
        res["warnings"] = obj._warnings
        res["converged"] = bool(obj.converged)
        res["rows"] = []
        for i in range(len(cfg["tout"])):
            mtot = float(obj.Ms[i].sum() + obj.Mr.WD[i].sum() + obj.Mr.NS[i].sum() + obj.Mr.BH[i].sum())
            res["rows"].append({"MBH": float(obj.Mr.BH[i].sum()), "Mtot": mtot,
                                "nan": bool(np.isnan(obj.Mr.BH[i]).any() or np.isnan(obj.Nr.BH[i]).any()),
                                "neg": bool((obj.Mr.BH[i] < -1e-9 * max(1.0, obj.Mr.BH[i].max())).any() or (obj.Nr.BH[i] < -1e-9).any()),
                                "bh_unchanged": bool(np.array_equal(obj.Mr.BH[i], np.array(formed_M[i]))) if not kicks_on else None,
                                "others_identical": bool(all(np.array_equal(getattr(obj, a)[i], getattr(twin, a)[i]) for a in ("Ns", "Ms", "alpha", "ms"))
                                                         and np.array_equal(obj.Nr.WD[i], twin.Nr.WD[i]) and np.array_equal(obj.Mr.WD[i], twin.Mr.WD[i])
                                                         and np.array_equal(obj.Nr.NS[i], twin.Nr.NS[i]) and np.array_equal(obj.Mr.NS[i], twin.Mr.NS[i]))})
        res["ret_dyn"] = float(obj.BH_ret_dyn)
        ilast = int(np.argmax(cfg["tout"]))
        pre = float(np.sum(formed_M[ilast]))
        res["ret_expected"] = float(obj.Mr.BH[ilast].sum() / pre) if pre > 0 and cfg["tout"][ilast] > t_bh else None
    except ValueError as e:
        res["error"] = "ValueError"; res["msg"] = str(e)[:160]
    except Exception as e:
        res["error"] = type(e).__name__; res["msg"] = str(e)[:160]
    return res


def check_model(res):
    cfg = res["cfg"]
    if "twin_error" in res:
        return "skip"
    mode = cfg["mode"]
    after = [t > res["t_bh"] for t in cfg["tout"]]
    if not any(after):
        return "skip"
    if any(ff <= 0 for ff, a in zip(res["formed_f"], after) if a):
        return "skip"
    if res["error"] not in (None, "ValueError"):
        return {"clause": "unexpected exception", "observed": res["error"], "msg": res.get("msg")}
    if mode == "above-strict":
        return None if res["error"] == "ValueError" else {"clause": "unreachable strict target must raise ValueError", "observed": res["error"]}
    if res["error"]:
        return {"clause": "reachable (or non-strict) target raised", "msg": res.get("msg")}
    if not res.get("converged"):
        return "skip"
    for i, (row, a) in enumerate(zip(res["rows"], after)):
        if row["nan"]:
            return {"clause": "no NaN in BH rows", "row": i}
        if row["neg"]:
            return {"clause": "no negative BH count or mass", "row": i}
        if not row["others_identical"]:
            return {"clause": "stars and other remnants identical to the standard model", "row": i}
        if not a:
            continue
        frac = row["MBH"] / row["Mtot"]
        tgt, ff = res["targets"][i], res["formed_f"][i]
        if mode == "above-lenient":
            if not any("greater than" in w for w in res["warnings"]):
                return {"clause": "non-strict unreachable target must warn"}
            if not abs(frac - ff) <= 1e-9 * ff:
                return {"clause": "non-strict unreachable target leaves BHs as formed", "row": i, "observed": repr(frac), "expected": repr(ff)}
        else:
            if not abs(frac - tgt) <= 1e-9 * max(tgt, ff * 1e-6) + 1e-12 * ff:
                return {"clause": "BH mass fraction = target", "row": i, "observed": repr(frac), "expected": repr(tgt)}
    if res.get("ret_expected") is not None and not abs(res["ret_dyn"] - res["ret_expected"]) <= 1e-9:
        return {"clause": "reported dynamical retention = retained / pre-ejection BH mass", "observed": res["ret_dyn"], "expected": res["ret_expected"]}
    return None


def sweep(ctx):
    eff = getattr(ctx, "effort", 1)
    for _ in range(ctx.n(20000, 300000) * eff):
        M, N, mtot, f = gen_case(ctx.rng)
        bad = check_direct(M, N, mtot, f)
        ctx.sweep_case("direct", (tuple(M), tuple(N), mtot, f), bad is None,
                       {"failing_input": {"call": "target", "args": {"M": jfl(M), "N": jfl(N), "Mtot": jf(mtot), "f": jf(f)}}, "observed": bad},
                       branch="infeasible" if f > sum(M) / mtot else "feasible")
    for res in gen.pmap(model_worker, model_cfgs(ctx, ctx.n(60, 1500) * eff)):
        bad = check_model(res)
        ctx.sweep_case("model", repr(res["cfg"]), bad in (None, "skip"),
                       {"failing_input": {"call": "model", "args": {"cfg": res["cfg"]}}, "observed": bad},
                       branch="skipped" if bad == "skip" else res["cfg"]["mode"] + ("/kicks" if res["cfg"]["kw"].get("natal_kicks") else ""))


def replay(ctx, fi):
    a = fi["args"]
    if fi["call"] == "target":
        return check_direct([unjf(x) for x in a["M"]], [unjf(x) for x in a["N"]], unjf(a["Mtot"]), unjf(a["f"]))
    if fi["call"] == "model":
        r = check_model(model_worker(a["cfg"]))
        return None if r == "skip" else r
    raise ValueError(fi["call"])


def classify(entry, failure):
    return False
