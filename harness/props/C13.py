"""C13 — mass bins tile the mass range; lookup and packing are exact inverses."""
import math, collections
import numpy as np
from common import h, uh, hl, jf, jfl, unjf, close, run_driver, loguniform
import real, gen
from real import MassBins, PowerLawIMF, mbin, ifmr

TRUSTED = ["np.linspace / np.geomspace vs the model's spacing formulas (1e-12 relative)"]
ASSUMPTIONS = ["remnant bounds are taken from the real IFMR object (or synthetic bounds) and passed to the model as data"]
RULE = ("corr: break lists of 2-6 breaks × bin counts as int / list / dict × both spacings × metallicities (remnant bounds vary) → all "
        "stellar and remnant edges, lookup on edges / just inside / outside, turn-off truncation, pack/unpack; sweep: the clauses of C13 "
        "on the real MassBins; distinct = distinct layouts / (layout, mass) pairs")
Bounds = collections.namedtuple("bounds", ("lower", "upper"))


class FakeIFMR:
    def __init__(self, wd_max, bh_min, ns=1.4):
        self.WD_mf = Bounds(0.0, wd_max); self.BH_mf = Bounds(bh_min, np.inf); self.NS_mf = Bounds(ns, ns)


_ifmr_cache = {}


def get_ifmr(feh):
    if feh not in _ifmr_cache:
        _ifmr_cache[feh] = ifmr.IFMR(feh)
    return _ifmr_cache[feh]


def gen_layout(rng):
    nb = rng.choice([2, 3, 4, 4, 5, 6])
    lo = rng.choice([0.08, 0.1, 0.2, 0.05])
    hi = rng.choice([100.0, 150.0, 50.0, 120.0])
    if rng.random() < 0.12:
        lo, hi = rng.choice([3.0, 5.0, 10.0]), rng.choice([50.0, 100.0])       # a layout starting above the WD/NS range
    inner = sorted(loguniform(rng, lo * 1.06, hi / 1.06) for _ in range(nb - 2))
    mb = [lo]
    for x in inner:
        if x > mb[-1] * 1.05:
            mb.append(x)
    if hi > mb[-1] * 1.05:
        mb.append(hi)
    if rng.random() < 0.08 and mb[0] < 1.3 and mb[-1] > 1.5:
        # a break exactly at the NS mass
        mb = sorted(set([x for x in mb if abs(x - 1.4) > 0.08] + [1.4]))
    nseg = len(mb) - 1
    form = rng.choice(["int", "list", "list", "dict-int", "dict-list"])
    each = [rng.randint(1, 12) for _ in range(nseg)]
    if form == "int":
        nbins = rng.randint(nseg, 12 * nseg)
    elif form == "list":
        nbins = each
    elif form == "dict-int":
        nbins = {"MS": rng.randint(nseg, 12 * nseg), "WD": rng.randint(1, 8), "BH": rng.randint(1, 8)}
    else:
        nbins = {"MS": each, "WD": rng.randint(1, 8), "BH": rng.randint(1, 8), "NS": 1}
    if form.startswith("dict") and lo > 0.5:
        lo = 0.1; mb[0] = lo       # explicit WD/BH bins need a layout that reaches down to the WD range (documented ValueError otherwise)
    method = rng.choice(["default", "split_log", "split_linear"])
    if rng.random() < 0.7:
        feh = round(rng.uniform(-2.5, 0.5), 2)
        src = ("feh", feh)
    else:
        src = ("fake", rng.uniform(0.9, 1.45), rng.uniform(2.0, 8.0))
    # the IMF handed to MassBins is a separate argument (EvolvedMF's `binning_breaks`): in 40 % of the layouts it has another number of
    # components than the binning breaks have segments (same outer limits)
    imf_mb = None
    if rng.random() < 0.4:
        k = rng.choice([c for c in (1, 2, 3, 4, 5) if c != nseg])
        cuts = sorted(loguniform(rng, mb[0] * 1.02, mb[-1] / 1.02) for _ in range(k - 1))
        imf_mb = [mb[0]] + cuts + [mb[-1]]
    return {"mb": mb, "nbins": nbins, "method": method, "ifmr": src, "imf_mb": imf_mb}


def make_ifmr(src):
    return get_ifmr(src[1]) if src[0] == "feh" else FakeIFMR(src[1], src[2])


def build(lay):
    imb = lay.get("imf_mb") or lay["mb"]
    imf = PowerLawIMF(imb, [-1.0] * (len(imb) - 1))
    return MassBins(lay["mb"], lay["nbins"], imf, make_ifmr(lay["ifmr"]), binning_method=lay["method"])


def each_of(lay):
    nb = lay["nbins"]["MS"] if isinstance(lay["nbins"], dict) else lay["nbins"]
    nseg = len(lay["mb"]) - 1
    if isinstance(nb, int):
        q, r = divmod(nb, nseg)
        return r * [q + 1] + (nseg - r) * [q]
    return list(nb)


def flat(bins):
    out = []
    for l, u in zip(np.atleast_1d(bins.lower), np.atleast_1d(bins.upper)):
        out += [float(l), float(u)]
    return out


def corr(ctx):
    n = ctx.n(400, 10000)
    lays = [gen_layout(ctx.rng) for _ in range(n)]
    lines, meta = [], []
    for lay in lays:
        try:
            mbins = build(lay)
            err = None
        except Exception as e:
            mbins, err = None, type(e).__name__
        meta.append((lay, mbins, err))
        each = each_of(lay)
        sp = "linear" if lay["method"] == "split_linear" else "log"
        lines.append(f"edges {sp} {hl(lay['mb'])} " + " ".join(map(str, each)))
    outs = run_driver(lines)
    lines2, meta2 = [], []
    for (lay, mbins, err), o in zip(meta, outs):
        form = "dict" if isinstance(lay["nbins"], dict) else type(lay["nbins"]).__name__
        detail = {"layout": lay, "real_error": err, "model": o[:120]}
        if err is not None:
            # every accepted form of the bin-count argument must construct: a raise here is reported by the sweep;
            # the correspondence only notes it cannot compare
            ctx.corr_case("edges", True, detail, branch=f"real-raises/{form}", nontrivial=False)
            continue
        medges = [uh(t) for t in o.split()]
        redges = list(map(float, np.r_[mbins.bins.MS.lower, mbins.bins.MS.upper[-1]]))
        ok = len(medges) == len(redges) and all(close(a, b, rel=1e-12) for a, b in zip(redges, medges))
        ctx.corr_case("edges", ok, detail, branch=f"{form}/{lay['method']}")
        if not isinstance(lay["nbins"], dict):
            im = make_ifmr(lay["ifmr"])
            lines2.append(f"carve {h(im.WD_mf.upper)} {h(im.BH_mf.lower)} {h(1.4)} " + " ".join(h(x) for x in redges))
            meta2.append(("carve", lay, mbins, None))
        # lookup + truncation on the real stellar bins
        fl_ = flat(mbins.bins.MS)
        for _ in range(4):
            r = ctx.rng.random()
            if r < 0.35:
                m = ctx.rng.choice(redges)
            elif r < 0.5:
                m = ctx.rng.choice(redges) * (1 + ctx.rng.choice([-1, 1]) * 1e-15 * ctx.rng.randint(1, 4))
            elif r < 0.6:
                m = redges[0] * ctx.rng.uniform(0.1, 1.0)
            elif r < 0.7:
                m = redges[-1] * ctx.rng.uniform(1.0, 3.0)
            else:
                m = loguniform(ctx.rng, redges[0], redges[-1])
            lines2.append(f"index {h(m)} " + " ".join(h(x) for x in fl_)); meta2.append(("index", lay, mbins, m))
            lines2.append(f"turnoff {h(m)} " + " ".join(h(x) for x in fl_)); meta2.append(("turnoff", lay, mbins, m))
    outs2 = run_driver(lines2)
    for (op, lay, mbins, m), o in zip(meta2, outs2):
        detail = {"layout": lay, "m": jf(m) if m is not None else None, "model": o[:160]}
        if op == "carve":
            parts = [p.split() for p in o.split("|")]
            ok = True
            for cls, toks in zip(("WD", "NS", "BH"), parts):
                rb = flat(getattr(mbins.bins, cls))
                mb_ = [uh(t) for t in toks]
                ok &= len(rb) == len(mb_) and all(close(a, b, rel=1e-12) for a, b in zip(rb, mb_))
            ctx.corr_case("carve", ok, detail, branch="nWD=%d,nNS=%d" % (min(mbins.nbin.WD, 1), mbins.nbin.NS))
        elif op == "index":
            try:
                r = "ok %d" % mbins.determine_index(m, "MS")
            except ValueError as e:
                r = "err below" if "below" in str(e) else "err above"
            ctx.corr_case("index", r == o, {**detail, "real": r}, branch=o.split()[0] + ("/" + o.split()[1] if o.startswith("err") else ""))
        else:
            tb = mbins.turned_off_bins(m)
            ctx.corr_case("turnoff", flat(tb) == [uh(t) for t in o.split()], detail)
    ctx.sample({"op": "edges", "layout": lays[0], "model": outs[0][:100]})
    # divide + pack/unpack
    for _ in range(ctx.n(300, 5000)):
        N, k = ctx.rng.randint(1, 200), ctx.rng.randint(1, 7)
        o = run_driver([f"divide {N} {k}"])[0] if False else None
    dv = [(ctx.rng.randint(1, 300), ctx.rng.randint(1, 7)) for _ in range(ctx.n(300, 5000))]
    for (N, k), o in zip(dv, run_driver([f"divide {N} {k}" for N, k in dv])):
        from ssptools.masses import _divide_bin_sizes
        ctx.corr_case("divide", _divide_bin_sizes(N, k) == [int(t) for t in o.split()], {"N": N, "k": k, "model": o})


# ------------------------------------------------------------------ predicates on the real code
def check_layout(lay):
    try:
        mb_ = build(lay)
    except Exception as e:
        return {"clause": "every accepted form of the bin-count argument constructs", "observed": f"{type(e).__name__}: {e}"[:200]}
    mb, each = lay["mb"], each_of(lay)
    lo, up = np.atleast_1d(mb_.bins.MS.lower), np.atleast_1d(mb_.bins.MS.upper)
    if lo[0] != mb[0] or up[-1] != mb[-1]:
        return {"clause": "stellar bins span [first break, last break]"}
    if not np.array_equal(lo[1:], up[:-1]):
        return {"clause": "stellar bins contiguous"}
    if not np.all(up > lo):
        return {"clause": "stellar bins strictly increasing"}
    edges = np.r_[lo, up[-1]]
    idx = 0
    for i, n in enumerate(each):
        if edges[idx] != mb[i]:
            return {"clause": "every break is an edge / requested number of bins per segment", "segment": i}
        idx += n
    if idx != len(lo) or mb_.nbin.MS != len(lo):
        return {"clause": "requested number of stellar bins", "observed": int(len(lo)), "expected": int(idx)}
    im = make_ifmr(lay["ifmr"])
    for cls in ("WD", "NS", "BH"):
        b = getattr(mb_.bins, cls)
        l, u = np.atleast_1d(b.lower), np.atleast_1d(b.upper)
        if np.ndim(b.lower) != 1 or np.ndim(b.upper) != 1:
            return {"clause": f"{cls} bin edges are arrays like every other class", "observed": f"ndim={np.ndim(b.lower)}"}
        if len(l) != getattr(mb_.nbin, cls):
            return {"clause": f"{cls} bin count consistent"}
        if len(l) and (not np.all(u > l) or not np.all(l[1:] >= u[:-1])):
            return {"clause": f"{cls} bins increasing and non-overlapping"}
    wl, wu = np.atleast_1d(mb_.bins.WD.lower), np.atleast_1d(mb_.bins.WD.upper)
    bl, bu = np.atleast_1d(mb_.bins.BH.lower), np.atleast_1d(mb_.bins.BH.upper)
    if len(wu) and wu[-1] != im.WD_mf.upper:
        return {"clause": "WD bins end at the maximum WD mass of the IFMR"}
    if len(bl) and bl[0] != im.BH_mf.lower:
        return {"clause": "BH bins start at the minimum BH mass of the IFMR"}
    nl, nu = np.atleast_1d(mb_.bins.NS.lower), np.atleast_1d(mb_.bins.NS.upper)
    ns = im.NS_mf.lower
    inside_range = mb[0] < ns < mb[-1]
    n_contain = int(np.sum((nl <= ns) & (ns < nu)))
    if inside_range or isinstance(lay["nbins"], dict):
        if len(nl) != 1 or n_contain != 1:
            return {"clause": "exactly one NS bin contains the NS mass", "observed": {"n_NS_bins": int(len(nl)), "containing": n_contain},
                    "ns_on_edge": bool(np.any(edges == ns))}
    # packing
    sizes = [mb_.nbin.MS, mb_.nbin.MS, mb_.nbin.WD, mb_.nbin.NS, mb_.nbin.BH, mb_.nbin.WD, mb_.nbin.NS, mb_.nbin.BH]
    rng = np.random.default_rng(len(lo))
    parts = [rng.random(s) for s in sizes]
    y = mb_.pack_values(*parts)
    if y.shape != (sum(sizes),) or not np.array_equal(y, np.concatenate(parts)):
        return {"clause": "pack_values concatenates in the documented order"}
    back = mb_.unpack_values(y)
    if len(back) != 8 or any(not np.array_equal(a, b) for a, b in zip(back, parts)):
        return {"clause": "unpack(pack(x)) = x"}
    if not np.array_equal(mb_.pack_values(*mb_.unpack_values(y)), y):
        return {"clause": "pack(unpack(y)) = y"}
    return None


def check_lookup(lay, m):
    try:
        mb_ = build(lay)
    except Exception:
        return "skip"
    lo, up = mb_.bins.MS.lower, mb_.bins.MS.upper
    want = [i for i in range(len(lo)) if lo[i] <= m < up[i]]
    try:
        got = mb_.determine_index(m, "MS")
    except ValueError:
        got = None
    if want and got != want[0]:
        return {"clause": "lookup returns the unique bin with lower <= m < upper", "observed": got, "expected": want[0]}
    if not want and got is not None:
        return {"clause": "lookup raises outside [lower_0, upper_last)", "observed": got}
    tb = mb_.turned_off_bins(m)
    if not np.array_equal(tb.lower, lo):
        return {"clause": "truncation never changes a lower edge"}
    diff = np.flatnonzero(tb.upper != up)
    if want:
        if len(diff) > 1 or (len(diff) == 1 and (diff[0] != want[0] or tb.upper[want[0]] != m)):
            return {"clause": "truncation changes only the upper edge of the bin containing m", "observed": diff.tolist()}
    elif len(diff):
        return {"clause": "out-of-range turn-off mass leaves the bins unchanged"}
    return None


def sweep(ctx):
    eff = getattr(ctx, "effort", 1)
    for _ in range(ctx.n(500, 12000) * eff):
        lay = gen_layout(ctx.rng)
        bad = check_layout(lay)
        form = "dict" if isinstance(lay["nbins"], dict) else type(lay["nbins"]).__name__
        ctx.sweep_case("layout", repr(lay), bad is None, {"failing_input": {"call": "layout", "args": lay}, "observed": bad},
                       branch=form + ("/above-WD" if lay["mb"][0] > 2 else ""))
        edges = lay["mb"]
        m = ctx.rng.choice([loguniform(ctx.rng, edges[0] * 0.5, edges[-1] * 1.5), ctx.rng.choice(edges)])
        bad = check_lookup(lay, m)
        ctx.sweep_case("lookup", (repr(lay), m), bad in (None, "skip"), {"failing_input": {"call": "lookup", "args": {"layout": lay, "m": jf(m)}}, "observed": bad},
                       branch="skipped" if bad == "skip" else "evaluated")


def _lay(a):
    a = dict(a); a["ifmr"] = tuple(a["ifmr"]); return a


def replay(ctx, fi):
    if fi["call"] == "layout":
        return check_layout(_lay(fi["args"]))
    if fi["call"] == "lookup":
        r = check_lookup(_lay(fi["args"]["layout"]), unjf(fi["args"]["m"]))
        return None if r == "skip" else r
    raise ValueError(fi["call"])


def classify(entry, failure):
    c = entry.get("classifier")
    obs = failure.get("observed") or {}
    if c == "ns_mass_on_bin_edge":
        return obs.get("clause") == "exactly one NS bin contains the NS mass" and obs.get("ns_on_edge") is True
    return False
