"""C19 — the initial-BH-population shortcut agrees with the full model."""
import json, math, types, warnings
import numpy as np
from common import h, uh, hl, jf, jfl, unjf, close, run_driver, loguniform
import real, gen
from real import evolve_mf, ifmr
from ssptools.masses import PowerLawIMF, MassBins
from props.C01 import imf_norms, pk1, seg_of, mto_of

TRUSTED = ["numpy float64 arithmetic vs Lean Float within 1e-11*scale on the derivative entries, 1e-9*N0 on the bookkeeping",
           "dopri5 output taken as given; both ODE systems are additionally run at rtol=atol=1e-10"]
ASSUMPTIONS = ["the nested derivative `_derivs_BHs` is reached through the function object handed to scipy's `ode` (captured from outside)",
               "bins and IFMR for the model are rebuilt from the configuration (MassBins / IFMR are C13 / C09)",
               "kicks are compared through the public attributes only (N, M, _kicked_M)"]
RULE = ("corr: `_derivs_BHs(t, y)` on synthetic states (ages before the first turn-off, around every bin's turn-off, on both sides of the "
        "final age) vs the Lean `derivsBH`; reported age vs `finalAge`; Ns_lost/Ms_lost vs the Lean `losses` on the solver's final star "
        "counts; from_BHMF numbers/masses vs `binnedEval1`. sweep: the property's clauses on real constructions — BH N, M per bin vs the "
        "full EvolvedMF at the reported age (default and tightened tolerance), bins identical, age = lifetime of BH_mi.lower + 0.1, losses "
        "= IMF above the final turn-off, stars lost = BHs formed, mass lost >= BH mass; from_BHMF edges / total / power law; kicks only "
        "remove, by the reported mass; distinct = distinct configurations")
TIGHT = dict(rtol=1e-10, atol=1e-10, nsteps=10 ** 7)
NMIN = real.DOC_DEFAULTS["Nmin"]
OFFSET = 0.1


def gen_cfg(rng):
    cfg = gen.gen_config(rng, small=True, kicks=False, escape=False)
    for k in ("NS_ret", "BH_ret_int", "BH_ret_dyn"):
        cfg["kw"].pop(k, None)
    cfg.pop("tout", None)
    if rng.random() < 0.2:
        # an IMF break above the lightest BH progenitor
        mb = cfg["m_breaks"]
        if len(mb) >= 3:
            mb[-2] = rng.choice([25.0, 30.0, 40.0, 60.0])
            if not (mb[-3] < mb[-2] < mb[-1]):
                mb[-2] = 0.5 * (mb[-3] + mb[-1])
    if rng.random() < 0.15:
        # few wide bins
        cfg["nbins"] = [rng.randint(1, 2) for _ in cfg["a_slopes"]]
    if rng.random() < 0.3:
        # non-default options of the analytic BH prescriptions (both models must honour them alike)
        if rng.random() < 0.5:
            cfg["kw"]["BH_IFMR_method"] = "linear"
            cfg["kw"]["BH_IFMR_kwargs"] = {"slope": rng.choice([0.3, 0.4, 0.5]), "scale": rng.choice([0.7, 1.0, 0.0]),
                                           "m_lower": rng.choice([19, 22, 24, 26])}
        else:
            cfg["kw"]["BH_IFMR_method"] = "powerlaw"
            cfg["kw"]["BH_IFMR_kwargs"] = {"m_lower": rng.choice([19, 22, 26]), "scale": rng.choice([14, 10])}
        if cfg["m_breaks"][-1] <= 40:
            cfg["m_breaks"][-1] = 100.0
    r = rng.random()
    if r < 0.35:
        cfg["kick"] = {"kick_method": "sigmoid", "kick_slope": rng.choice([1, 0.5, 0.2, 2]), "kick_scale": rng.choice([20, 10, 30, 5])}
    elif r < 0.7:
        cfg["kick"] = {"kick_method": "maxwellian", "vesc": rng.choice([90, 30, 200, 500])}
    else:
        cfg["kick"] = {}
    return cfg


def pop_kwargs(cfg):
    kw = {k: v for k, v in cfg["kw"].items() if k in ("binning_method", "BH_IFMR_method")}
    if "BH_IFMR_kwargs" in cfg["kw"]:
        kw["BH_IFMR_kwargs"] = dict(cfg["kw"]["BH_IFMR_kwargs"])      # a fresh dict per construction
    return kw


def build_pop(cfg, kicks=False, ode=None):
    kw = pop_kwargs(cfg)
    if kicks:
        kw.update(cfg.get("kick", {}))
    with warnings.catch_warnings():
        warnings.simplefilter("ignore")
        with real.recording_ode(**(ode or {})) as R:
            p = evolve_mf.InitialBHPopulation.from_powerlaw(cfg["m_breaks"], cfg["a_slopes"], cfg["nbins"], cfg["FeH"], N0=cfg["N0"],
                                                            natal_kicks=kicks, **kw)
            rec = R.instances[-1]
    return p, rec


def build_full(cfg, age, ode=None):
    kw = pop_kwargs(cfg)
    with warnings.catch_warnings():
        warnings.simplefilter("ignore")
        with real.recording_ode(**(ode or {})):
            return evolve_mf.EvolvedMF.from_powerlaw(cfg["m_breaks"], cfg["a_slopes"], cfg["nbins"], cfg["FeH"], [age], 0.0, N0=cfg["N0"],
                                                     BH_ret_int=1.0, BH_ret_dyn=1.0, natal_kicks=False, **kw)


def shim(cfg):
    """the sub-objects the model is described with, rebuilt from the configuration"""
    kw = pop_kwargs(cfg)
    im = ifmr.IFMR(cfg["FeH"], BH_method=kw.get("BH_IFMR_method", "banerjee20"), BH_kwargs=kw.get("BH_IFMR_kwargs"))
    imf = PowerLawIMF(m_break=cfg["m_breaks"], a=cfg["a_slopes"], N0=cfg["N0"], ext="zeros")
    with warnings.catch_warnings():
        warnings.simplefilter("ignore")
        mb = MassBins(cfg["m_breaks"], cfg["nbins"], imf, im, binning_method=kw.get("binning_method", "default"))
    return types.SimpleNamespace(massbins=mb, IFMR=im, FeH=cfg["FeH"])


def bin_slopes(cfg, ms):
    mbk, a = cfg["m_breaks"], cfg["a_slopes"]
    segs = [seg_of(mbk, math.sqrt(ms[j] * ms[j + 1])) for j in range(0, len(ms), 2)]
    A = imf_norms(mbk, a, cfg["N0"])
    return [a[i] for i in segs], [A[i] for i in segs]


def final_age_of(cfg, sh):
    a0, a1, a2 = map(float, real.msto_row(cfg["FeH"]))
    return a0 * math.exp(a1 * (float(sh.IFMR.BH_mi.lower) + OFFSET) ** a2), (a0, a1, a2)


def worker(job):
    cfg = job["cfg"]
    res = {"cfg": cfg}
    try:
        p, rec = build_pop(cfg)
        sh = shim(cfg)
        ms = real.bins_flat(sh.massbins.bins.MS)
        nms, nbh = len(ms) // 2, int(sh.massbins.nbin.BH)
        al, A = bin_slopes(cfg, ms)
        fa, tms = final_age_of(cfg, sh)
        res.update(age=float(p.age), fa=fa, tms=tms, ms=ms, al=al, A=A, bh=real.bins_flat(sh.massbins.bins.BH),
                   pop_bins=real.bins_flat(types.SimpleNamespace(lower=p.bins[0], upper=p.bins[1])),
                   N=p.N.tolist(), M=p.M.tolist(), m=p.m.tolist(), Ntot=float(p.Ntot), Mtot=float(p.Mtot),
                   Ns_lost=float(p.Ns_lost), Ms_lost=float(p.Ms_lost), final_Ns=[float(x) for x in rec.y[:nms]],
                   bhlo=float(sh.IFMR.BH_mi.lower), tokens=real.sev_cfg_tokens(sh, {"FeH": cfg["FeH"], "kw": {}}))
        # the nested derivative on synthetic states
        rng = np.random.default_rng(job["seed"])
        a0, a1, a2 = tms
        tms_u = [a0 * math.exp(a1 * u ** a2) for u in ms[1::2]]
        init = [Ai * pk1(ai, l, u) for Ai, ai, l, u in zip(A, al, ms[0::2], ms[1::2])]
        states = []
        for _ in range(job.get("nstates", 40)):
            r = rng.random()
            if r < 0.3:
                t = float(rng.choice(tms_u)) * float(rng.choice([1 - 1e-9, 1.0, 1 + 1e-9, 1.01, 1.2, 0.99]))
            elif r < 0.5:
                t = fa * float(rng.choice([1 - 1e-12, 1.0, 1 + 1e-12, 0.999, 1.001, 1.5, 3.0]))
            elif r < 0.6:
                t = a0 * float(rng.uniform(0.5, 1.5))
            else:
                t = float(math.exp(rng.uniform(math.log(a0 * 1.01), math.log(3 * fa))))
            Ns = [x * float(rng.choice([1.0, rng.random(), 1e-3 * rng.random(), 0.0])) for x in init]
            if rng.random() < 0.3:
                j = int(rng.integers(0, nms))
                Ns[j] = float(rng.choice([0.1, 0.0999, 0.1001, 0.05, 0.2]))
            y = np.r_[Ns, rng.random(nbh) * 10, rng.random(nbh) * 100]
            try:
                with np.errstate(all="ignore"):
                    d = rec._f(t, y.copy())
                out = {"ok": [float(x) for x in d]}
            except Exception as e:
                out = {"err": f"{type(e).__name__}: {e}"[:120]}
            states.append({"t": t, "Ns": Ns, "out": out})
        res["states"] = states
        # twin runs
        f = build_full(cfg, p.age)
        res["full"] = {"N": f.Nr.BH[0].tolist(), "M": f.Mr.BH[0].tolist(), "bins": real.bins_flat(f.massbins.bins.BH),
                       "converged": bool(f.converged)}
        pt, rect = build_pop(cfg, ode=TIGHT)
        ft = build_full(cfg, pt.age, ode=TIGHT)
        res["tight"] = {"N": pt.N.tolist(), "M": pt.M.tolist(), "fN": ft.Nr.BH[0].tolist(), "fM": ft.Mr.BH[0].tolist(),
                        "Ns_lost": float(pt.Ns_lost), "Ms_lost": float(pt.Ms_lost),
                        # the BH-only class has no convergence flag: ask the (wrapped) solver itself whether the tightened run succeeded
                        "converged": bool(ft.converged) and bool(rect._ode.successful())}
        # kicks
        if cfg.get("kick"):
            try:
                pk, _ = build_pop(cfg, kicks=True)
                res["kick"] = {"N": pk.N.tolist(), "M": pk.M.tolist(), "kicked": float(pk._kicked_M), "age": float(pk.age),
                               "Ns_lost": float(pk.Ns_lost), "Ms_lost": float(pk.Ms_lost)}
            except Exception as e:
                res["kick"] = {"error": f"{type(e).__name__}: {e}"[:200]}
    except Exception as e:
        res["error"] = f"{type(e).__name__}: {e}"[:200]
    return res


# ------------------------------------------------------------------ BH mass functions
def gen_bhmf(rng):
    nseg = rng.choice([1, 1, 2, 3])
    lo = rng.choice([3.0, 5.0, 8.0, 10.0, 20.0])
    hi = rng.choice([40.0, 50.0, 80.0, 100.0])
    inner = sorted(rng.uniform(lo * 1.2, hi * 0.8) for _ in range(nseg - 1))
    mb = [lo] + [round(x, 2) for x in inner] + [hi]
    if any(b <= a for a, b in zip(mb, mb[1:])):          # rounding may merge two inner breaks
        mb = [lo] + [lo + (hi - lo) * (i + 1) / nseg for i in range(nseg - 1)] + [hi]
    a = [rng.choice([-1.0, -2.0, -2.35, 0.5, 0.0, round(rng.uniform(-3, 1), 2)]) for _ in range(nseg)]
    nb = [rng.randint(1, 8) for _ in range(nseg)] if rng.random() < 0.8 else rng.randint(nseg, 6 * nseg)
    r = rng.random()
    kick = ({"kick_method": "sigmoid", "kick_slope": rng.choice([1, 0.5, 2]), "kick_scale": rng.choice([20, 10, 30])} if r < 0.4
            else {"kick_method": "maxwellian", "vesc": rng.choice([90, 30, 200])} if r < 0.8 else {})
    return {"m_breaks": mb, "a_slopes": a, "nbins": nb, "FeH": gen.gen_feh(rng), "N0": float(rng.choice([1000, 1, 250.5, 1e5])),
            "binning_method": rng.choice(["default", "split_log", "split_linear"]), "kick": kick}


def bhmf_worker(cfg):
    res = {"cfg": cfg}
    try:
        with warnings.catch_warnings():
            warnings.simplefilter("ignore")
            p = evolve_mf.InitialBHPopulation.from_BHMF(cfg["m_breaks"], cfg["a_slopes"], cfg["nbins"], cfg["FeH"], N0=cfg["N0"],
                                                        natal_kicks=False, binning_method=cfg["binning_method"])
            res.update(N=p.N.tolist(), M=p.M.tolist(), lower=list(map(float, p.bins[0])), upper=list(map(float, p.bins[1])),
                       age=p.age, Ns_lost=p.Ns_lost, Ms_lost=p.Ms_lost)
            if cfg["kick"]:
                try:
                    pk = evolve_mf.InitialBHPopulation.from_BHMF(cfg["m_breaks"], cfg["a_slopes"], cfg["nbins"], cfg["FeH"], N0=cfg["N0"],
                                                                 natal_kicks=True, binning_method=cfg["binning_method"], **cfg["kick"])
                    res["kick"] = {"N": pk.N.tolist(), "M": pk.M.tolist(), "kicked": float(pk._kicked_M)}
                except Exception as e:
                    res["kick"] = {"error": f"{type(e).__name__}: {e}"[:200]}
    except Exception as e:
        res["error"] = f"{type(e).__name__}: {e}"[:200]
    return res


_cache = {}


def results(ctx):
    key = (ctx.seed, ctx.tier, getattr(ctx, "effort", 1))
    if key not in _cache:
        eff = getattr(ctx, "effort", 1)
        jobs = [{"cfg": gen_cfg(ctx.rng), "seed": ctx.rng.randrange(2 ** 31)} for _ in range(ctx.n(42, 1200) * eff)]
        bj = [gen_bhmf(ctx.rng) for _ in range(ctx.n(120, 3000) * eff)]
        _cache[key] = (gen.pmap(worker, jobs), gen.pmap(bhmf_worker, bj))
    return _cache[key]


# ------------------------------------------------------------------ correspondence
def corr(ctx):
    rs, bs = results(ctx)
    for res in rs:
        cfg = res["cfg"]
        if "error" in res:
            ctx.corr_case("bhderiv", False, {"cfg": cfg, "error": res["error"]}, branch="error")
            continue
        nms, nbh = len(res["ms"]) // 2, len(res["bh"]) // 2
        lines = [f"bhderiv {h(s['t'])} {h(NMIN)} {h(res['fa'])} {hl(s['Ns'])} {hl(res['al'])} {res['tokens']}" for s in res["states"]]
        outs = run_driver(lines)
        for s, o in zip(res["states"], outs):
            toks = o.split()
            detail = {"cfg": cfg, "t": jf(s["t"]), "Ns": jfl(s["Ns"]), "real": str(s["out"])[:300], "model": o[:200]}
            br = "after" if s["t"] > res["fa"] else "before"
            if "err" in s["out"]:
                ok = toks[0] == "err" and (("RuntimeError" in s["out"]["err"]) == (toks[1] == "notBH"))
                ctx.corr_case("bhderiv", ok, detail, branch="error/" + br)
                continue
            if toks[0] != "ok":
                ctx.corr_case("bhderiv", False, detail, branch=br)
                continue
            d = s["out"]["ok"]
            dNs, dNr, dMr = d[:nms], d[nms:nms + nbh], d[nms + nbh:]
            want = [0.0] * nms
            defined = toks[3] == "true"
            if toks[1] != "-":
                want[int(toks[1])] = uh(toks[2])
            wr, wm = [0.0] * nbh, [0.0] * nbh
            if toks[4] != "-":
                wr[int(toks[4])], wm[int(toks[4])] = uh(toks[5]), uh(toks[6])
            ok, ind = True, False
            if not defined:
                ok = any(math.isnan(x) for x in d)
            else:
                sc = max(max(abs(x) for x in want + wr), 1e-300)
                scm = max(max(abs(x) for x in wm), 1e-300)
                for x, y in zip(dNs + dNr, want + wr):
                    ok &= close(x, y, sc, rel=1e-10)
                for x, y in zip(dMr, wm):
                    ok &= close(x, y, scm, rel=1e-10)
            if not ok:
                # a turn-off time / final age within rounding of t may flip a strict comparison (the turn-off mass then sits on a bin edge)
                a0, a1, a2 = res["tms"]
                edges = [a0 * math.exp(a1 * u ** a2) for u in res["ms"][1::2]] + [res["fa"], a0]
                ind = any(abs(s["t"] - e) <= 4e-16 * e for e in edges) or any(abs(x - NMIN) < 1e-15 for x in s["Ns"])
            ctx.corr_case("bhderiv", ok, detail, branch=br + ("/deposit" if toks[4] != "-" else "/none"), indeterminate=(not ok) and ind,
                          nontrivial=toks[1] != "-")
        # reported age
        a0, a1, a2 = res["tms"]
        o = run_driver([f"finalage {h(a0)} {h(a1)} {h(a2)} {h(res['bhlo'])} {h(OFFSET)}"])[0]
        ctx.corr_case("finalage", close(uh(o), res["age"], rel=1e-13), {"cfg": cfg, "real": repr(res["age"]), "model": repr(uh(o))})
        # bookkeeping on the solver's own final star counts
        mto = mto_of(res["tms"], res["age"])
        o = run_driver([f"losses {h(mto)} {hl(res['A'])} {hl(res['al'])} {hl(res['final_Ns'])} {hl(res['ms'])}"])[0].split()
        sc = cfg["N0"]
        scm = sum(A * (pk1(a + 1, l, u)) for A, a, l, u in zip(res["A"], res["al"], res["ms"][0::2], res["ms"][1::2]))
        ok = close(uh(o[0]), res["Ns_lost"], sc, rel=1e-9) and close(uh(o[1]), res["Ms_lost"], scm, rel=1e-9)
        ctx.corr_case("losses", ok, {"cfg": cfg, "real": [repr(res["Ns_lost"]), repr(res["Ms_lost"])], "model": [repr(uh(o[0])), repr(uh(o[1]))]})
    # from_BHMF
    for res in bs:
        cfg = res["cfg"]
        if "error" in res:
            ctx.corr_case("bhmf", False, {"cfg": cfg, "error": res["error"]}, branch="error")
            continue
        lines = [f"binned 0 {h(cfg['N0'])} {h(l)} {h(u)} {hl(cfg['m_breaks'])} {hl(cfg['a_slopes'])}" for l, u in zip(res["lower"], res["upper"])]
        outs = run_driver(lines)
        ok = True
        for o, n, m in zip(outs, res["N"], res["M"]):
            t = o.split()
            ok &= t[0] != "err" and close(uh(t[0]), n, rel=1e-10, abs_=1e-300) and close(uh(t[1]), m, rel=1e-10, abs_=1e-300)
        ctx.corr_case("bhmf", ok, {"cfg": cfg, "real_N": res["N"][:6], "model": outs[:3]}, branch=f"{len(cfg['a_slopes'])}seg")
    if rs and "error" not in rs[0]:
        ctx.sample({"op": "bhderiv", "cfg": rs[0]["cfg"], "age": rs[0]["age"]})


# ------------------------------------------------------------------ the property's predicates
def check_pop(res):
    cfg = res["cfg"]
    if "error" in res:
        return {"clause": "a valid configuration builds", "observed": res["error"]}
    # reported age: lifetime of the lightest BH progenitor + 0.1 Msun
    if not close(res["age"], res["fa"], rel=1e-12):
        return {"clause": "reports the age at which the lightest BH progenitor (+0.1 Msun) leaves the main sequence", "age": repr(res["age"]),
                "expected": repr(res["fa"])}
    if res["pop_bins"] != res["full"]["bins"]:
        return {"clause": "same BH bins as the full model"}
    ntot, mtot = max(sum(res["full"]["N"]), 1.0), max(sum(res["full"]["M"]), 1.0)
    # per bin, relative to the class total: at the default tolerance objects are booked into neighbouring bins at the 10 % level (C01),
    # at 1e-10 still at the 5e-4 level in the *full* model (it converges to the shortcut's value under max_step=1e-3; dopri5 gives up at 1e-12)
    for tag, N, M, fN, fM, rel in (("default", res["N"], res["M"], res["full"]["N"], res["full"]["M"], 15e-2),
                                   ("tightened", res["tight"]["N"], res["tight"]["M"], res["tight"]["fN"], res["tight"]["fM"], 2e-3)):
        if tag == "tightened" and not res["tight"]["converged"]:
            continue
        for j in range(len(N)):
            if abs(N[j] - fN[j]) > rel * ntot + 1e-6 or abs(M[j] - fM[j]) > rel * mtot + 1e-6:
                return {"clause": "BH number and mass per bin equal the full model's at the reported age (no escape, full retention)",
                        "tolerance": tag, "bin": j, "N": [repr(N[j]), repr(fN[j])], "M": [repr(M[j]), repr(fM[j])]}
    if any(math.isnan(v) or math.isinf(v) for v in (res["Ns_lost"], res["Ms_lost"])):
        return {"clause": "stellar losses are reported (finite numbers)", "Ns_lost": repr(res["Ns_lost"]), "Ms_lost": repr(res["Ms_lost"])}
    # losses = IMF above the final turn-off
    mto = mto_of(res["tms"], res["age"])
    ms = res["ms"]
    Nab = Mab = 0.0
    k = 0
    for A, a, l, u in zip(res["A"], res["al"], ms[0::2], ms[1::2]):
        lo = max(l, min(mto, u))
        if lo < u:
            Nab += A * pk1(a, lo, u)
            Mab += A * pk1(a + 1, lo, u)
            k += 1
    for tag, nl, ml, rel in (("default", res["Ns_lost"], res["Ms_lost"], 5e-2), ("tightened", res["tight"]["Ns_lost"], res["tight"]["Ms_lost"], 1e-5)):
        if tag == "tightened" and not res["tight"]["converged"]:
            continue
        if abs(nl - Nab) > rel * Nab + NMIN * k + 1e-6:
            return {"clause": "stars lost = IMF number above the final turn-off mass", "tolerance": tag, "Ns_lost": repr(nl), "imf": repr(Nab)}
        if abs(ml - Mab) > rel * Mab + NMIN * k * ms[-1] + 1e-6:
            return {"clause": "stellar mass lost = IMF mass above the final turn-off mass", "tolerance": tag, "Ms_lost": repr(ml), "imf": repr(Mab)}
    if abs(res["Ns_lost"] - res["Ntot"]) > 1e-3 * max(res["Ntot"], 1.0) + 1e-6:
        return {"clause": "stars lost equal BHs formed", "Ns_lost": repr(res["Ns_lost"]), "Ntot": repr(res["Ntot"])}
    if res["Ms_lost"] < res["Mtot"] * (1 - 1e-6):
        return {"clause": "the stellar mass lost is at least the BH mass formed", "Ms_lost": repr(res["Ms_lost"]), "Mtot": repr(res["Mtot"])}
    if "kick" in res:
        bad = check_kick(res["N"], res["M"], res["kick"])
        if bad:
            return bad
        kk = res["kick"]
        if "error" not in kk and (kk["age"] != res["age"] or kk["Ns_lost"] != res["Ns_lost"] or kk["Ms_lost"] != res["Ms_lost"]) \
                and not any(math.isnan(v) for v in (kk["Ms_lost"], res["Ms_lost"])):
            return {"clause": "kicks change only the BHs (age and stellar losses as without kicks)"}
    return None


def check_kick(N, M, kk):
    if "error" in kk:
        return {"clause": "a population with natal kicks builds", "observed": kk["error"]}
    for j in range(len(N)):
        if kk["N"][j] > N[j] * (1 + 1e-12) + 1e-12 or kk["M"][j] > M[j] * (1 + 1e-12) + 1e-12 or kk["N"][j] < 0 or kk["M"][j] < 0:
            return {"clause": "kicks only remove BHs", "bin": j, "N": [repr(N[j]), repr(kk["N"][j])], "M": [repr(M[j]), repr(kk["M"][j])]}
    removed = sum(M) - sum(kk["M"])
    if abs(removed - kk["kicked"]) > 1e-9 * max(sum(M), 1e-300):
        return {"clause": "the BH mass removed is exactly the reported kicked mass", "removed": repr(removed), "reported": repr(kk["kicked"])}
    return None


def check_bhmf(res):
    cfg = res["cfg"]
    if "error" in res:
        return {"clause": "a BH mass function well above the WD/NS range builds", "observed": res["error"]}
    mb, a, n0 = cfg["m_breaks"], cfg["a_slopes"], cfg["N0"]
    lo, up = res["lower"], res["upper"]
    if not (close(lo[0], mb[0], rel=1e-12) and close(up[-1], mb[-1], rel=1e-12)) or any(not close(x, y, rel=1e-12) for x, y in zip(up[:-1], lo[1:])):
        return {"clause": "bins tile the requested mass range", "lower": lo[:4], "upper": up[-4:]}
    edges = set(lo) | {up[-1]}
    for b in mb:
        if not any(close(b, e, rel=1e-12) for e in edges):
            return {"clause": "every break mass is a bin edge", "break": b}
    nb = cfg["nbins"]
    if len(lo) != (sum(nb) if isinstance(nb, list) else nb):
        return {"clause": "the requested number of bins", "got": len(lo)}
    if abs(sum(res["N"]) - n0) > 1e-9 * n0:
        return {"clause": "numbers sum to N0", "sum": repr(sum(res["N"])), "N0": repr(n0)}
    A = imf_norms(mb, a, n0)
    for j, (l, u) in enumerate(zip(lo, up)):
        i = seg_of(mb, math.sqrt(l * u))
        n, m = A[i] * pk1(a[i], l, u), A[i] * pk1(a[i] + 1, l, u)
        if not close(res["N"][j], n, rel=1e-9) or not close(res["M"][j], m, rel=1e-9):
            return {"clause": "each bin holds the power law's number and mass", "bin": j, "N": [repr(res["N"][j]), repr(n)], "M": [repr(res["M"][j]), repr(m)]}
    if res["age"] is not None or res["Ns_lost"] is not None or res["Ms_lost"] is not None:
        return {"clause": "no evolution is reported for a population built directly from a mass function", "age": repr(res["age"])}
    if "kick" in res:
        return check_kick(res["N"], res["M"], res["kick"])
    return None


def sweep(ctx):
    rs, bs = results(ctx)
    for res in rs:
        bad = check_pop(res)
        cfg = res["cfg"]
        ctx.sweep_case("from_IMF", json.dumps(cfg, sort_keys=True), bad is None, {"failing_input": {"call": "pop", "args": {"cfg": cfg}}, "observed": bad},
                       branch=("kick:" + cfg.get("kick", {}).get("kick_method", "none")))
    for res in bs:
        bad = check_bhmf(res)
        cfg = res["cfg"]
        ctx.sweep_case("from_BHMF", json.dumps(cfg, sort_keys=True), bad is None, {"failing_input": {"call": "bhmf", "args": {"cfg": cfg}}, "observed": bad},
                       branch=f"{len(cfg['a_slopes'])}seg/" + cfg["kick"].get("kick_method", "nokick"))


def replay(ctx, fi):
    if fi["call"] == "pop":
        return check_pop(worker({"cfg": fi["args"]["cfg"], "seed": 0, "nstates": 0}))
    if fi["call"] == "bhmf":
        return check_bhmf(bhmf_worker(fi["args"]["cfg"]))
    raise ValueError(fi["call"])


def classify(entry, failure):
    return False
