"""C15 — kick retention is a probability matching its definition; kicks only remove."""
import math
import numpy as np
from scipy.special import erf as sp_erf
from common import h, uh, hl, jf, jfl, unjf, close, run_driver, loguniform
import real
from real import kicks, ifmr
from props.C07 import gen_bins, parse_bins

TRUSTED = ["scipy.special.erf vs the driver's series erf (1e-12)", "scipy interp1d (linear) vs model fallbackInterp",
           "closed-form Maxwellian CDF (proved = ∫pdf in Lean) as the oracle for the real retention routine"]
ASSUMPTIONS = ["fallback fraction tables are taken as data (their range [0,1] is checked per run)"]
RULE = ("corr: sigmoid / erf / fallback interpolation / Maxwellian retention / per-bin bookkeeping on random arguments over the property's "
        "ranges (m∈[1,150], vesc∈[1,2000], vdisp∈[50,500], every uSSE table in thorough) vs the real kicks module; sweep: the clauses "
        "of C15 on the real functions; distinct = distinct argument tuples")

_grids = {}


def lean_targets(ctx):
    """kernel-check the fallback column (0 ≤ fb ≤ 1) of the uSSE tables this run uses (thorough: all of them)"""
    import translate
    which = set()
    for sn in ("rapid", "delayed"):
        g = feh_grid(sn)
        picks = g if not ctx.quick else [g[0], g[-1], -1.0, 0.0, -0.5, -2.0]
        for f in picks:
            which.add((f"uSSE_{sn}", f"IFMR_FEH{f:+.2f}"))
    return translate.table_modules(which)


def feh_grid(sn):
    if sn not in _grids:
        _grids[sn] = sorted(float(p.stem.split("FEH")[-1]) for p in ifmr.get_data(f"ifmr/uSSE_{sn}").glob("*dat"))
    return _grids[sn]


_tabs = {}


def fb_table(feh, sn):
    key = (feh, sn)
    if key not in _tabs:
        path = ifmr.get_data(f"ifmr/uSSE_{sn}/IFMR_FEH{feh:+.2f}.dat")
        x, y = np.loadtxt(path, usecols=(1, 3), unpack=True)
        idx = np.argsort(x, kind="mergesort")
        _tabs[key] = (x[idx], y[idx], kicks._F12_fallback_frac(feh, SNe_method=sn))
    return _tabs[key]


def cdf(a, v):
    return float(sp_erf(v / (math.sqrt(2) * a)) - math.sqrt(2 / math.pi) * (v / a) * math.exp(-v * v / (2 * a * a)))


def gen_mvf(ctx):
    sn = ctx.rng.choice(["rapid", "delayed"])
    g = feh_grid(sn)
    feh = ctx.rng.choice(g) if not ctx.quick else ctx.rng.choice([g[0], g[-1], -1.0, 0.0, -0.5, -2.0, ctx.rng.choice(g)])
    m = loguniform(ctx.rng, 1, 150) if ctx.rng.random() < 0.8 else ctx.rng.uniform(1, 150)
    vesc = loguniform(ctx.rng, 1, 2000)
    vdisp = ctx.rng.uniform(50, 500)
    return m, vesc, feh, vdisp, sn


def corr(ctx):
    # erf + sigmoid
    n = ctx.n(5000, 100000)
    xs = [ctx.rng.uniform(-7, 7) if ctx.rng.random() < 0.8 else loguniform(ctx.rng, 1e-12, 1e-2) for _ in range(n)]
    for x, o in zip(xs, run_driver([f"erf {h(x)}" for x in xs])):
        ctx.corr_case("erf", close(float(sp_erf(x)), uh(o), 1.0, rel=1e-13), {"x": jf(x), "model": o, "real": repr(float(sp_erf(x)))})
    trip = [(ctx.rng.choice([-1, 0, 0.2, 0.5, 1, 2, 10, ctx.rng.uniform(-2, 10)]), ctx.rng.uniform(-20, 150), loguniform(ctx.rng, 0.01, 150)) for _ in range(n)]
    outs = run_driver([f"sigmoid {h(sl)} {h(sc)} {h(m)}" for sl, sc, m in trip])
    for (sl, sc, m), o in zip(trip, outs):
        with np.errstate(all="ignore"):
            r = float(kicks._sigmoid_retention_frac(m, sl, sc))
        e = sl * (m - sc)
        # erf(exp(e)): exp's rounding is amplified by |e| in relative terms; erf' ≤ 1.13
        ctx.corr_case("sigmoid", close(r, uh(o), 1.0, rel=1e-12 * max(1.0, abs(e))), {"args": [jf(sl), jf(sc), jf(m)], "model": o, "real": repr(r)},
                      branch="saturated" if r in (0.0, 1.0) else "mid")
    # fallback interpolation and Maxwellian retention
    n2 = ctx.n(1500, 40000)
    cases = [gen_mvf(ctx) for _ in range(n2)]
    lines_fb, lines_ret, meta = [], [], []
    for m, vesc, feh, vdisp, sn in cases:
        x, y, f = fb_table(feh, sn)
        flat = []
        for a, b in zip(x, y):
            flat += [h(a), h(b)]
        fb = float(f(m))
        lines_fb.append(f"fbinterp {h(m)} " + " ".join(flat))
        lines_ret.append(f"maxwellret {h(fb)} {h(vesc)} {h(vdisp)}")
        meta.append(fb)
    o_fb = run_driver(lines_fb)
    o_ret = run_driver(lines_ret)
    for (m, vesc, feh, vdisp, sn), fb, o1, o2 in zip(cases, meta, o_fb, o_ret):
        ctx.corr_case("fbinterp", close(fb, uh(o1), 1.0, rel=1e-12), {"m": jf(m), "FeH": feh, "SNe": sn, "real": repr(fb), "model": o1},
                      branch="below" if fb == 0 else "above" if fb == 1 else "inside")
        with np.errstate(all="ignore"):
            r = float(kicks._maxwellian_retention_frac(m, vesc, feh, vdisp, SNe_method=sn))
        ctx.corr_case("maxwellret", close(r, uh(o2), 1.0, rel=1e-12),
                      {"m": jf(m), "vesc": jf(vesc), "FeH": feh, "vdisp": jf(vdisp), "SNe": sn, "fb": repr(fb), "real": repr(r), "model": o2},
                      branch="full-fallback" if fb >= 1 else ("narrow" if vdisp * (1 - fb) < 2 else "wide"))
    ctx.sample({"op": "maxwellret", "args": [repr(x) for x in cases[0]], "fb": meta[0], "model": o_ret[0]})
    # bookkeeping
    n3 = ctx.n(3000, 60000)
    bcases = []
    for _ in range(n3):
        M, N = gen_bins(ctx.rng, 20)
        bcases.append((M, N, ctx.rng.choice([0.5, 1, 0.2, 2, -0.5]), ctx.rng.choice([20, 10, 30, 5, 50])))
    lines = []
    for M, N, sl, sc in bcases:
        flat = []
        for m, nn in zip(M, N):
            flat += [h(m), h(nn)]
        lines.append(f"kicks_sig {h(sl)} {h(sc)} " + " ".join(flat))
    for (M, N, sl, sc), o in zip(bcases, run_driver(lines)):
        Mr, Nr = np.array(M, dtype=float), np.array(N, dtype=float)
        with np.errstate(all="ignore"):
            a, b, ej = kicks.natal_kicks(Mr, Nr, method="sigmoid", slope=sl, scale=sc)
        toks = o.split()
        mM, mN = parse_bins(toks[1:])
        sc_ = max([abs(x) for x in M] + [1e-300])
        ok = len(mM) == len(M) and close(float(ej), uh(toks[0]), sc_, rel=1e-10)
        for x, y in zip(list(a) + list(b), mM + mN):
            ok &= close(float(x), y, max(sc_, abs(y)), rel=1e-10)
        ctx.corr_case("kicks", ok, {"M": jfl(M), "N": jfl(N), "slope": sl, "scale": sc, "model": o[:160]},
                      branch="has-skipped" if any(x < 0.1 for x in N) else "all-populated", nontrivial=bool(M))


# ------------------------------------------------------------------ predicates on the real code
def check_ret(m, vesc, feh, vdisp, sn):
    x, y, f = fb_table(feh, sn)
    fb = float(f(m))
    if not (0.0 <= fb <= 1.0):
        return {"clause": "fallback fraction in [0,1]", "observed": repr(fb)}
    # outside the tabulated remnant masses the fallback is the routine's stated convention: none below the lightest, complete above the heaviest
    if (m > x[-1] and fb != 1.0) or (m < x[0] and fb != 0.0):
        return {"clause": "fallback is complete above the heaviest tabulated remnant and absent below the lightest", "observed": repr(fb),
                "table_range": [repr(float(x[0])), repr(float(x[-1]))]}
    with np.errstate(all="ignore"):
        r = float(kicks._maxwellian_retention_frac(m, vesc, feh, vdisp, SNe_method=sn))
    if not (0.0 <= r <= 1.0 + 1e-12):
        return {"clause": "retention in [0,1]", "observed": repr(r), "fb": repr(fb)}
    if fb >= 1.0:
        return None if r == 1.0 else {"clause": "full fallback retains everything", "observed": repr(r)}
    want = cdf(vdisp * (1 - fb), vesc)
    if not abs(r - want) <= 1e-4 * want + 1e-9:
        return {"clause": "retention = Maxwellian(vdisp·(1−fb)) integrated 0..vesc", "observed": repr(r), "expected": repr(want), "fb": repr(fb)}
    with np.errstate(all="ignore"):
        r2 = float(kicks._maxwellian_retention_frac(m, vesc * 1.1, feh, vdisp, SNe_method=sn))
    if r2 < r - 1e-9:
        return {"clause": "non-decreasing in escape velocity", "observed": [repr(r), repr(r2)]}
    return None


def check_sigmoid(sl, sc, m):
    with np.errstate(all="ignore"):
        r = float(kicks._sigmoid_retention_frac(m, sl, sc))
    want = float(sp_erf(np.exp(sl * (m - sc))))
    if not (0 <= r <= 1) or not close(r, want, 1.0, rel=1e-12):
        return {"clause": "sigmoid = erf(exp(slope·(m−scale))) in [0,1]", "observed": repr(r), "expected": repr(want)}
    return None


def check_book(M, N, method, kw):
    Mr, Nr = np.array(M, dtype=float), np.array(N, dtype=float)
    f = kicks._sigmoid_retention_frac if method == "sigmoid" else kicks._maxwellian_retention_frac
    with np.errstate(all="ignore"):
        rets = [float(f(m / n, **kw)) if n >= 0.1 else None for m, n in zip(M, N)]
        a, b, ej = kicks.natal_kicks(Mr, Nr, method=method, **kw)
    if a is not Mr or b is not Nr:
        return {"clause": "returns the very arrays it was given"}
    sc = max([abs(x) for x in M] + [1e-300])
    for j, (m, n, r) in enumerate(zip(M, N, rets)):
        if r is None:
            if a[j] != m or b[j] != n:
                return {"clause": "bins with fewer than 0.1 objects untouched", "bin": j}
        else:
            if not (close(float(a[j]), m * r, sc, rel=1e-12) and close(float(b[j]), n * r, max(N), rel=1e-12)):
                return {"clause": "populated bin scaled by the retention of its mean mass", "bin": j}
            if a[j] > m * (1 + 1e-12) or b[j] > n * (1 + 1e-12):
                return {"clause": "nothing increases", "bin": j, "retention": repr(r)}
            if b[j] > 0 and a[j] > 0 and abs(a[j] / b[j] - m / n) > 1e-9 * (m / n):
                return {"clause": "mean mass unchanged", "bin": j}
    if not abs(float(ej) - (sum(M) - float(a.sum()))) <= 1e-9 * sc:
        return {"clause": "ejected = mass removed", "observed": repr(float(ej)), "expected": repr(sum(M) - float(a.sum()))}
    return None


def sweep(ctx):
    eff = getattr(ctx, "effort", 1)
    for _ in range(ctx.n(1500, 60000) * eff):
        m, vesc, feh, vdisp, sn = gen_mvf(ctx)
        bad = check_ret(m, vesc, feh, vdisp, sn)
        ctx.sweep_case("maxwellian", (m, vesc, feh, vdisp, sn), bad is None,
                       {"failing_input": {"call": "ret", "args": [jf(m), jf(vesc), feh, jf(vdisp), sn]}, "observed": bad})
    for _ in range(ctx.n(3000, 60000) * eff):
        sl, sc, m = ctx.rng.uniform(-2, 10), ctx.rng.uniform(-20, 150), loguniform(ctx.rng, 1, 150)
        bad = check_sigmoid(sl, sc, m)
        ctx.sweep_case("sigmoid", (sl, sc, m), bad is None, {"failing_input": {"call": "sigmoid", "args": [jf(sl), jf(sc), jf(m)]}, "observed": bad})
    for _ in range(ctx.n(400, 8000) * eff):
        M, N = gen_bins(ctx.rng, 15)
        if ctx.rng.random() < 0.5:
            method, kw = "sigmoid", {"slope": ctx.rng.choice([0.5, 1, 0.2]), "scale": ctx.rng.choice([20, 10, 30])}
        else:
            sn = "rapid"
            method, kw = "maxwellian", {"vesc": ctx.rng.choice([90, 30, 200, 500]), "FeH": ctx.rng.choice([-1.0, 0.0, -2.0, 0.3]), "vdisp": 265.}
        bad = check_book(M, N, method, kw)
        ctx.sweep_case("bookkeeping", (tuple(M), tuple(N), method, repr(kw)), bad is None,
                       {"failing_input": {"call": "book", "args": {"M": jfl(M), "N": jfl(N), "method": method, "kw": kw}}, "observed": bad}, branch=method)


def replay(ctx, fi):
    a = fi["args"]
    if fi["call"] == "ret":
        return check_ret(unjf(a[0]), unjf(a[1]), a[2], unjf(a[3]), a[4])
    if fi["call"] == "sigmoid":
        return check_sigmoid(*[unjf(x) for x in a])
    if fi["call"] == "book":
        return check_book([unjf(x) for x in a["M"]], [unjf(x) for x in a["N"]], a["method"], a["kw"])
    raise ValueError(fi["call"])


def classify(entry, failure):
    return False
