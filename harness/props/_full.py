"""Shared worker: build a real model for a configuration and report everything the row-level properties look at."""
import math, warnings
import numpy as np
import real, gen
from real import evolve_mf

DOCUMENTED_ERRORS = ("Natal kicks already removed", "Target `f_BH`")


def full_worker(job):
    cfg = job["cfg"] if "cfg" in job else job
    kind = job.get("kind", "plain") if isinstance(job, dict) and "cfg" in job else "plain"
    ov = job.get("ode", {}) if isinstance(job, dict) and "cfg" in job else {}
    res = {"cfg": cfg, "kind": kind}
    cls = evolve_mf.EvolvedMFWithBH if kind == "fbh" else evolve_mf.EvolvedMF
    try:
        with real.recording_ode(**ov) as R, real.nan_blanks():
            f = gen.build(cfg, cls=cls)
            rec = R.instances[-1]
    except Exception as e:
        res["error"] = type(e).__name__
        res["msg"] = str(e)[:200]
        res["documented"] = isinstance(e, ValueError) and any(s in str(e) for s in DOCUMENTED_ERRORS)
        return res
    res["converged"] = bool(f.converged)
    res["warned"] = any("converged" in w for w in f._warnings)
    res["calls"] = rec.calls
    res["grid"] = list(map(float, f.t))
    mb = f.massbins
    res["bins"] = {c: (np.atleast_1d(getattr(mb.bins, c).lower).tolist(), np.atleast_1d(getattr(mb.bins, c).upper).tolist())
                   for c in ("MS", "WD", "NS", "BH")}
    res["mto"] = [float(f.compute_mto(np.float64(t))) for t in cfg["tout"]]
    res["t_bh"] = float(f.compute_tms(f.IFMR.BH_mi.upper))
    res["Nmin"] = float(f.Nmin)
    res["N0"] = float(f.N0)
    for a in ("Ns", "Ms", "ms", "alpha"):
        res[a] = getattr(f, a).tolist()
    for c, nm in enumerate(("WD", "NS", "BH")):
        res["Nr" + nm] = f.Nr[c].tolist(); res["Mr" + nm] = f.Mr[c].tolist(); res["mr" + nm] = f.mr[c].tolist()
    res["mmean"] = np.atleast_1d(f.mmean).tolist()
    try:
        with np.errstate(all="ignore"):
            res["views"] = {"M": f.M.tolist(), "N": f.N.tolist(), "m": f.m.tolist(), "types": [str(x) for x in f.types],
                            "bin_widths": f.bin_widths.tolist(), "nms": int(f.nms), "nmr": int(f.nmr)}
    except Exception as e:
        res["views_error"] = f"{type(e).__name__}: {e}"[:200]
    res["rem_types"] = [str(x) for x in f.rem_types]
    res["ifmr_mf"] = {"WD": [float(f.IFMR.WD_mf.lower), float(f.IFMR.WD_mf.upper)], "BH": [float(f.IFMR.BH_mf.lower), float(f.IFMR.BH_mf.upper)],
                      "NS": float(f.IFMR.NS_mf.lower)}
    return res


def gen_jobs(ctx, n, small=True, escape_frac=0.3, kicks_frac=0.25, fbh_frac=0.15, dict_frac=0.1):
    jobs = []
    for _ in range(n):
        r = ctx.rng.random()
        kind = "fbh" if r < fbh_frac else "plain"
        cfg = gen.gen_config(ctx.rng, small=small, escape=(ctx.rng.random() < escape_frac), kicks=(ctx.rng.random() < kicks_frac))
        if kind == "fbh":
            cfg["kw"].pop("BH_ret_dyn", None)
            fs = [round(ctx.rng.uniform(0, 1.5e-3), 6) for _ in cfg["tout"]]
            cfg["kw"]["f_BH"] = fs if len(fs) > 1 else fs[0]
            cfg["kw"]["strict_BH_target"] = False
        elif cfg["kw"].get("natal_kicks"):
            # kicks count toward the ejected share: leave room for them (otherwise the documented ValueError is the right answer)
            cfg["kw"]["BH_ret_dyn"] = ctx.rng.choice([0.0, 0.01, 0.05, 0.3])
        if ctx.rng.random() < dict_frac:
            nseg = len(cfg["a_slopes"])
            cfg["nbins"] = {"MS": [ctx.rng.randint(2, 6) for _ in range(nseg)] if ctx.rng.random() < 0.5 else ctx.rng.randint(2 * nseg, 6 * nseg),
                            "WD": ctx.rng.randint(2, 8), "BH": ctx.rng.randint(2, 8)}
        if ctx.rng.random() < 0.15 and kind == "plain":
            try:
                gen.add_edge_age(cfg, ctx.rng)      # an age at which the turn-off mass sits on a bin edge
            except Exception:
                pass
        jobs.append({"cfg": cfg, "kind": kind})
    return jobs
