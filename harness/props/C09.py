"""C09 — initial-final mass relations are closed, ordered, physical at every metallicity."""
import math, warnings
import numpy as np
from common import h, uh, hl, jf, jfl, unjf, close, run_driver, loguniform
import real, translate
from real import ifmr, evolve_mf, MassBins, PowerLawIMF, MSTO

TRUSTED = ["FITPACK UnivariateSpline(k=1, s=0) = linear interpolation through the knots (compared on dense samples, 1e-12)",
           "numpy.polynomial evaluation in float64 (the WD polynomial's range is sampled, not proved)",
           "packed-table encoder in translate.py (exact decimals) and the proved decoder lemma check_sound"]
ASSUMPTIONS = ["WD degree-10 polynomial bounds are established by dense sampling (4000 points per row), not by a Lean bound"]
METHODS = {"uSSE_rapid": "banerjee20", "uSSE_delayed": "banerjee20-delayed", "COSMIC_rapid": "cosmic-rapid", "COSMIC_delayed": "cosmic-delayed"}
ANALYTIC = ["linear", "powerlaw", "brokenpowerlaw"]
RULE = ("corr: type and mass predictions for Python floats, numpy scalars, 0-d and 1-d arrays over 0.7 Msun…upper limit, every packaged "
        "method × sampled metallicities (thorough: all tabulated ones) and the analytic prescriptions at default parameters; FITPACK vs the "
        "model's linear interpolation; Polynomial vs Horner; kernel-checked packed tables for the metallicities used (thorough: all 1186); "
        "sweep: positivity, mf ≤ mi, inside the declared final-mass bounds and inside exactly one half-open bin of its class for random layouts; "
        "distinct = distinct (method, FeH, mass)")
_grid = {}


def fam_grid(fam):
    if fam not in _grid:
        _grid[fam] = sorted(p.stem for p in ifmr.get_data(f"ifmr/{fam}").glob("IFMR_FEH*.dat"))
    return _grid[fam]


def chosen(ctx):
    """(family, stem) of the tables this run looks at"""
    if getattr(ctx, "_chosen", None) is None:
        out = []
        for fam in METHODS:
            stems = fam_grid(fam)
            if ctx.quick:
                picks = {stems[0], stems[-1], "IFMR_FEH-1.00", "IFMR_FEH+0.00", "IFMR_FEH-0.00"} | set(ctx.rng.sample(stems, 3))
                out += [(fam, s) for s in sorted(picks) if s in stems]
            else:
                out += [(fam, s) for s in stems]
        ctx._chosen = out
    return ctx._chosen


def lean_targets(ctx):
    mods, errs = translate.table_modules(set(chosen(ctx)))
    return mods, errs


def feh_of(stem):
    return float(stem.split("FEH")[-1])


_ifmrs = {}


def get(method, feh):
    key = (method, feh)
    if key not in _ifmrs:
        _ifmrs[key] = ifmr.IFMR(feh, BH_method=method)
    return _ifmrs[key]


def upper_limit(im):
    return float(min(150.0, im.BH_mi.upper))


def mto15(feh):
    a0, a1, a2 = real.msto_row(feh)
    return (math.log(15000.0 / a0) / a1) ** (1 / a2)


def corr(ctx):
    lines, meta = [], []
    combos = [(METHODS[fam], feh_of(stem)) for fam, stem in chosen(ctx)] + [(m, ctx.rng.choice([-1.0, 0.0, -2.0])) for m in ANALYTIC]
    per = ctx.n(60, 120)
    for method, feh in combos:
        im = get(method, feh)
        toks = real.ifmr_tokens(im)
        hi = upper_limit(im)
        for _ in range(per):
            r = ctx.rng.random()
            if r < 0.15:
                m = ctx.rng.choice([float(im.WD_mi.upper), float(im.BH_mi.lower)]) * (1 + ctx.rng.choice([0, 1e-15, -1e-15, 1e-9, -1e-9]))
            elif r < 0.3:
                m = loguniform(ctx.rng, float(im.BH_mi.lower), hi)
            else:
                m = loguniform(ctx.rng, 0.7, hi)
            lines.append(f"predict {h(m)} {toks}"); meta.append((method, feh, m))
    outs = run_driver(lines)
    for (method, feh, m), o in zip(meta, outs):
        im = get(method, feh)
        mcls, mval = o.split()[0], uh(o.split()[1])
        ok, forms = True, {}
        for form, arg in (("numpy_scalar", np.float64(m)), ("array0d", np.array(m)), ("array1d", np.array([m, m]))):
            try:
                with np.errstate(all="ignore"):
                    v, c = im.predict(arg), im.predict_type(arg)
                v0 = float(np.atleast_1d(v)[0]); c0 = c if isinstance(c, str) else c[0]
                forms[form] = (c0, v0)
                tol = 1e-12
                if c0 == "WD":
                    cf = im._WD_spline.coef if hasattr(im._WD_spline, "coef") else None
                    if cf is not None and v0 != 0:
                        tol += 1e-14 * float(np.sum(np.abs(cf) * m ** np.arange(len(cf)))) / abs(v0)
                ok &= (c0 == mcls) and (close(v0, mval, rel=tol) or (math.isnan(v0) and math.isnan(mval)))
            except Exception as e:
                forms[form] = f"{type(e).__name__}"
                ok = False
        ctx.corr_case("predict", ok, {"method": method, "FeH": feh, "m": jf(m), "real": forms, "model": o}, branch=f"{method.split('-')[0]}/{mcls}")
    ctx.sample({"op": "predict", "method": meta[0][0], "FeH": meta[0][1], "m": meta[0][2], "model": outs[0]})
    # FITPACK vs linear interpolation, Polynomial vs Horner
    for fam, stem in chosen(ctx)[:: max(1, len(chosen(ctx)) // ctx.n(8, 200))]:
        im = get(METHODS[fam], feh_of(stem))
        x, y = im._BH_spline.get_knots(), im._BH_spline.get_coeffs()
        flat = " ".join(h(a) + " " + h(b) for a, b in zip(x, y))
        ms = [loguniform(ctx.rng, float(x[0]), float(x[-1])) for _ in range(40)] + [float(ctx.rng.choice(list(x))) for _ in range(10)]
        for m, o in zip(ms, run_driver([f"lininterp {h(m)} {flat}" for m in ms])):
            ctx.corr_case("lininterp", close(float(im._BH_spline(m)), uh(o), rel=1e-12), {"table": f"{fam}/{stem}", "m": jf(m), "model": o})
    wd = np.loadtxt(ifmr.get_data("sevtables/wdifmr.dat"))
    for row in wd:
        p = np.polynomial.Polynomial(row[2:][::-1])
        ms = [ctx.rng.uniform(0.5, row[1]) for _ in range(30)]
        for m, o in zip(ms, run_driver([f"polyeval {h(m)} " + " ".join(h(c) for c in p.coef) for m in ms])):
            cond = float(np.sum(np.abs(p.coef) * m ** np.arange(len(p.coef)))) / abs(float(p(m)))
            ctx.corr_case("polyeval", close(float(p(m)), uh(o), rel=1e-15 * cond + 1e-13), {"row": float(row[0]), "m": jf(m), "model": o})


# ------------------------------------------------------------------ predicates on the real code
def check_ifmr(method, feh, layout_seed, forms=("array",)):
    im = get(method, feh)
    hi = upper_limit(im)
    lo = max(0.7, mto15(feh))
    ms = np.unique(np.r_[np.geomspace(lo, hi, 4000), np.linspace(float(im.WD_mi.upper) - 0.2, float(im.WD_mi.upper), 400),
                         float(im.WD_mi.upper), float(im.BH_mi.lower), np.nextafter(float(im.BH_mi.lower), 0)])
    ms = ms[(ms >= lo) & (ms <= hi)]
    with np.errstate(all="ignore"):
        mf = np.asarray(im.predict(ms), dtype=float)
        ty = np.array(im.predict_type(ms))
    code = np.array([{"WD": 0, "NS": 1, "BH": 2}[t] for t in ty])
    if np.any(np.diff(code) < 0):
        return {"clause": "progenitor masses split into WD, NS, BH ranges in increasing mass order"}
    if float(im.WD_mi.upper) > float(im.BH_mi.lower):
        return {"clause": "WD and BH progenitor ranges must not overlap"}
    if np.any(~(mf > 0)):
        i = int(np.flatnonzero(~(mf > 0))[0])
        return {"clause": "remnant mass positive", "m": repr(float(ms[i])), "mf": repr(float(mf[i])), "type": str(ty[i])}
    if np.any(mf > ms * (1 + 1e-12)):
        i = int(np.flatnonzero(mf > ms * (1 + 1e-12))[0])
        return {"clause": "remnant mass not larger than the progenitor", "m": repr(float(ms[i])), "mf": repr(float(mf[i])), "type": str(ty[i])}
    bounds = {"WD": im.WD_mf, "NS": im.NS_mf, "BH": im.BH_mf}
    for c in ("WD", "NS", "BH"):
        sel = ty == c
        if sel.any():
            b = bounds[c]
            bad = sel & ((mf < b.lower) | (mf > b.upper))
            if bad.any():
                i = int(np.flatnonzero(bad)[0])
                return {"clause": f"{c} remnant mass inside the declared final-mass bounds", "m": repr(float(ms[i])), "mf": repr(float(mf[i])),
                        "bounds": [repr(float(b.lower)), repr(float(b.upper))]}
    # scalar / numpy-scalar / array agreement on a handful of masses
    rng = np.random.default_rng(layout_seed)
    for m in rng.choice(ms, 12):
        outs = {}
        for form, arg in (("float", float(m)), ("numpy_scalar", np.float64(m)), ("array0d", np.array(float(m))), ("array1d", np.array([float(m)]))):
            try:
                with np.errstate(all="ignore"):
                    v, t = im.predict(arg), im.predict_type(arg)
                outs[form] = (float(np.atleast_1d(v)[0]), t if isinstance(t, str) else t[0])
            except Exception as e:
                return {"clause": "type and mass predictions work for Python-float / numpy-scalar / array input", "form": form, "m": repr(float(m)),
                        "observed": f"{type(e).__name__}: {e}"[:120]}
        vals = list(outs.values())
        # numpy's scalar and vectorised `pow` may differ in the last place: same class, mass within 4 ulp
        def same(v, w):
            if v[1] != w[1]:
                return False
            if math.isnan(v[0]) or math.isnan(w[0]):
                return math.isnan(v[0]) and math.isnan(w[0])
            return abs(v[0] - w[0]) <= 4 * np.spacing(max(abs(v[0]), abs(w[0])))
        if any(not same(v, vals[0]) for v in vals):
            return {"clause": "scalar and array predictions agree", "m": repr(float(m)), "observed": {k: repr(v) for k, v in outs.items()}}
    # every remnant falls in exactly one (half-open) bin of its class for a random layout covering the range
    lrng = np.random.default_rng(layout_seed + 1)
    mb = [0.1, 0.5, 1.0, float(max(hi, 100.0))]
    nb = [int(lrng.integers(2, 8)), int(lrng.integers(2, 8)), int(lrng.integers(4, 30))]
    imf = PowerLawIMF(mb, [-0.5, -1.3, -2.3])
    try:
        bins = MassBins(mb, nb, imf, im, binning_method=str(lrng.choice(["default", "split_linear"])))
    except Exception as e:
        return {"clause": "mass bins cannot be built for this IFMR", "observed": f"{type(e).__name__}: {e}"[:120]}
    for c in ("WD", "NS", "BH"):
        sel = np.flatnonzero(ty == c)
        b = getattr(bins.bins, c)
        for i in sel[:: max(1, len(sel) // 400)]:
            n_in = int(np.sum((b.lower <= mf[i]) & (mf[i] < b.upper)))
            if n_in != 1:
                return {"clause": f"every {c} remnant falls in exactly one bin of its class", "m": repr(float(ms[i])), "mf": repr(float(mf[i])),
                        "bins_containing": n_in, "class_range": [repr(float(b.lower[0])) if len(b.lower) else None, repr(float(b.upper[-1])) if len(b.upper) else None]}
    return None


def sweep(ctx):
    eff = getattr(ctx, "effort", 1)
    combos = [(METHODS[fam], feh_of(stem)) for fam, stem in chosen(ctx)]
    wd_fehs = [-2.0, -1.75, -1.5, -1.25, -1.0, -0.75, -0.5]
    combos += [("banerjee20", f) for f in wd_fehs] + [(m, f) for m in ANALYTIC for f in ([-1.0] if ctx.quick else wd_fehs)]
    for k, (method, feh) in enumerate(combos * eff):
        bad = check_ifmr(method, feh, ctx.seed * 1000 + k)
        ctx.sweep_case("ifmr", (method, feh, k), bad is None, {"failing_input": {"call": "ifmr", "args": {"method": method, "FeH": feh, "layout_seed": ctx.seed * 1000 + k}}, "observed": bad},
                       branch=method)


def replay(ctx, fi):
    a = fi["args"]
    return check_ifmr(a["method"], a["FeH"], a["layout_seed"])


def classify(entry, failure):
    return False
