"""C11 — the IMF is continuous, normalised, and binned consistently."""
import math
import numpy as np
from common import h, uh, hl, jf, jfl, unjf, close, run_driver, loguniform
import real
from real import PowerLawIMF, mbin, Pk

TRUSTED = ["numpy select/pow vs the model (1e-12*scale)", "scipy.integrate.quad for Mtot across the kinks (2e-8 relative)"]
ASSUMPTIONS = ["model computes the constants by a re-associated but ℝ-equal recursion (DESIGN §6 C11)"]
RULE = ("corr: IMFs with 1-6 segments, slopes in [-4,2] incl. exactly -1,-2,-1.5,-2.5, break ratios 1.05-1000; constants, point "
        "evaluation in all three ext modes (inside, at breaks, outside), binned evaluation (inside a segment, straddling, outside), "
        "total mass; sweep: normalisation by quadrature, continuity, from_M0, binned = integrals, aligned bins sum to N0/Mtot; "
        "distinct = distinct IMFs / (IMF, argument) pairs")
SPECIAL = [-1.0, -2.0, -1.5, -2.5, 0.0, -2.35, -1.3]


def gen_imf(rng):
    nseg = rng.choice([1, 2, 3, 3, 4, 5, 6])
    mb = [loguniform(rng, 0.01, 1.0)]
    for _ in range(nseg):
        mb.append(mb[-1] * loguniform(rng, 1.05, 1000 ** (1.0 / nseg) * 3))
    a = [rng.choice(SPECIAL) if rng.random() < 0.35 else rng.uniform(-4, 2) for _ in range(nseg)]
    n0 = rng.choice([1.0, 5e5, loguniform(rng, 1, 1e7)])
    return mb, a, n0


def imf_args(mb, a):
    return f"{hl(mb)} {hl(a)}"


def pick_mass(rng, mb):
    r = rng.random()
    if r < 0.6:
        return loguniform(rng, mb[0], mb[-1])
    if r < 0.8:
        return rng.choice(mb)
    if r < 0.9:
        return mb[0] / loguniform(rng, 1.0001, 10)
    return mb[-1] * loguniform(rng, 1.0001, 10)


def pick_bin(rng, mb):
    r = rng.random()
    if r < 0.6:
        i = rng.randrange(len(mb) - 1)
        lo = loguniform(rng, mb[i], mb[i + 1]); hi = loguniform(rng, lo, mb[i + 1])
        if rng.random() < 0.3:
            lo = mb[i]
        if rng.random() < 0.3:
            hi = mb[i + 1]
        return (lo, hi) if hi > lo else (mb[i], mb[i + 1])
    if r < 0.85 and len(mb) > 2:
        i = rng.randrange(1, len(mb) - 1)
        return loguniform(rng, mb[i - 1], mb[i]), loguniform(rng, mb[i], mb[i + 1])
    if r < 0.93:
        return mb[0] / 3, mb[0] / 2
    return mb[-1] * 0.9, mb[-1] * 1.5


EXT = {0: "extrapolate", 1: "zeros", 2: "raise"}


def corr(ctx):
    n = ctx.n(500, 20000)
    imfs = [gen_imf(ctx.rng) for _ in range(n)]
    lines, meta = [], []
    for mb, a, n0 in imfs:
        lines.append(f"imfa {imf_args(mb, a)}"); meta.append(("A", mb, a, n0, None))
        lines.append(f"mtot {h(n0)} {imf_args(mb, a)}"); meta.append(("mtot", mb, a, n0, None))
        for _ in range(6):
            ext = ctx.rng.choice([0, 1, 1, 2])
            m = pick_mass(ctx.rng, mb)
            lines.append(f"imfeval {ext} {h(n0)} {h(m)} {imf_args(mb, a)}"); meta.append(("eval", mb, a, n0, (ext, m)))
            lo, hi = pick_bin(ctx.rng, mb)
            lines.append(f"binned {ext} {h(n0)} {h(lo)} {h(hi)} {imf_args(mb, a)}"); meta.append(("binned", mb, a, n0, (ext, lo, hi)))
    outs = run_driver(lines)
    cache = {}
    for (op, mb, a, n0, arg), o in zip(meta, outs):
        key = (tuple(mb), tuple(a), n0)
        detail = {"m_break": jfl(mb), "a": jfl(a), "N0": jf(n0), "arg": [repr(x) for x in arg] if arg else None, "model": o[:200]}
        with np.errstate(all="ignore"):
            if op == "A":
                imf = PowerLawIMF(mb, a, N0=n0)
                mA = [uh(t) for t in o.split()]
                ok = len(mA) == len(imf._A_comps) and all(close(float(x), y, rel=1e-11) for x, y in zip(imf._A_comps, mA))
                ctx.corr_case("constants", ok, detail, branch=f"nseg={len(a)}")
            elif op == "mtot":
                imf = PowerLawIMF(mb, a, N0=n0)
                ctx.corr_case("Mtot", close(float(imf.Mtot), uh(o), rel=1e-9), detail)  # scipy.quad between the break masses (after the fix)
            elif op == "eval":
                ext, m = arg
                imf = PowerLawIMF(mb, a, N0=n0, ext=EXT[ext])
                try:
                    r = float(imf(m))
                    ok = o != "err" and close(r, uh(o), rel=1e-11)
                except ValueError:
                    ok = o == "err"
                where = "below" if m < mb[0] else "above" if m > mb[-1] else "break" if m in mb else "inside"
                ctx.corr_case("eval", ok, detail, branch=f"{EXT[ext]}/{where}")
            else:
                ext, lo, hi = arg
                imf = PowerLawIMF(mb, a, N0=n0, ext=EXT[ext])
                try:
                    N, M, al = (np.atleast_1d(x) for x in imf.binned_eval(mbin(np.array([lo]), np.array([hi]))))
                    if o == "err":
                        ok = False
                    else:
                        t = o.split()
                        mN, mM, mal = uh(t[0]), uh(t[1]), uh(t[2])
                        rN, rM = float(N[0]), float(M[0])
                        okN = (mN is None and math.isnan(rN)) or (mN is not None and close(rN, mN, rel=1e-10, abs_=1e-300))
                        okM = (mM is None and math.isnan(rM)) or (mM is not None and close(rM, mM, rel=1e-10, abs_=1e-300))
                        ok = okN and okM and float(al[0]) == mal
                except ValueError:
                    ok = o == "err"
                strad = any(lo < b < hi for b in mb[1:-1])
                outside = hi <= mb[0] or lo >= mb[-1] or lo < mb[0] or hi > mb[-1]
                ctx.corr_case("binned", ok, detail, branch=f"{EXT[ext]}/" + ("straddle" if strad else "outside" if outside else "inside"))
    ctx.sample({"op": "imfa", "m_break": imfs[0][0], "a": imfs[0][1], "model": outs[0]})


# ------------------------------------------------------------------ predicates on the real code
_GL = np.polynomial.legendre.leggauss(80)


def gl(f, lo, hi):
    """∫_lo^hi f(m) dm by 80-point Gauss–Legendre in u = ln m (each piece is smooth): independent of Pk's closed form"""
    x, w = _GL
    ul, uh_ = math.log(lo), math.log(hi)
    u = 0.5 * (uh_ - ul) * x + 0.5 * (uh_ + ul)
    m = np.exp(u)
    return float(0.5 * (uh_ - ul) * np.sum(w * f(m) * m))


def gl_pieces(f, lo, hi, mb):
    """integrate across [lo,hi], splitting at the IMF breaks"""
    pts = [lo] + [b for b in mb if lo < b < hi] + [hi]
    return sum(gl(f, a, b) for a, b in zip(pts[:-1], pts[1:]))


def segment_quad(imf, mb):
    return sum(gl(imf, lo, hi) for lo, hi in zip(mb[:-1], mb[1:]))


def check_imf(mb, a, n0):
    with np.errstate(all="ignore"):
        imf = PowerLawIMF(mb, a, N0=n0)
        tot = segment_quad(imf, mb)
        if not abs(tot - n0) <= 1e-9 * n0:
            return {"clause": "integrates to N0", "observed": repr(tot), "expected": repr(n0)}
        for i in range(1, len(mb) - 1):
            b = mb[i]
            left = n0 * imf._A_comps[i - 1] * b ** a[i - 1]
            right = n0 * imf._A_comps[i] * b ** a[i]
            if not abs(left - right) <= 1e-10 * abs(left):
                return {"clause": "continuous at every break", "break": repr(b), "observed": [repr(left), repr(right)]}
            if not abs(float(imf(b)) - left) <= 1e-10 * abs(left):
                return {"clause": "value at a break", "break": repr(b)}
        below, above = mb[0] * 0.5, mb[-1] * 2
        if float(imf(below)) != 0 or float(imf(above)) != 0:
            return {"clause": "zero outside the range (default mode)"}
        imr = PowerLawIMF(mb, a, N0=n0, ext="raise")
        for x in (below, above):
            try:
                imr(x)
                return {"clause": "raise mode must raise outside the range"}
            except ValueError:
                pass
        ime = PowerLawIMF(mb, a, N0=n0, ext="extrapolate")
        if not abs(float(ime(below)) - n0 * imf._A_comps[0] * below ** a[0]) <= 1e-10 * abs(float(ime(below))):
            return {"clause": "extrapolate mode continues the nearest component (below)"}
        if not abs(float(ime(above)) - n0 * imf._A_comps[-1] * above ** a[-1]) <= 1e-10 * abs(float(ime(above))):
            return {"clause": "extrapolate mode continues the nearest component (above)"}
        M0 = 1234.5
        im0 = PowerLawIMF.from_M0(mb, a, M0)
        # Mtot is scipy.quad piecewise between the break masses (since the fix; it was off by up to 1.1e-4 across the kinks before)
        exact_M = gl_pieces(im0.M, mb[0], mb[-1], mb)
        if not (abs(im0.Mtot - M0) <= 1e-9 * M0 and abs(exact_M - M0) <= 1e-8 * M0):   # NaN fails
            return {"clause": "from_M0 yields that total mass", "observed": repr(im0.Mtot)}
    return None


def check_binned(mb, a, n0, edges, ext="zeros"):
    """edges: increasing list of bin edges inside [mb0, mbN] (aligned or not); inside the range all three ext modes agree"""
    with np.errstate(all="ignore"):
        imf = PowerLawIMF(mb, a, N0=n0, ext=ext)
        bins = mbin(np.array(edges[:-1]), np.array(edges[1:]))
        try:
            N, M, al = (np.atleast_1d(x) * np.ones(len(edges) - 1) for x in imf.binned_eval(bins))
        except ValueError:
            if ext == "raise" and any(any(lo < b < hi for b in mb[1:-1]) for lo, hi in zip(edges[:-1], edges[1:])):
                return None      # a straddling bin has no segment: 'raise' mode raises (same root as C11-straddle)
            return {"clause": "binned evaluation raised for bins inside the mass range", "ext": ext}
        aligned = all(any(abs(e - b) == 0 for e in edges) or not (edges[0] < b < edges[-1]) for b in mb)
        for j, (lo, hi) in enumerate(zip(edges[:-1], edges[1:])):
            strad = any(lo < b < hi for b in mb[1:-1])
            if strad:
                continue
            i = max(k for k in range(len(a)) if mb[k] <= lo)
            i = min(i, len(a) - 1)
            if hi > mb[i + 1]:
                continue
            if al[j] != a[i]:
                return {"clause": "reported slope is the segment's", "bin": j, "observed": repr(float(al[j])), "expected": repr(a[i])}
            rel = (hi - lo) / lo
            if math.isnan(N[j]) or rel < 1e-6:
                continue
            rn = gl(imf, lo, hi)
            rm = gl(imf.M, lo, hi)
            if not (abs(N[j] - rn) <= 1e-9 * rn / min(1.0, rel * 1e3) and abs(M[j] - rm) <= 1e-9 * rm / min(1.0, rel * 1e3)):
                return {"clause": "binned number/mass = integrals over the bin", "bin": j,
                        "observed": [repr(float(N[j])), repr(float(M[j]))], "expected": [repr(rn), repr(rm)]}
        full = edges[0] == mb[0] and edges[-1] == mb[-1]
        if full and not np.isnan(N).any():
            if aligned:
                if not abs(N.sum() - n0) <= 1e-9 * n0:
                    return {"clause": "break-aligned bins sum to N0", "observed": repr(float(N.sum())), "expected": repr(n0)}
                if not abs(M.sum() - gl_pieces(imf.M, mb[0], mb[-1], mb)) <= 1e-9 * M.sum():
                    return {"clause": "break-aligned bins sum to the total mass", "observed": repr(float(M.sum()))}
            else:
                if not abs(N.sum() - n0) <= 1e-9 * n0:
                    return {"clause": "documented: bins need not align with breaks and still sum to N", "straddle": True,
                            "observed": repr(float(N.sum())), "expected": repr(n0)}
    return None


def gen_edges(rng, mb, aligned):
    edges = [mb[0]]
    for lo, hi in zip(mb[:-1], mb[1:]):
        k = rng.randint(1, 6)
        inner = sorted(loguniform(rng, lo * 1.001, hi / 1.001) for _ in range(k - 1)) if hi / lo > 1.01 else []
        edges += [e for e in inner if e > edges[-1] * 1.0001] + [hi]
    if not aligned and len(mb) > 2:
        i = rng.randrange(1, len(mb) - 1)
        edges = [e for e in edges if e != mb[i]]
    return edges


def sweep(ctx):
    eff = getattr(ctx, "effort", 1)
    for _ in range(ctx.n(250, 6000) * eff):
        mb, a, n0 = gen_imf(ctx.rng)
        bad = check_imf(mb, a, n0)
        ctx.sweep_case("imf", (tuple(mb), tuple(a), n0), bad is None,
                       {"failing_input": {"call": "imf", "args": {"m_break": jfl(mb), "a": jfl(a), "N0": jf(n0)}}, "observed": bad},
                       branch=f"nseg={len(a)}")
        aligned = ctx.rng.random() < 0.7
        edges = gen_edges(ctx.rng, mb, aligned)
        ext = ctx.rng.choice(["zeros", "zeros", "extrapolate", "raise"])
        bad = check_binned(mb, a, n0, edges, ext)
        ctx.sweep_case("binned", (tuple(mb), tuple(a), n0, tuple(edges), ext), bad is None,
                       {"failing_input": {"call": "binned", "args": {"m_break": jfl(mb), "a": jfl(a), "N0": jf(n0), "edges": jfl(edges), "ext": ext}}, "observed": bad},
                       branch=("aligned" if aligned or len(mb) <= 2 else "straddling") + "/" + ext)


def replay(ctx, fi):
    a = fi["args"]
    mb, al, n0 = [unjf(x) for x in a["m_break"]], [unjf(x) for x in a["a"]], unjf(a["N0"])
    if fi["call"] == "imf":
        return check_imf(mb, al, n0)
    if fi["call"] == "binned":
        return check_binned(mb, al, n0, [unjf(x) for x in a["edges"]], a.get("ext", "zeros"))
    raise ValueError(fi["call"])


def classify(entry, failure):
    """C11-straddle: the only failing clause is the documented promise about unaligned bins, and some bin does straddle a break"""
    if entry.get("classifier") != "bin_straddles_break":
        return False
    obs = failure.get("observed") or {}
    fi = failure.get("failing_input") or {}
    if fi.get("call") != "binned" or not obs.get("straddle"):
        return False
    a = fi["args"]
    mb = [unjf(x) for x in a["m_break"]]
    edges = [unjf(x) for x in a["edges"]]
    return any(lo < b < hi for lo, hi in zip(edges[:-1], edges[1:]) for b in mb[1:-1])
