"""C17 — invalid requests are rejected and non-convergence is never silent."""
import math, warnings
import numpy as np
from common import h, uh, hl, jf, jfl, unjf, close, run_driver, loguniform
import real, gen
from real import evolve_mf, PowerLawIMF, ifmr

TRUSTED = ["scipy.integrate.ode: the dopri5 success flag is sticky (reset only by set_initial_value/set_integrator) — re-checked dynamically "
           "by forcing genuine solver failures (nsteps limit) at chosen segments"]
ASSUMPTIONS = ["faults are injected by wrapping scipy's ode from outside with a small nsteps; the failure itself is scipy's"]
RULE = ("corr: malformed-argument stream (one invalid family at a time, combined with otherwise valid random configurations) through the "
        "real constructors vs the model's validate decision (error kind compared); sweep: every invalid family must raise ValueError and "
        "return no object; solver faults at every segment position: flag false + warning, flag true ⇒ every integrate call reached its "
        "requested age; distinct = distinct (family, configuration) / fault positions")
KNOWN_KICK = {"maxwellian", "f12", "fryer2012", "sigmoid"}
KNOWN_BH = {'nbody7', 'banerjee20', 'ba20', 'nbody7-rapid', 'banerjee20-rapid', 'ba20-rapid', 'nbody7-delayed', 'banerjee20-delayed',
            'ba20-delayed', 'cosmic', 'cosmic-rapid', 'cosmic-delayed', 'linear', 'line', 'power', 'powerlaw', 'pl', 'broken', 'brokenpowerlaw', 'bpl'}
KNOWN_WD = {'mist18', 'm18', 'mist2018', 'linear', 'line'}
KNOWN_BIN = {'default', 'split_log', 'log_split', 'linear_split', 'split_linear'}
FAMILIES = ["valid", "positive_rate", "bad_norm", "bad_kick", "bad_bh_method", "bad_wd_method", "bad_binning", "fbh_length", "fbh_negative",
            "breaks_order", "breaks_size", "range_overlap"]


def make_request(rng, family):
    cfg = gen.gen_config(rng, small=True, kicks=False)
    cfg["tout"] = [rng.choice([5.0, 50.0, 200.0])]
    kind = "plain"
    kw = cfg["kw"]
    kw.pop("BH_IFMR_method", None)
    if family == "positive_rate":
        cfg["esc_rate"] = loguniform(rng, 1e-6, 1e3)
    elif family == "bad_norm":
        kw["esc_norm"] = rng.choice(["n", "m", "mass", "", "NM"])
    elif family == "bad_kick":
        kw["kick_method"] = rng.choice(["maxwell", "gaussian", "", "sigmoidal"])
    elif family == "bad_bh_method":
        kw["BH_IFMR_method"] = rng.choice(["banerjee", "cosmic_rapid", "", "linearr"])
    elif family == "bad_wd_method":
        kw["WD_IFMR_method"] = rng.choice(["mist", "lin", ""])
    elif family == "bad_binning":
        kw["binning_method"] = rng.choice(["log", "linear", "", "split"])
    elif family in ("fbh_length", "fbh_negative"):
        kind = "fbh"
        cfg["tout"] = [5.0, 50.0] if rng.random() < 0.5 else [50.0]
        n = len(cfg["tout"])
        if family == "fbh_length":
            kw["f_BH"] = [1e-4] * (n + rng.choice([1, 2]))
        else:
            fs = [1e-4] * n
            fs[rng.randrange(n)] = -loguniform(rng, 1e-9, 1e-1)
            kw["f_BH"] = fs
    elif family == "breaks_order":
        mb = list(cfg["m_breaks"])
        i = rng.randrange(len(mb) - 1)
        if rng.random() < 0.5:
            mb[i + 1] = mb[i]
        else:
            mb[i], mb[i + 1] = mb[i + 1], mb[i]
        cfg["m_breaks"] = mb
    elif family == "breaks_size":
        if rng.random() < 0.5:
            cfg["m_breaks"] = cfg["m_breaks"] + [cfg["m_breaks"][-1] * 2]
        else:
            cfg["a_slopes"] = cfg["a_slopes"] + [-2.0]
    elif family == "range_overlap":
        kw["BH_IFMR_method"] = "linear"
        kw["BH_IFMR_kwargs"] = {"m_lower": rng.uniform(1.0, 5.0), "slope": 0.4, "scale": 0.2}
    elif family == "valid" and rng.random() < 0.3:
        kind = "fbh"
        kw["f_BH"] = 1e-5
        kw["strict_BH_target"] = False
    return cfg, kind


def real_outcome(cfg, kind):
    cls = evolve_mf.EvolvedMFWithBH if kind == "fbh" else evolve_mf.EvolvedMF
    try:
        obj = gen.build(cfg, cls=cls)
        return "ok", obj
    except ValueError:
        return "ValueError", None
    except Exception as e:
        return type(e).__name__, None


def request_tokens(cfg, kind):
    kw = cfg["kw"]
    rate = cfg["esc_rate"]
    wd_hi, bh_lo = 5.5, 19.0
    try:
        # the IFMR's own thresholds for this configuration (range overlap is decided on them)
        im_kw = {}
        im = ifmr.IFMR(cfg["FeH"], WD_method=kw.get("WD_IFMR_method", "mist18") if kw.get("WD_IFMR_method", "mist18").casefold() in KNOWN_WD else "mist18",
                       BH_method="banerjee20")
        wd_hi = float(im.WD_mi.upper); bh_lo = float(im.BH_mi.lower)
    except Exception:
        pass
    if kw.get("BH_IFMR_method") == "linear":
        bh_lo = float((kw.get("BH_IFMR_kwargs") or {}).get("m_lower", 19))
    fbh = kw.get("f_BH")
    fl_ = list(np.atleast_1d(fbh).astype(float)) if (kind == "fbh" and fbh is not None) else []
    b = lambda x: "1" if x else "0"
    return (f"validate {h(rate)} {b(kw.get('esc_norm', 'N') in ('N', 'M'))} {b(kw.get('kick_method', 'maxwellian').casefold() in KNOWN_KICK)} "
            f"{b(kw.get('BH_IFMR_method', 'banerjee20').casefold() in KNOWN_BH)} {b(kw.get('WD_IFMR_method', 'mist18').casefold() in KNOWN_WD)} "
            f"{b(kw.get('binning_method', 'default') in KNOWN_BIN)} {b(kind == 'fbh')} {hl(fl_)} {len(cfg['tout'])} {hl(cfg['m_breaks'])} "
            f"{len(cfg['a_slopes'])} {h(wd_hi)} {h(bh_lo)}")


def corr(ctx):
    n = ctx.n(12, 150)
    cases = []
    for fam in FAMILIES:
        for _ in range(n if fam != "valid" else 2 * n):
            cfg, kind = make_request(ctx.rng, fam)
            cases.append((fam, cfg, kind))
    outs = run_driver([request_tokens(cfg, kind) for _, cfg, kind in cases])
    for (fam, cfg, kind), o in zip(cases, outs):
        r, _ = real_outcome(cfg, kind)
        ctx.corr_case("validate", r == o, {"family": fam, "cfg": cfg, "kind": kind, "real": r, "model": o}, branch=fam)
    ctx.sample({"op": "validate", "family": cases[-1][0], "cfg": cases[-1][1], "model": outs[-1]})
    # analytic IFMR parameter validation
    lines, meta = [], []
    for _ in range(ctx.n(300, 5000)):
        e = ctx.rng.choice([1, 1, 3, 2, 0.5, 0, -1])
        sl = ctx.rng.choice([0.4, 3e-5, 1.0, -0.1, 0.0, 2.0, ctx.rng.uniform(-1, 2)])
        sc = ctx.rng.choice([0.7, 14, 0.0, -5.0, 30.0, ctx.rng.uniform(-10, 40)])
        lo = ctx.rng.choice([19, 0.0, 5.0, 30.0, -1.0]) if e >= 0 and e == int(e) else ctx.rng.choice([19, 5.0, 30.0])
        hi = ctx.rng.choice([None, None, 100.0, lo + 50, lo - 1])
        lines.append(f"lineValid {h(e)} {h(sl)} {h(sc)} {h(lo)} {'inf' if hi is None else h(hi)}")
        meta.append((e, sl, sc, lo, hi))
    for (e, sl, sc, lo, hi), o in zip(meta, run_driver(lines)):
        try:
            with np.errstate(all="ignore"):
                ifmr._powerlaw_predictor(e, sl, sc, m_lower=lo, m_upper=np.inf if hi is None else hi)
            r = "true"
        except ValueError:
            r = "false"
        ctx.corr_case("lineValid", r == o, {"args": [e, sl, sc, lo, hi], "real": r, "model": o}, branch=r)


# ------------------------------------------------------------------ predicates on the real code
def check_family(fam, cfg, kind):
    r, obj = real_outcome(cfg, kind)
    if fam == "valid":
        return None if r in ("ok", "ValueError") else {"clause": "unexpected exception type", "observed": r}
    if r != "ValueError":
        return {"clause": f"invalid request ({fam}) must raise ValueError before any result is returned", "observed": r}
    return None


def check_budget_errors(rng):
    """over-ejection / kicks over budget / unreachable strict target / analytic parameters leaving (0, mi]"""
    bad = []
    o = evolve_mf.EvolvedMF.__new__(evolve_mf.EvolvedMF); o.BH_ret_dyn = 1.0
    M = np.array([10.0, 20.0, 30.0]); N = np.array([2.0, 2.0, 2.0])
    try:
        o._dyn_eject_BH(M.copy(), N.copy(), M_eject=60.0 * (1 + loguniform(rng, 1e-6, 1)))
        bad.append("over-ejection did not raise")
    except ValueError:
        pass
    base = dict(m_breaks=[0.1, 0.5, 1.0, 100.0], a_slopes=[-0.5, -1.3, -2.5], nbins=[3, 3, 5], FeH=-1.0, tout=[200.0], esc_rate=0.0, N0=5e5)
    try:
        evolve_mf.EvolvedMF.from_powerlaw(**base, natal_kicks=True, kick_method="sigmoid", kick_slope=1, kick_scale=40, BH_ret_dyn=0.95)
        bad.append("kicks exceeding the ejection budget did not raise")
    except ValueError:
        pass
    try:
        evolve_mf.EvolvedMFWithBH.from_powerlaw(**{k: v for k, v in base.items() if k != "N0"}, f_BH=0.5, N0=5e5)
        bad.append("unreachable strict target did not raise")
    except ValueError:
        pass
    for kws in ({"slope": 2.0, "scale": 0.7, "m_lower": 19}, {"slope": 0.4, "scale": -10.0, "m_lower": 19}, {"slope": -0.4, "scale": 0.7, "m_lower": 19}):
        try:
            ifmr.IFMR(-1.0, BH_method="linear", BH_kwargs=dict(kws))
            bad.append(f"analytic IFMR parameters {kws} leaving (0, mi] did not raise")
        except ValueError:
            pass
    return bad


def fault_worker(job):
    cfg, nsteps = job
    res = {"cfg": cfg, "nsteps": nsteps}
    try:
        with real.recording_ode(nsteps=nsteps) as R:
            f = gen.build(cfg)
            rec = R.instances[-1]
    except Exception as e:
        res["error"] = f"{type(e).__name__}: {e}"[:160]
        return res
    res["converged"] = bool(f.converged)
    res["warned"] = any("converged" in w for w in f._warnings)
    res["calls"] = rec.calls
    res["final_success"] = bool(rec.successful())
    return res


def check_fault(res):
    if "error" in res:
        return "skip"
    reached = [abs(tr - tq) <= 1e-12 * max(abs(tq), 1.0) for tq, tr, _ in res["calls"]]
    any_fail = not all(reached)
    if any_fail and res["converged"]:
        return {"clause": "a solver failure at any stage must clear the convergence flag", "reached": reached}
    if not res["converged"] and not res["warned"]:
        return {"clause": "non-convergence must issue a warning"}
    if res["converged"] and res["warned"]:
        return {"clause": "no warning when converged"}
    if res["converged"] and any_fail:
        return {"clause": "flag true ⇒ every row taken with the solver exactly at its requested age"}
    if res["converged"] != res["final_success"]:
        return {"clause": "flag equals the solver's sticky success state"}
    return None


def sweep(ctx):
    eff = getattr(ctx, "effort", 1)
    for fam in FAMILIES:
        for _ in range(ctx.n(10, 120) * eff):
            cfg, kind = make_request(ctx.rng, fam)
            bad = check_family(fam, cfg, kind)
            ctx.sweep_case("families", (fam, repr(cfg)), bad is None,
                           {"failing_input": {"call": "family", "args": {"family": fam, "cfg": cfg, "kind": kind}}, "observed": bad}, branch=fam)
    for msg in check_budget_errors(ctx.rng):
        ctx.sweep_case("budget_errors", msg, False, {"failing_input": {"call": "budget", "args": {}}, "observed": {"clause": msg}})
    ctx.sweep_case("budget_errors", "all", True, None)
    jobs = []
    for _ in range(ctx.n(16, 300) * eff):
        cfg = gen.gen_config(ctx.rng, small=True, kicks=False, escape=(ctx.rng.random() < 0.4))
        cfg["tout"] = gen.gen_tout(ctx.rng, ctx.rng.choice([1, 2, 3]))
        if ctx.rng.random() < 0.5:
            # a very short final segment: it can succeed within the step limit even after an earlier segment failed
            cfg["tout"] = sorted(cfg["tout"]) + [max(cfg["tout"]) * (1 + 1e-7)]
        jobs.append((cfg, ctx.rng.choice([1, 3, 8, 20, 40, 60, 100, 150, 200, 300, 500])))
    # corpus case: an intermediate segment fails (step limit) but the short last one succeeds
    jobs.append(({"m_breaks": [0.1, 0.5, 1.0, 100.0], "a_slopes": [-0.5, -1.3, -2.5], "nbins": [3, 3, 5], "FeH": -1.0,
                  "tout": [3000.0, 3000.0 * (1 + 1e-7)], "esc_rate": 0.0, "N0": 5e5, "kw": {}}, 100))
    for res in gen.pmap(fault_worker, jobs):
        bad = check_fault(res)
        br = "skipped"
        if bad != "skip":
            reached = [abs(tr - tq) <= 1e-12 * max(abs(tq), 1.0) for tq, tr, _ in res["calls"]]
            br = "all-ok" if all(reached) else ("mid-fail/last-ok" if reached[-1] else "last-fail")
        ctx.sweep_case("solver_faults", (repr(res["cfg"]), res["nsteps"]), bad in (None, "skip"),
                       {"failing_input": {"call": "fault", "args": {"cfg": res["cfg"], "nsteps": res["nsteps"]}}, "observed": bad}, branch=br)


def replay(ctx, fi):
    a = fi["args"]
    if fi["call"] == "family":
        return check_family(a["family"], a["cfg"], a["kind"])
    if fi["call"] == "fault":
        r = check_fault(fault_worker((a["cfg"], a["nsteps"])))
        return None if r == "skip" else r
    if fi["call"] == "budget":
        b = check_budget_errors(ctx.rng)
        return {"clause": b[0]} if b else None
    raise ValueError(fi["call"])


def classify(entry, failure):
    return False
