"""C01 — without escape, the evolved population equals its closed-form value."""
import math, warnings
import numpy as np
from common import h, uh, hl, jf, jfl, unjf, close, run_driver, loguniform, JobTimeout, time_limit
import real, gen
from real import evolve_mf

TRUSTED = ["numpy float64 arithmetic vs Lean Float within 1e-9*scale on the closed form",
           "dopri5 output taken as given; at rtol=atol=1e-10 its global error is taken to be below 1e-6 of each bin's scale",
           "Gauss-Legendre (4 points per cell, >= 6000 cells in ln m) as the independent quadrature of progenitors x IFMR"]
ASSUMPTIONS = ["the IFMR (class thresholds, remnant mass) and the bin edges are taken from the real sub-objects (their own correctness is C09/C10/C13)",
               "retention fractions, Nmin and the lifetime row are taken from the configuration and the documented defaults, not from the object under test",
               "BH_ret_dyn=1 and no natal kicks (those removals are C07/C15)"]
RULE = ("corr: real EvolvedMF rows (no escape) at rtol=atol=1e-10 vs the Lean closed form `ClosedBin.stars` / `closedRemnants` on the same "
        "configuration (IMF 1-4 segments, list/int/dict layouts, split_linear/split_log/default spacing, metallicities on and off grid, every "
        "BH IFMR method, NS_ret/BH_ret_int in [0,1], N0 2e4..5e6, 1-4 ages in 3 Myr..14 Gyr); sweep: the property's own predicate on the real "
        "rows with an independent quadrature oracle, at default tolerance (integrator accuracy + 0.1 per turned-off bin) and tightened "
        "(converges); distinct = distinct (configuration, age)")

NMIN = real.DOC_DEFAULTS["Nmin"]
# tightened integrator: 1e-12 first (dopri5 sometimes gives up there: the model then reports converged=False), else 1e-10.
# The right-hand side is discontinuous wherever the remnant of the turn-off star changes bin (the tabulated BH relations zigzag across
# bin edges): at 1e-10 dopri5 books up to ~1e-4 of a class into the neighbouring bin (it converges to the closed form under max_step=1e-3
# or at 1e-12), so the budget depends on which tolerance was reached.
TIGHT = dict(rtol=1e-12, atol=1e-12, nsteps=10 ** 7)
TIGHT2 = dict(rtol=1e-10, atol=1e-10, nsteps=10 ** 7)


# ------------------------------------------------------------------ IMF density, independent of the library
def imf_norms(mb, a, N0):
    """A_i with A_i m^a_i continuous and integrating to N0"""
    A = [1.0]
    for i in range(1, len(a)):
        A.append(A[-1] * mb[i] ** (a[i - 1] - a[i]))
    tot = sum(Ai * pk1(ai, mb[i], mb[i + 1]) for i, (Ai, ai) in enumerate(zip(A, a)))
    return [Ai * N0 / tot for Ai in A]


def pk1(a, lo, hi):
    return math.log(hi / lo) if a == -1 else (hi ** (a + 1) - lo ** (a + 1)) / (a + 1)


def seg_of(mb, m):
    for i in range(len(mb) - 1):
        if mb[i] <= m <= mb[i + 1]:
            return i
    return len(mb) - 2 if m > mb[-1] else 0


def gen_cfg(rng, small=True):
    cfg = gen.gen_config(rng, small=small, kicks=False, escape=False)
    cfg["kw"].pop("BH_ret_dyn", None)
    if rng.random() < 0.1:
        nseg = len(cfg["a_slopes"])
        cfg["nbins"] = {"MS": [rng.randint(2, 6) for _ in range(nseg)] if rng.random() < 0.5 else rng.randint(2 * nseg, 6 * nseg),
                        "WD": rng.randint(2, 8), "BH": rng.randint(2, 8)}
    # how the IMF object treats masses outside its range must not matter inside it
    cfg["ext"] = rng.choice(["from_powerlaw", "from_powerlaw", "zeros", "extrapolate", "extrapolate", "raise"])
    return cfg


def build(cfg, **ode):
    """the real model, either through `from_powerlaw` or from an explicit IMF object with the chosen out-of-range mode"""
    ext = cfg.get("ext", "from_powerlaw")
    with real.recording_ode(**ode):
        if ext == "from_powerlaw":
            return gen.build(cfg)
        from ssptools.masses import PowerLawIMF
        imf = PowerLawIMF(cfg["m_breaks"], cfg["a_slopes"], N0=cfg["N0"], ext=ext)
        with warnings.catch_warnings():
            warnings.simplefilter("ignore")
            return evolve_mf.EvolvedMF(imf, cfg["nbins"], cfg["FeH"], cfg["tout"], cfg["esc_rate"], N0=cfg["N0"], **cfg["kw"])


def worker(job):
    """build the real model (default and tightened tolerance) and describe it for the model and for the oracle"""
    cfg = job["cfg"]
    res = {"cfg": cfg}
    try:
        with time_limit(job.get("limit", 300)):
            f0 = build(cfg)
            f1 = build(cfg, **TIGHT)
            res["tight_level"] = 12
            if not f1.converged:
                f1 = build(cfg, **TIGHT2)
                res["tight_level"] = 10
    except JobTimeout:
        res["timeout"] = True
        return res
    except Exception as e:
        res["error"] = f"{type(e).__name__}: {e}"[:200]
        return res
    mb = f1.massbins
    res["converged"] = [bool(f0.converged), bool(f1.converged)]
    for tag, f in (("d", f0), ("t", f1)):
        res["Ns_" + tag] = f.Ns.tolist()
        for c, nm in enumerate(("WD", "NS", "BH")):
            res[f"N{nm}_{tag}"] = f.Nr[c].tolist()
            res[f"M{nm}_{tag}"] = f.Mr[c].tolist()
    res["bins"] = {c: real.bins_flat(getattr(mb.bins, c)) for c in ("MS", "WD", "NS", "BH")}
    res["tokens"] = real.sev_cfg_tokens(f1, cfg)
    a0, a1, a2 = map(float, real.msto_row(cfg["FeH"]))
    res["tms"] = [a0, a1, a2]
    kw = cfg["kw"]
    res["frem"] = {"WD": 1.0, "NS": kw.get("NS_ret", real.DOC_DEFAULTS["NS_ret"]), "BH": kw.get("BH_ret_int", real.DOC_DEFAULTS["BH_ret_int"])}
    # cells: IFMR knots and class thresholds plus a fine grid (for the model's piecewise-linear treatment)
    im = f1.IFMR
    lo, hi = res["bins"]["MS"][0], res["bins"]["MS"][-1]
    mlow = mto_of(res["tms"], max(cfg["tout"]))
    glo = lo if mlow is None else min(max(lo, 0.95 * mlow), 0.5 * hi)
    cells = set(np.exp(np.linspace(math.log(glo), math.log(hi), job.get("ncell", 12000))).tolist())
    cells |= {float(im.WD_mi[1]), float(im.BH_mi[0])}
    bh = im._BH_spline
    if hasattr(bh, "get_knots"):
        cells |= set(map(float, bh.get_knots()))
    elif "m_breaks" in getattr(bh, "keywords", {}):
        cells |= set(map(float, bh.keywords["m_breaks"]))
    res["cells"] = sorted(c for c in cells if lo < c < hi)
    res["knots"] = sorted({float(im.WD_mi[1]), float(im.BH_mi[0])} | (set(map(float, bh.get_knots())) if hasattr(bh, "get_knots") else
                                                                      set(map(float, bh.keywords.get("m_breaks", [])))))
    # the oracle's samples of the real IFMR: per age, Gauss-Legendre nodes in ln m above the turn-off
    res["oracle"] = [oracle(cfg, res, im, t) for t in cfg["tout"]]
    return res


GLX, GLW = np.polynomial.legendre.leggauss(4)


def mto_of(tms, t):
    a0, a1, a2 = tms
    return None if t <= a0 else (math.log(t / a0) / a1) ** (1 / a2)


def oracle(cfg, res, im, t, ncell=6000):
    """independent closed form: star counts by the antiderivative; remnants by quadrature of IMF x (class, bin) indicator, cells cut
    (by bisection on the real predictor) where the class or the remnant bin changes"""
    mbk, a, N0 = cfg["m_breaks"], cfg["a_slopes"], cfg["N0"]
    A = imf_norms(mbk, a, N0)
    ms = res["bins"]["MS"]
    mto = mto_of(res["tms"], t)
    stars, turned, n0 = [], [], []
    for j in range(0, len(ms), 2):
        l, u = ms[j], ms[j + 1]
        i = seg_of(mbk, math.sqrt(l * u))
        top = u if mto is None else min(u, max(mto, l))
        stars.append(A[i] * pk1(a[i], l, top) if top > l else 0.0)
        turned.append(mto is not None and mto < u)
        n0.append(A[i] * pk1(a[i], l, u))
    out = {"mto": mto, "stars": stars, "turned": turned, "n0": n0}
    edges = {c: np.array(res["bins"][c][0::2] + res["bins"][c][-1:]) for c in ("WD", "NS", "BH")}
    N = {c: np.zeros(len(edges[c]) - 1) for c in edges}
    M = {c: np.zeros(len(edges[c]) - 1) for c in edges}
    outside = 0.0
    if mto is not None and mto < ms[-1]:
        lo = max(mto, ms[0])
        pts = set(np.exp(np.linspace(math.log(lo), math.log(ms[-1]), ncell)).tolist()) | {x for x in ms if lo < x < ms[-1]}
        pts |= {x for x in mbk if lo < x < ms[-1]}
        # IFMR knots and class thresholds: a tabulated relation may peak above a remnant-bin edge between two grid points
        pts |= {x for x in res.get("knots", []) if lo < x < ms[-1]}
        pts = np.array(sorted(pts))

        def key(m):
            c = str(im.predict_type(m))
            y = float(im.predict(m))
            e = edges[c]
            k = int(np.searchsorted(e, y, side="right")) - 1
            if c == "NS":
                k = 0
            return c, k

        keys = [key(m) for m in pts]
        segs = []
        for p, q, kp, kq in zip(pts[:-1], pts[1:], keys[:-1], keys[1:]):
            stack = [(p, q, kp, kq)]
            while stack:
                p_, q_, kp_, kq_ = stack.pop()
                if kp_ == kq_ or (q_ - p_) <= 1e-13 * q_:
                    segs.append((p_, q_, kp_))
                    continue
                mid = 0.5 * (p_ + q_)
                km = key(mid)
                stack.append((p_, mid, kp_, km)); stack.append((mid, q_, km, kq_))
        for p, q, (c, k) in segs:
            if q <= p:
                continue
            i = seg_of(mbk, math.sqrt(p * q))
            n = A[i] * pk1(a[i], p, q)
            xm = 0.5 * (p + q) + 0.5 * (q - p) * GLX
            y = np.array([float(im.predict(x)) for x in xm]) if c != "NS" else np.full(4, float(im._NS_mass))
            mm = 0.5 * (q - p) * float(np.sum(GLW * A[i] * xm ** a[i] * y))
            if 0 <= k < len(N[c]):
                N[c][k] += res["frem"][c] * n
                M[c][k] += res["frem"][c] * mm
            else:
                outside += n
    out["N"] = {c: N[c].tolist() for c in N}
    out["M"] = {c: M[c].tolist() for c in M}
    out["outside"] = outside
    return out


# ------------------------------------------------------------------ the Lean closed form on the same configuration
def model_lines(res):
    cfg = res["cfg"]
    mbk, a, N0 = cfg["m_breaks"], cfg["a_slopes"], cfg["N0"]
    A = imf_norms(mbk, a, N0)
    ms = res["bins"]["MS"]
    segs = [seg_of(mbk, math.sqrt(ms[j] * ms[j + 1])) for j in range(0, len(ms), 2)]
    return [f"closed {h(t)} {hl([A[i] for i in segs])} {hl([a[i] for i in segs])} {hl(res['cells'])} {res['tokens']}" for t in cfg["tout"]]


def parse_model(line):
    parts = [p.split() for p in line.split("|")]
    out = {"stars": [uh(x) for x in parts[0]], "mto": None}
    if parts[1] != ["none"]:
        out["mto"] = uh(parts[1][0])
        for c, p in zip(("WD", "NS", "BH"), parts[2:5]):
            v = [uh(x) for x in p]
            out["N" + c], out["M" + c] = v[0::2], v[1::2]
        out["lost"] = uh(parts[5][0])
    return out


CLS = ("WD", "NS", "BH")


def class_scale(vals):
    return max(sum(abs(x) for x in vals), 1.0)


def corr_one(res, outs):
    """real rows at tightened tolerance vs the Lean closed form (which carries the Nmin residue exactly)"""
    worst, bad = 0.0, None
    cfg = res["cfg"]
    for it, t in enumerate(cfg["tout"]):
        m = parse_model(outs[it])
        ns = res["Ns_t"][it]
        if len(ns) != len(m["stars"]):
            return {"t": t, "what": "number of star bins"}, 9.0
        for j, (x, y) in enumerate(zip(ns, m["stars"])):
            e = abs(x - y) / (1e-6 * max(abs(y), 1.0) + 1e-5)
            worst = max(worst, e)
            if e > 1 and bad is None:
                bad = {"t": t, "what": "stars", "bin": j, "real": repr(x), "model": repr(y)}
        if m["mto"] is None:
            for c in CLS:
                if any(v != 0 for v in res[f"N{c}_t"][it] + res[f"M{c}_t"][it]) and bad is None:
                    bad = {"t": t, "what": "remnants before any star has evolved", "class": c}
            continue
        for c in CLS:
            for q in ("N", "M"):
                real_v, mod_v = res[f"{q}{c}_t"][it], m[q + c]
                if len(real_v) != len(mod_v):
                    return {"t": t, "what": "number of remnant bins", "class": c}, 9.0
                sc = class_scale(mod_v) + (m["lost"] if q == "N" else 0.0)
                for j, (x, y) in enumerate(zip(real_v, mod_v)):
                    # masses: the tabulated BH relations have a kink every 0.1 Msun, which costs dopri5 accuracy (1.5e-5 measured at
                    # rtol=1e-10, converging to the model under max_step=1e-3)
                    loose = res.get("tight_level", 12) == 10
                    e = abs(x - y) / (((6e-4 if loose else 1e-5) if q == "N" else (2e-3 if loose else 1e-4)) * sc + 1e-6)
                    worst = max(worst, e)
                    if e > 1 and bad is None:
                        bad = {"t": t, "what": q + c, "bin": j, "real": repr(x), "model": repr(y), "class_total": repr(sc)}
        if m["lost"] > 1e-6 * max(sum(m["N" + c][0] if m["N" + c] else 0 for c in CLS), 1.0) + 1e-3 and bad is None:
            bad = {"t": t, "what": "model deposits outside every remnant bin", "lost": repr(m["lost"])}
    return bad, worst


def jobs_for(ctx, n, small=True):
    return [{"cfg": gen_cfg(ctx.rng, small=small)} for _ in range(n)]


_cache = {}


def results(ctx):
    key = (ctx.seed, ctx.tier, getattr(ctx, "effort", 1))
    if key not in _cache:
        n = ctx.n(56, 1500) * getattr(ctx, "effort", 1)
        _cache[key] = gen.pmap(worker, jobs_for(ctx, n, small=ctx.quick))
    return _cache[key]


def corr(ctx):
    rs = results(ctx)
    worst = 0.0
    for res in rs:
        cfg = res["cfg"]
        if res.get("timeout"):
            ctx.corr_case("closed", True, None, branch="timeout (tightened run > 300 s)", indeterminate=True)
            continue
        if "error" in res:
            ctx.corr_case("closed", False, {"cfg": cfg, "error": res["error"]}, branch="error")
            continue
        if not res["converged"][1]:
            ctx.corr_case("closed", True, None, branch="tight-run-not-converged", indeterminate=True)
            continue
        outs = run_driver(model_lines(res))
        bad, w = corr_one(res, outs)
        worst = max(worst, w)
        br = str(cfg["kw"].get("BH_IFMR_method", "default")) + ("/dict" if isinstance(cfg["nbins"], dict) else "")
        ctx.corr_case("closed", bad is None, {"cfg": cfg, "first": bad}, branch=br,
                      nontrivial=any(o["mto"] is not None for o in res["oracle"]))
    ctx.notes.append(f"closed: worst (|real_tight - model| / budget) = {worst:.3g}")
    if rs and "error" not in rs[0]:
        ctx.sample({"op": "closed", "cfg": rs[0]["cfg"], "model": run_driver(model_lines(rs[0]))[0][:160]})


# ------------------------------------------------------------------ the property's predicate on the real rows
# integrator accuracy at default (rtol=atol=1e-5: 1.5 % of a bin measured just after its turn-off on coarse layouts, 8 % on fine ones) / tightened tolerance,
# relative to the bin's initial content (stars) or the class total (remnants)
REL = {"d": 15e-2, "t": 1e-5}


def check_rows(res):
    cfg = res["cfg"]
    if res.get("timeout"):
        return None
    if "error" in res:
        return {"clause": "a valid no-escape configuration evolves without error", "observed": res["error"]}
    worst = {"d": 0.0, "t": 0.0}
    for ic, tag in enumerate(("d", "t")):
        if not res["converged"][ic]:
            continue          # the solver reported failure (the flag and warning are C06's business)
        for it, t in enumerate(cfg["tout"]):
            o = res["oracle"][it]
            k = sum(o["turned"])
            ns = res["Ns_" + tag][it]
            ntot = sum(o["stars"])
            for j, (x, y) in enumerate(zip(ns, o["stars"])):
                room = (NMIN if o["turned"][j] else 0.0)
                e = (abs(x - y) - room) / (REL[tag] * max(o["n0"][j], 1.0))
                worst[tag] = max(worst[tag], e)
                if e > 1:
                    return {"clause": "stars in each bin = IMF integrated below the turn-off (to integrator accuracy + 0.1 in a turned-off bin)",
                            "tolerance": tag, "t": t, "bin": j, "real": repr(x), "closed": repr(y), "mto": repr(o["mto"])}
            for c in CLS:
                f = res["frem"][c]
                up = res["bins"][c][1::2]
                for q in ("N", "M"):
                    real_v, ref = res[f"{q}{c}_{tag}"][it], o[q][c]
                    sc = class_scale(ref)
                    for j, (x, y) in enumerate(zip(real_v, ref)):
                        room = NMIN * k * f * (up[j] if q == "M" else 1.0)
                        rel = REL[tag] * (1.0 if q == "N" or tag == "d" else 10.0)
                        if tag == "t" and res.get("tight_level", 12) == 10:
                            rel *= 100.0
                        floor = 1e-6 if tag == "t" else 0.5 * (up[j] if q == "M" else 1.0)     # default tolerance: half an object per bin
                        e = (abs(x - y) - room) / (rel * sc + floor)
                        worst[tag] = max(worst[tag], e)
                        if e > 1:
                            return {"clause": "remnants per bin = retained IMF progenitors above the turn-off whose remnant falls in that bin",
                                    "tolerance": tag, "t": t, "class": c, "quantity": q, "bin": j, "real": repr(x), "closed": repr(y),
                                    "class_total": repr(sc), "turned_off_bins": k}
    res["_worst"] = worst
    return None


def sweep(ctx):
    rs = results(ctx)
    wd, wt = 0.0, 0.0
    for res in rs:
        bad = check_rows(res)
        w = res.get("_worst", {"d": 0, "t": 0})
        wd, wt = max(wd, w["d"]), max(wt, w["t"])
        cfg = res["cfg"]
        ctx.sweep_case("closed_form_rows", json_key(cfg), bad is None, {"failing_input": {"call": "config", "args": {"cfg": cfg}}, "observed": bad},
                       branch=f"{len(cfg['a_slopes'])}seg")
        for t in cfg["tout"]:
            ctx.sweep("closed_form_rows")["distinct"].add((json_key(cfg), t))
    ctx.notes.append(f"rows: worst error / budget at default tolerance = {wd:.3g}, tightened = {wt:.3g}")


def json_key(cfg):
    import json
    return json.dumps(cfg, sort_keys=True)


def replay(ctx, fi):
    if fi["call"] == "config":
        return check_rows(worker({"cfg": fi["args"]["cfg"]}))
    raise ValueError(fi["call"])


def classify(entry, failure):
    return False
