"""C14 — lifetime / turn-off: inverse, monotone, and the sweep speed the evolution uses is |d mto/dt|."""
import math, warnings
import numpy as np
from common import h, uh, jf, unjf, close, run_driver, loguniform
import real
from real import MSTO, bare_emf, quick_emf, Pk

TRUSTED = ["numpy exp/log/pow vs libm (1e-12*scale)", "central differences of the real compute_mto as the rate oracle (rel 1e-6)"]
ASSUMPTIONS = ["rate clause observed through _derivs_sev / _derivs_BHs output divided by dN/dm"]
RULE = ("corr: all 20 msto rows × masses log-uniform in [0.05,300] / ages log-uniform in (a0,1e6] plus ages ≤ a0; nearest-row choice "
        "observed on real constructions at random FeH; sweep: monotonicity, inverse round-trips, and rate recovered from both "
        "derivative functions vs central differences; distinct = distinct (row, argument) pairs")


def corr(ctx):
    n = ctx.n(300, 8000)
    lines, meta = [], []
    for ri, row in enumerate(MSTO):
        a0, a1, a2 = row[1:]
        o = bare_emf(row[1:])
        for _ in range(n):
            m = loguniform(ctx.rng, 0.05, 300)
            lines.append(f"tms {h(a0)} {h(a1)} {h(a2)} {h(m)}"); meta.append(("tms", ri, m, float(o.compute_tms(m))))
            r = ctx.rng.random()
            t = a0 * (1 + loguniform(ctx.rng, 1e-9, 1e-2)) if r < 0.1 else (a0 * ctx.rng.uniform(0, 1) if r < 0.2 else
                                                                          (a0 if r < 0.22 else loguniform(ctx.rng, a0 * 1.01, 1e6)))
            lines.append(f"mto {h(a0)} {h(a1)} {h(a2)} {h(t)}"); meta.append(("mto", ri, t, float(o.compute_mto(np.float64(t)))))
    outs = run_driver(lines)
    for (op, ri, x, rv), o in zip(meta, outs):
        mv = uh(o)
        if op == "mto":
            if mv is None:
                ok, br = math.isinf(rv) and rv > 0, "inf"
            else:
                # m = b^(1/a2), b = log(t/a0)/a1: relative sensitivity to b's rounding is |1/a2|·eps/|b|-ish near a0
                a0, a1, a2 = MSTO[ri][1:]
                # conditioning near a0: relative error of log(t/a0) is eps/log(t/a0), amplified by |1/a2|
                ok, br = close(rv, mv, abs(mv) * max(1.0, abs(1 / a2) / max(abs(math.log(x / a0)), 1e-16) * 1e-3)), "finite"
        else:
            ok, br = close(rv, mv), "tms"
        ctx.corr_case(op, ok, {"row": ri, "arg": jf(x), "real": repr(rv), "model": o}, branch=br)
    ctx.sample({"op": meta[1][0], "row": meta[1][1], "arg": repr(meta[1][2]), "real": repr(meta[1][3]), "model": outs[1]})
    # nearest-row choice on real constructions
    nf = ctx.n(25, 300)
    fehs = [ctx.rng.uniform(-3.2, 0.2) for _ in range(nf - 6)] + [-2.45, -2.35, -0.65, -0.6, -5.0, 1.0]
    outs = run_driver(["argmin " + h(f) + " " + " ".join(h(g) for g in MSTO[:, 0]) for f in fehs])
    for f, o in zip(fehs, outs):
        obj = quick_emf(FeH=f, nbins=(1, 1, 2))
        ok = np.array_equal(obj._tms_constants, MSTO[int(o), 1:])
        ctx.corr_case("nearest_row", ok, {"FeH": jf(f), "model_row": o, "real_constants": [repr(x) for x in obj._tms_constants]},
                      branch="clamped" if (f < MSTO[0, 0] or f > MSTO[-1, 0]) else "inside")


# ------------------------------------------------------------------ property predicates on the real code
def check_monotone(ri):
    row = MSTO[ri, 1:]
    o = bare_emf(row)
    ms = np.geomspace(0.05, 300, 400)
    t = o.compute_tms(ms)
    if not np.all(np.diff(t) < 0):
        return {"clause": "lifetime strictly decreasing in mass", "row": ri}
    ts = np.geomspace(row[0] * 1.0001, 1e6, 400)
    m = o.compute_mto(ts)
    if not np.all(np.diff(m) < 0):
        return {"clause": "turn-off mass strictly decreasing in age", "row": ri}
    early = o.compute_mto(np.array([0.0, row[0] * 0.5, row[0]]))
    if not np.all(np.isposinf(early)):
        return {"clause": "turn-off mass infinite up to a0", "row": ri, "observed": [repr(x) for x in early]}
    return None


def check_inverse(ri, m):
    o = bare_emf(MSTO[ri, 1:])
    t = float(o.compute_tms(m))
    back = float(o.compute_mto(np.float64(t)))
    if not abs(back - m) <= 1e-9 * m:
        return {"clause": "mto(tms(m)) = m", "observed": repr(back)}
    return None


def check_inverse_t(ri, t):
    o = bare_emf(MSTO[ri, 1:])
    m = float(o.compute_mto(np.float64(t)))
    back = float(o.compute_tms(m))
    # conditioning of the round trip: d ln t / d ln m = a1*a2*m^a2 can be large for small m
    a0, a1, a2 = MSTO[ri, 1:]
    cond = max(1.0, abs(a1 * a2 * m ** a2) * abs(1 / a2) / max(abs(math.log(t / a0)), 1e-300) * abs(math.log(t / a0)))
    if not abs(back - t) <= 1e-9 * t * cond:
        return {"clause": "tms(mto(t)) = t", "observed": repr(back)}
    return None


_models = {}


def model_for(feh):
    key = round(feh, 3)
    if key not in _models:
        _models[key] = quick_emf(FeH=feh, m_break=(0.1, 0.5, 1.0, 100.0), a=(-0.5, -1.3, -2.5), nbins=(4, 4, 10))
    return _models[key]


def numeric_rate(o, t):
    hh = 1e-5
    return abs(float(o.compute_mto(np.float64(t * (1 + hh)))) - float(o.compute_mto(np.float64(t * (1 - hh))))) / (2 * t * hh)


def check_rate_sev(feh, t):
    f = model_for(feh)
    y = f.massbins.initial_values(N0=f.N0)
    if not t > f.tms_u[-1]:
        return "skip"
    d = f._derivs_sev(t, y)
    Ns, alpha, *_ = f.massbins.unpack_values(y)
    dNs = f.massbins.unpack_values(d)[0]
    isev = int(np.where(t > f.tms_u)[0][0])
    mto = float(f.compute_mto(np.float64(t)))
    m1 = f.massbins.bins.MS.lower[isev]
    if not (mto > m1 and Ns[isev] > f.Nmin):
        return "skip"
    dNdm = Ns[isev] / float(Pk(alpha[isev], 1, m1, mto)) * mto ** alpha[isev]
    used = -dNs[isev] / dNdm
    ref = numeric_rate(f, t)
    if not abs(used - ref) <= 1e-6 * ref:
        return {"clause": "sweep speed used by _derivs_sev = |d mto/dt|", "used": repr(used), "numeric": repr(ref)}
    return None


_bh = {}


def bh_derivs_for(feh):
    """the nested `_derivs_BHs` of InitialBHPopulation.from_IMF, captured from outside through the ode wrapper"""
    key = round(feh, 3)
    if key not in _bh:
        imf = real.PowerLawIMF([0.1, 0.5, 1.0, 100.0], [-0.5, -1.3, -2.5], N0=5e5)
        with real.recording_ode() as R, warnings.catch_warnings():
            warnings.simplefilter("ignore")
            pop = real.evolve_mf.InitialBHPopulation.from_IMF(imf, [4, 4, 10], feh, natal_kicks=False)
            rec = R.instances[-1]
        ifm = real.ifmr.IFMR(feh)
        mb = real.MassBins(imf.mb, [4, 4, 10], imf, ifm)
        row = MSTO[np.argmin(np.abs(MSTO[:, 0] - feh)), 1:]
        _bh[key] = (rec._f, imf, mb, bare_emf(row), pop)
    return _bh[key]


def check_rate_bh(feh, t):
    fn, imf, mb, o, pop = bh_derivs_for(feh)
    tms_u = o.compute_tms(mb.bins.MS.upper)
    if not (t > tms_u[-1] and t <= pop.age):
        return "skip"
    N, M = mb.initial_values(packed=False, N0=5e5)
    y = np.r_[N.MS, N.BH, M.BH]
    d = fn(t, y)
    isev = int(np.where(t > tms_u)[0][0])
    mto = float(o.compute_mto(np.float64(t)))
    m1 = mb.bins.MS.lower[isev]
    if not (mto > m1 and N.MS[isev] > 0.1):
        return "skip"
    al = imf.a[-1]
    dNdm = N.MS[isev] / float(Pk(al, 1, m1, mto)) * mto ** al
    used = -d[isev] / dNdm
    ref = numeric_rate(o, t)
    if not abs(used - ref) <= 1e-6 * ref:
        return {"clause": "sweep speed used by _derivs_BHs = |d mto/dt|", "used": repr(used), "numeric": repr(ref)}
    return None


def sweep(ctx):
    eff = getattr(ctx, "effort", 1)
    for ri in range(len(MSTO)):
        bad = check_monotone(ri)
        ctx.sweep_case("monotone", ri, bad is None, {"failing_input": {"call": "monotone", "args": [ri]}, "observed": bad})
    for _ in range(ctx.n(2000, 60000) * eff):
        ri = ctx.rng.randrange(len(MSTO))
        m = loguniform(ctx.rng, 0.05, 300)
        bad = check_inverse(ri, m)
        ctx.sweep_case("inverse_m", (ri, m), bad is None, {"failing_input": {"call": "inverse_m", "args": [ri, jf(m)]}, "observed": bad})
        t = loguniform(ctx.rng, MSTO[ri, 1] * 1.001, 1e6)
        bad = check_inverse_t(ri, t)
        ctx.sweep_case("inverse_t", (ri, t), bad is None, {"failing_input": {"call": "inverse_t", "args": [ri, jf(t)]}, "observed": bad})
    fehs = [-2.5, -1.7, -1.0, -0.6] if ctx.quick else list(MSTO[:, 0])
    for feh in fehs:
        for _ in range(ctx.n(60, 400) * eff):
            t = loguniform(ctx.rng, 3.0, 14000.0)
            bad = check_rate_sev(feh, t)
            ctx.sweep_case("rate_sev", (feh, t), bad in (None, "skip"), {"failing_input": {"call": "rate_sev", "args": [jf(feh), jf(t)]}, "observed": bad},
                           branch="skipped" if bad == "skip" else "evaluated")
            t = loguniform(ctx.rng, 3.0, 60.0)
            bad = check_rate_bh(feh, t)
            ctx.sweep_case("rate_bh", (feh, t), bad in (None, "skip"), {"failing_input": {"call": "rate_bh", "args": [jf(feh), jf(t)]}, "observed": bad},
                           branch="skipped" if bad == "skip" else "evaluated")


def replay(ctx, fi):
    c, a = fi["call"], fi["args"]
    if c == "monotone":
        return check_monotone(int(a[0]))
    if c == "inverse_m":
        return check_inverse(int(a[0]), unjf(a[1]))
    if c == "inverse_t":
        return check_inverse_t(int(a[0]), unjf(a[1]))
    if c == "rate_sev":
        r = check_rate_sev(unjf(a[0]), unjf(a[1]))
        return None if r == "skip" else r
    if c == "rate_bh":
        r = check_rate_bh(unjf(a[0]), unjf(a[1]))
        return None if r == "skip" else r
    raise ValueError(c)


def classify(entry, failure):
    return False
