"""C06 — an output row depends only on its own age, not on the rest of the schedule."""
import math, warnings
import numpy as np
from common import h, uh, hl, jf, jfl, unjf, close, run_driver, loguniform
import real, gen
from real import evolve_mf

TRUSTED = ["dopri5: the real flow has the semigroup property only to integrator accuracy (schedules are compared at rtol=atol=1e-10 "
           "and, with a wider budget, at the default tolerance)"]
ASSUMPTIONS = ["unwritten rows are made visible by NaN-prefilling the output buffers from outside (MassBins.blanks wrapped)"]
RULE = ("corr: the merged integration grid (sorted union of bin turn-off times before the last age and the requested ages) for random "
        "schedules: unsorted, repeats, ages equal to turn-off times, zeros — compared exactly with EvolvedMF.t; sweep: every row of a "
        "multi-age construction vs the single-age construction of the same age (standard and BH-target models, with ejection and kicks), "
        "age 0 = unevolved IMF; distinct = distinct (configuration, schedule)")
ATTRS = ("Ns", "alpha", "Ms")


def gen_schedule(rng, f_tms=None):
    n = rng.choice([2, 2, 3, 4, 5])
    ts = []
    for _ in range(n):
        r = rng.random()
        if r < 0.5:
            ts.append(round(loguniform(rng, 30, 14000), 1))
        elif r < 0.7:
            ts.append(round(loguniform(rng, 2, 30), 2))
        elif r < 0.8 and ts:
            ts.append(rng.choice(ts))                 # repeat
        elif r < 0.88:
            ts.append(0.0)
        elif f_tms is not None and len(f_tms):
            ts.append(float(rng.choice(list(f_tms))))  # exactly a bin turn-off time
        else:
            ts.append(float(rng.choice([100, 12000, 1000])))
    if rng.random() < 0.5:
        rng.shuffle(ts)
    if max(ts) <= 0:
        ts.append(500.0)
    return ts


def corr(ctx):
    n = ctx.n(30, 400)
    lines, meta = [], []
    for _ in range(n):
        cfg = gen.gen_config(ctx.rng, small=True, kicks=False)
        cfg["tout"] = [1.0]
        try:
            probe = gen.build(cfg)
        except Exception:
            continue
        cfg["tout"] = gen_schedule(ctx.rng, probe.tms_u[probe.tms_u < 14000])
        try:
            with real.nan_blanks():
                f = gen.build(cfg)
        except Exception as e:
            ctx.corr_case("grid", True, {"cfg": cfg, "error": str(e)[:100]}, branch="real-raises", nontrivial=False)
            continue
        lines.append(f"grid {hl(list(map(float, probe.tms_u)))} {hl(cfg['tout'])}")
        meta.append((cfg, f))
    outs = run_driver(lines)
    for (cfg, f), o in zip(meta, outs):
        mg = [uh(t) for t in o.split()]
        ok = mg == list(map(float, f.t))
        unwritten = [i for i in range(len(cfg["tout"])) if np.isnan(f.Ns[i]).all()]
        ok &= (unwritten == [])
        ts = cfg["tout"]
        br = ("repeat " if len(set(ts)) < len(ts) else "") + ("zero " if 0.0 in ts else "") + ("unsorted" if ts != sorted(ts) else "sorted")
        ctx.corr_case("grid", ok, {"cfg": cfg, "real_t": list(map(float, f.t))[:12], "model": o[:120], "unwritten_rows": unwritten}, branch=br)
    if meta:
        ctx.sample({"op": "grid", "tout": meta[0][0]["tout"], "model": outs[0][:120]})


# ------------------------------------------------------------------ schedule differential on the real code
def snapshot(f, i):
    d = {a: getattr(f, a)[i].tolist() for a in ATTRS}
    for c, nm in enumerate(("WD", "NS", "BH")):
        d["Nr" + nm] = f.Nr[c][i].tolist(); d["Mr" + nm] = f.Mr[c][i].tolist(); d["mr" + nm] = f.mr[c][i].tolist()
    return d


def diff_worker(job):
    from common import JobTimeout, time_limit
    try:
        with time_limit(300):
            return _diff_worker(job)
    except JobTimeout:
        cfg, kind, tight = job
        return {"cfg": cfg, "kind": kind, "tight": tight, "error": "timeout (> 300 s)"}


def _diff_worker(job):
    cfg, kind, tight = job
    res = {"cfg": cfg, "kind": kind, "tight": tight}
    cls = evolve_mf.EvolvedMFWithBH if kind == "fbh" else evolve_mf.EvolvedMF
    ov = dict(rtol=1e-10, atol=1e-10, nsteps=10**7) if tight else {}
    try:
        with real.recording_ode(**ov), real.nan_blanks():
            multi = gen.build(cfg, cls=cls)
    except Exception as e:
        res["error"] = f"{type(e).__name__}: {e}"[:160]
        return res
    res["conv"] = bool(multi.converged)
    res["rows"] = []
    imf0 = None
    for i, t in enumerate(cfg["tout"]):
        c1 = dict(cfg); c1["tout"] = [t]
        c1["kw"] = dict(cfg["kw"])
        if kind == "fbh":
            c1["kw"]["f_BH"] = cfg["kw"]["f_BH"][i]
        try:
            with real.recording_ode(**ov), real.nan_blanks():
                single = gen.build(c1, cls=cls)
        except Exception as e:
            res["rows"].append({"single_error": f"{type(e).__name__}: {e}"[:120]}); continue
        res["rows"].append({"multi": snapshot(multi, i), "single": snapshot(single, 0), "conv": bool(single.converged)})
    y0 = multi.massbins.initial_values(N0=multi.N0)
    res["Ns0"] = multi.massbins.unpack_values(y0)[0].tolist()
    return res


def check_diff(res):
    if "error" in res:
        return "skip"        # C04/C17 decide whether a construction may raise
    if not res["conv"]:
        # the solver gave up on the schedule as a whole. When every one of its ages converges on its own — the largest of them over the very
        # same internal grid — the schedule (its order, its repeats) is what broke the run: the rows are then not "the same in any order"
        # (the flag and the warning are C17's business; they do not make the reported rows right). The tightened twin lifts the step
        # limit, so only the library's own settings can show this.
        rows = res["rows"]
        if not res["tight"] and rows and all("single_error" not in r and r["conv"] for r in rows):
            return {"clause": "a schedule whose ages each converge alone converges, and reports the same rows, in any order",
                    "tout": res["cfg"]["tout"], "observed": "converged=False for the schedule, True for each age alone"}
        return "skip"
    cfg = res["cfg"]
    tight = res["tight"]
    # default tolerance (rtol=atol=1e-5): an extra stop inside the BH-formation window changes how dopri5 steps over the jumps of the
    # right-hand side (the deposit bin switches as the tabulated BH relation zigzags): 21 % seen in one BH bin of a 3-bin layout (78 vs 99
    # objects) while the class totals agree; per-bin the default-tolerance clause is therefore coarse (30 %), class totals are held to 0.5 %,
    # and the tightened clause decides
    rel = 1e-5 if tight else 3e-1
    absN = 1e-3 if tight else 0.5
    for i, row in enumerate(res["rows"]):
        if "single_error" in row or not row["conv"]:
            continue
        m, s = row["multi"], row["single"]
        for key in m:
            a, b = np.array(m[key]), np.array(s[key])
            if np.isnan(a).all() and len(a):
                return {"clause": "row i corresponds to the i-th requested age (row never written)", "row": i, "attr": key}
            scale = max(float(np.nanmax(np.abs(b))) if len(b) else 0.0, 1e-300)
            tol = rel * np.maximum(np.abs(b), scale * 1e-4) + (absN if key[0] == "N" else absN * 50 if key[0] == "M" and key != "Ms" else 0)
            if not tight and key[:2] in ("Nr", "Mr") and len(b):
                # at the default tolerance objects are booked into neighbouring remnant bins (see above): per bin relative to the class total
                tol = rel * np.maximum(np.abs(b), float(np.nansum(np.abs(b)))) + (absN if key[0] == "N" else absN * 50)
            if key.startswith("mr") or key == "alpha":
                tol = rel * np.maximum(np.abs(b), 1e-3) + (1e-5 if tight else 5e-2)
            nan_mismatch = np.isnan(a) != np.isnan(b)
            bad = (np.abs(a - b) > tol) & ~np.isnan(a) & ~np.isnan(b)
            if key.startswith("mr"):
                # mean mass of a bin holding (almost) nothing is meaningless
                N_m = np.array(m["Nr" + key[2:]]); N_s = np.array(s["Nr" + key[2:]]); bad &= (N_m > 1.0) & (N_s > 1.0)
            if key in ("Ms", "alpha"):
                # a star bin left with the 0.1-object residue: its mass/slope are not meaningful either
                bad &= (np.array(m["Ns"]) > 10.0) & (np.array(s["Ns"]) > 10.0)
                nan_mismatch &= (np.array(m["Ns"]) > 10.0)
            if bad.any() or nan_mismatch.any():
                j = int(np.flatnonzero(bad | nan_mismatch)[0])
                return {"clause": "the row for age T is the same whether T is requested alone or within any schedule", "row": i, "age": cfg["tout"][i],
                        "attr": key, "bin": j, "multi": repr(float(a[j])), "single": repr(float(b[j])), "tight": tight}
        if not tight:
            # class totals: numbers where nothing is ejected; with ejection or kicks the number removed depends on which bins hold the
            # mass (heaviest first), so only the total mass is independent of how the default-tolerance run distributed the objects
            ejecting = res["kind"] in ("eject", "kicks", "fbh") or cfg["kw"].get("BH_ret_dyn", 1.0) < 1.0 or cfg["kw"].get("natal_kicks")
            for key in m:
                if len(m[key]) and (key.startswith("Mr") if (ejecting and key.endswith("BH")) else key.startswith("Nr")):
                    ta, tb = float(np.nansum(m[key])), float(np.nansum(s[key]))
                    if abs(ta - tb) > 5e-3 * max(abs(tb), 1.0) + (0.5 if key[0] == "N" else 25.0) * len(m[key]):
                        return {"clause": "the row for age T is the same whether T is requested alone or within any schedule (class total)",
                                "row": i, "age": cfg["tout"][i], "attr": key, "multi": repr(ta), "single": repr(tb), "tight": tight}
        if cfg["tout"][i] == 0.0:
            if any(np.any(np.array(m[k]) != 0) for k in m if k.startswith(("Nr", "Mr"))):
                return {"clause": "age 0 returns no remnants", "row": i}
            if not np.allclose(m["Ns"], res["Ns0"], rtol=1e-12):
                return {"clause": "age 0 returns the unevolved IMF", "row": i}
    return None


def make_jobs(ctx, n):
    jobs = []
    for _ in range(n):
        kind = ctx.rng.choice(["plain", "plain", "eject", "kicks", "fbh", "escape"])
        cfg = gen.gen_config(ctx.rng, small=True, kicks=(kind == "kicks"), escape=(kind == "escape"))
        cfg["tout"] = [1.0]
        try:
            probe = gen.build(cfg)
            tms = probe.tms_u[probe.tms_u < 14000]
        except Exception:
            tms = None
        cfg["tout"] = gen_schedule(ctx.rng, tms)
        if kind == "escape":
            sc = cfg["N0"] if cfg["kw"]["esc_norm"] == "N" else cfg["N0"] * gen.imf_mass_per_star_below(cfg["m_breaks"], cfg["a_slopes"])
            cfg["esc_rate"] = -ctx.rng.uniform(0.05, 0.4) * sc / max(cfg["tout"])
        if kind in ("eject", "kicks"):
            cfg["kw"]["BH_ret_dyn"] = ctx.rng.choice([0.5, 0.2, 0.9])
        if kind in ("eject", "kicks", "fbh") and ctx.rng.random() < 0.6:
            # BH ejection at one age must not leak into another row: request an age after BH formation more than once
            late = [t for t in cfg["tout"] if t >= 30.0] or [round(loguniform(ctx.rng, 30, 14000), 1)]
            t_rep = ctx.rng.choice(late)
            cfg["tout"] = list(cfg["tout"]) + [t_rep] * ctx.rng.choice([1, 1, 2])
            if t_rep not in cfg["tout"][:-1]:
                cfg["tout"].append(t_rep)
            if ctx.rng.random() < 0.5:
                ctx.rng.shuffle(cfg["tout"])
        if kind == "fbh":
            cfg["kw"].pop("BH_ret_dyn", None)
            # increasing targets along the schedule: a later duplicate asks for *more* BHs than an earlier one left
            fs = sorted(round(ctx.rng.uniform(0, 2e-3), 6) for _ in cfg["tout"])
            if ctx.rng.random() < 0.4:
                ctx.rng.shuffle(fs)
            cfg["kw"]["f_BH"] = fs
            cfg["kw"]["strict_BH_target"] = False
            if ctx.rng.random() < 0.4:
                cfg["kw"].update(natal_kicks=True, kick_method="sigmoid", kick_slope=ctx.rng.choice([1, 0.5]), kick_scale=ctx.rng.choice([20, 10]))
        jobs.append((cfg, kind, ctx.rng.random() < 0.6))
    return jobs


def sweep(ctx):
    eff = getattr(ctx, "effort", 1)
    for res in gen.pmap(diff_worker, make_jobs(ctx, ctx.n(42, 500) * eff)):
        bad = check_diff(res)
        ts = res["cfg"]["tout"]
        br = "skipped" if bad == "skip" else res["kind"] + ("/tight" if res["tight"] else "/default") + ("/repeat" if len(set(ts)) < len(ts) else "")
        ctx.sweep_case("schedule", repr(res["cfg"]), bad in (None, "skip"),
                       {"failing_input": {"call": "schedule", "args": {"cfg": res["cfg"], "kind": res["kind"], "tight": res["tight"]}}, "observed": bad}, branch=br)


def replay(ctx, fi):
    a = fi["args"]
    r = check_diff(diff_worker((a["cfg"], a["kind"], a["tight"])))
    return None if r == "skip" else r


def classify(entry, failure):
    return False
