"""C04 — every valid configuration yields a complete, finite, non-negative result."""
import math
import numpy as np
from common import h, uh, hl, jf, jfl, unjf, close, run_driver, loguniform
import real, gen
from props._full import full_worker, gen_jobs

TRUSTED = ["dopri5 (its non-convergence flag is honoured as the property allows)"]
ASSUMPTIONS = ["documented ValueErrors (kicks exceeding the ejection budget) are valid outcomes, not failures"]
RULE = ("corr: per-row extraction (star masses/mean masses on truncated bins, remnant mean masses with bin-centre fallback) and the "
        "filtered summary views recomputed by the model from the real output rows; sweep: random configurations over the documented "
        "domain (IMF shape, layouts incl. dict form, metallicity, IFMR/kick methods, retention fractions, escape, N0, ages) looking for "
        "exceptions, NaN/inf, negatives and inconsistent views; distinct = distinct configurations")
CLS = {"MS": 0, "WD": 1, "NS": 2, "BH": 3}


def corr(ctx):
    jobs = gen_jobs(ctx, ctx.n(40, 600))
    results = [r for r in gen.pmap(full_worker, jobs) if "error" not in r]
    lines, meta = [], []
    for res in results:
        lo, up = res["bins"]["MS"]
        for i, t in enumerate(res["cfg"]["tout"]):
            mto = res["mto"][i]
            flat = []
            for j in range(len(lo)):
                hi = mto if (lo[j] <= mto < up[j]) else up[j]
                flat += [res["Ns"][i][j], res["alpha"][i][j], lo[j], hi]
            if any(math.isnan(x) for x in flat):
                continue
            lines.append("xstar " + " ".join(h(x) for x in flat)); meta.append(("xstar", res, i))
            rf = []
            for c in ("WD", "NS", "BH"):
                bl, bu = res["bins"][c]
                for k in range(len(bl)):
                    rf += [bl[k], bu[k], res["Nr" + c][i][k], res["Mr" + c][i][k]]
            if not any(math.isnan(x) for x in rf):
                lines.append("xrem " + " ".join(h(x) for x in rf)); meta.append(("xrem", res, i))
        if "views" in res:
            i = len(res["cfg"]["tout"]) - 1
            vf = []
            mto = res["mto"][i]
            for j in range(len(lo)):
                hi = mto if (lo[j] <= mto < up[j]) else up[j]
                vf += [0.0, res["Ns"][i][j], res["Ms"][i][j], hi - lo[j]]
            for c in ("WD", "NS", "BH"):
                bl, bu = res["bins"][c]
                for k in range(len(bl)):
                    vf += [float(CLS[c]), res["Nr" + c][i][k], res["Mr" + c][i][k], bu[k] - bl[k]]
            if not any(math.isnan(x) for x in vf):
                lines.append(f"views {h(10.0)} {h(0.1)} " + " ".join(h(x) for x in vf)); meta.append(("views", res, i))
    outs = run_driver(lines)
    for (op, res, i), o in zip(meta, outs):
        detail = {"cfg": res["cfg"], "row": i, "model": o[:160]}
        if op == "xstar":
            vals = o.split()
            ok = True
            for j in range(len(res["Ns"][i])):
                mMs, mms = uh(vals[2 * j]), uh(vals[2 * j + 1])
                rMs, rms = res["Ms"][i][j], res["ms"][i][j]
                n = res["Ns"][i][j]
                if math.isnan(mMs) != math.isnan(rMs):
                    ok = False
                elif not math.isnan(rMs):
                    ok &= close(rMs, mMs, rel=1e-9, abs_=1e-300)
                    if n != 0 and not (math.isnan(rms) and math.isnan(mms)):
                        ok &= close(rms, mms, rel=1e-9)
            ctx.corr_case("extractStar", ok, detail, branch="has-nan" if any(math.isnan(x) for x in res["Ms"][i]) else "finite")
        elif op == "xrem":
            vals = [uh(x) for x in o.split()]
            real_mr = res["mrWD"][i] + res["mrNS"][i] + res["mrBH"][i]
            ok = len(vals) == len(real_mr) and all(close(a, b, rel=1e-12) for a, b in zip(real_mr, vals))
            ctx.corr_case("remMean", ok, detail)
        else:
            parts = [p.split() for p in o.split("|")]
            v = res["views"]
            ok = (int(parts[0][0]) == v["nms"] and int(parts[0][1]) == v["nmr"]
                  and [uh(x) for x in parts[1]] == v["M"] and [uh(x) for x in parts[2]] == v["N"]
                  and all(close(a, uh(b), rel=1e-15) for a, b in zip(v["m"], parts[3])) and len(parts[3]) == len(v["m"])
                  and [("MS", "WD", "NS", "BH")[int(x)] for x in parts[4]] == v["types"])
            ctx.corr_case("views", ok, detail)
    if results:
        ctx.sample({"cfg": results[0]["cfg"], "converged": results[0]["converged"], "views_types": results[0].get("views", {}).get("types", [])[:12]})


def check_full(res):
    cfg = res["cfg"]
    if "error" in res:
        if res.get("documented"):
            return "skip"
        return {"clause": "construction returns without raising", "observed": res["error"] + ": " + res["msg"]}
    if not res["converged"]:
        return "skip" if res["warned"] else {"clause": "non-convergence must be flagged with a warning"}
    nrows = len(cfg["tout"])
    for a in ("Ns", "Ms", "ms", "alpha", "NrWD", "NrNS", "NrBH", "MrWD", "MrNS", "MrBH", "mrWD", "mrNS", "mrBH", "mmean"):
        arr = np.array(res[a], dtype=float)
        if not np.all(np.isfinite(arr)):
            i = np.argwhere(~np.isfinite(arr))[0]
            return {"clause": "every element of every per-age output is finite", "attr": a, "index": [int(x) for x in i],
                    "value": repr(float(arr[tuple(i)])), "age": cfg["tout"][int(i[0])] if arr.ndim > 1 else None}
        if a not in ("alpha",) and np.any(arr < 0):
            i = np.argwhere(arr < 0)[0]
            return {"clause": "counts and masses non-negative", "attr": a, "index": [int(x) for x in i], "value": repr(float(arr[tuple(i)]))}
    if "views_error" in res:
        return {"clause": "summary views raise", "observed": res["views_error"]}
    v = res["views"]
    L = len(v["M"])
    if not (len(v["N"]) == L and len(v["m"]) == L and len(v["types"]) == L and len(v["bin_widths"]) == L and v["nms"] + v["nmr"] == L):
        return {"clause": "summary views have consistent lengths", "observed": {k: (len(x) if isinstance(x, list) else x) for k, x in v.items()}}
    order = {"MS": 0, "WD": 1, "NS": 2, "BH": 3}
    codes = [order[t] for t in v["types"]]
    if codes != sorted(codes):
        return {"clause": "views list star bins then WD, NS and BH bins"}
    if any(abs(m - M / N) > 1e-12 * abs(m) for m, M, N in zip(v["m"], v["M"], v["N"])):
        return {"clause": "m = M/N"}
    last = nrows - 1
    allN = res["Ns"][last] + res["NrWD"][last] + res["NrNS"][last] + res["NrBH"][last]
    allM = res["Ms"][last] + res["MrWD"][last] + res["MrNS"][last] + res["MrBH"][last]
    keep = [k for k, n in enumerate(allN) if n > 1.0]
    if [allN[k] for k in keep] != v["N"] or [allM[k] for k in keep] != v["M"]:
        return {"clause": "views contain exactly the bins holding more than one object at the last requested age"}
    if any(w <= 0 for w in v["bin_widths"]):
        return {"clause": "bin widths positive", "observed": v["bin_widths"]}
    return None


def sweep(ctx):
    eff = getattr(ctx, "effort", 1)
    jobs = gen_jobs(ctx, ctx.n(150, 5000) * eff)
    for res in gen.pmap(full_worker, jobs):
        bad = check_full(res)
        cfg = res["cfg"]
        br = "skipped" if bad == "skip" else res["kind"] + ("/dict" if isinstance(cfg["nbins"], dict) else "") + ("/esc" if cfg["esc_rate"] else "") + ("/kicks" if cfg["kw"].get("natal_kicks") else "")
        ctx.sweep_case("configurations", repr(cfg), bad in (None, "skip"),
                       {"failing_input": {"call": "full", "args": {"cfg": cfg, "kind": res["kind"]}}, "observed": bad}, branch=br)


def replay(ctx, fi):
    r = check_full(full_worker({"cfg": fi["args"]["cfg"], "kind": fi["args"].get("kind", "plain")}))
    return None if r == "skip" else r


def classify(entry, failure):
    c = entry.get("classifier")
    obs = failure.get("observed") or {}
    if c == "solver_undershoot":
        # a tiny negative left by the integrator: at most 1e-3 objects / 0.1 Msun below zero
        if obs.get("clause") != "counts and masses non-negative":
            return False
        v = float(obs["value"])
        lim = 1e-3 if obs["attr"].startswith(("N", "mr", "ms")) else 0.1
        return -lim <= v < 0
    if c == "turnoff_age_thin_bin":
        # a requested age within rounding of a bin's turn-off time: the truncated turn-off bin is thinner than Pk's resolution
        return obs.get("clause") == "every element of every per-age output is finite" and obs.get("attr") in ("Ms", "ms", "mmean") and _age_on_turnoff(failure)
    return False


def _age_on_turnoff(failure):
    try:
        cfg = failure["failing_input"]["args"]["cfg"]
        res = full_worker({"cfg": cfg, "kind": failure["failing_input"]["args"].get("kind", "plain")})
        lo, up = res["bins"]["MS"]
        for i, mto in enumerate(res["mto"]):
            for j in range(len(lo)):
                if lo[j] <= mto < up[j] and (mto - lo[j]) <= 1e-9 * mto:
                    return True
        return False
    except Exception:
        return False
