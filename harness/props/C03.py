"""C03 — escape removes exactly the requested rate with the documented mass dependence."""
import math, warnings
import numpy as np
from common import h, uh, hl, jf, jfl, unjf, close, run_driver, loguniform
import real, gen
from real import evolve_mf, Pk

TRUSTED = ["numpy pow/log/sqrt vs libm (scale-aware 1e-11)", "dopri5 for the time-integrated clause"]
ASSUMPTIONS = ["the slope-implied mass change (norm 'M', after core collapse) is not an identity of the derivative: the slope rule is a secant; "
               "it is checked with a tolerance ∝ (log bin width)²"]
RULE = ("corr: the escape derivative on synthetic and recorded states on both sides of the core-collapse time, both normalisations, "
        "depletion masses 0.5-3, random layouts; every entry compared (support exactly, values scale-aware); sweep: the sums and "
        "per-bin clauses of C03 on the real derivative and N(t)=N0+∫rate on real runs; distinct = distinct (configuration, t, y)")


def gen_model(ctx):
    cfg = gen.gen_config(ctx.rng, small=True, kicks=False)
    cfg["tout"] = [1.0]
    return cfg


def esc_setup(rng, f):
    f._esc_norm = rng.choice(["N", "M"])
    f.md = rng.choice([1.2, 1.2, 1.0, 0.7, 2.0, 3.0, rng.uniform(0.5, 3)])
    scale = f.N0 if f._esc_norm == "N" else f.N0 * 0.4
    f.esc_rate = -rng.uniform(1e-6, 1e-3) * scale
    f._time_dep_esc = False
    return f


def tokens(f, t, y):
    mb = f.massbins
    Ns, alpha, Nr, Mr = mb.unpack_values(y, grouped_rem=True)
    bins = mb.turned_off_bins(f.compute_mto(t))
    sf = []
    for n, a, lo, hi in zip(Ns, alpha, bins.lower, bins.upper):
        sf += [float(n), float(a), float(lo), float(hi)]
    rf = []
    for c in range(3):
        for n, m in zip(Nr[c], Mr[c]):
            rf += [float(n), float(m)]
    return f"esc {f._esc_norm} {h(t)} {h(f.tcc)} {h(f.esc_rate)} {h(f.md)} {hl(sf)} {hl(rf)}"


def conditioning(f, t, y):
    """max over star bins of Pk-scale / Pk (thin truncated bins cancel), and threshold proximity flags"""
    from props.C12 import scale_of
    mb = f.massbins
    Ns, alpha, Nr, Mr = mb.unpack_values(y, grouped_rem=True)
    bins = mb.turned_off_bins(f.compute_mto(t))
    worst, near = 1.0, False
    with np.errstate(all="ignore"):
        for a, lo, hi in zip(alpha, bins.lower, bins.upper):
            if not hi > lo:
                near = True
                continue
            ps = [float(Pk(a, k, lo, hi)) for k in (1, 1.5, 2, 2.5)]
            if any(math.isnan(p) or p < 1e-14 for p in ps):
                near = True          # at or next to the NaN threshold: moments of this bin may differ in NaN-ness
                continue
            for k, p in zip((1, 1.5, 2, 2.5), ps):
                worst = max(worst, scale_of(float(a), k, float(lo), float(hi)) / p)
            ms = ps[2] / ps[0]
            if abs(ms - f.md) <= 1e-12 * f.md * worst:
                near = True
            if ms < f.md:
                # the depletion weights 1 - md^(-1/2) P15/P1 and 1 - md^(-1/2) P25/P2 cancel when the bin's mean mass is close to md
                for num, den in ((ps[1], ps[0]), (ps[3], ps[2])):
                    w = abs(1.0 - f.md ** -0.5 * num / den)
                    if w > 0:
                        worst = max(worst, 10.0 / w)
        for c in range(3):
            for n, m in zip(Nr[c], Mr[c]):
                if n > 0 and abs(m / n - f.md) <= 1e-13 * f.md:
                    near = True
    return worst, near


def compare(ctx, f, t, y, o, tag):
    with np.errstate(all="ignore"):
        d = f._derivs_esc(t, y)
    mb = f.massbins
    detail = {"tag": tag, "cfg": getattr(f, "_cfg", None), "norm": f._esc_norm, "md": f.md, "tcc": f.tcc, "rate": f.esc_rate,
              "t": jf(t), "y": jfl(y), "model": o[:160]}
    worst, near = conditioning(f, t, y)
    parts = [p.split() for p in o.split("|")]
    mdNs = [uh(x) for x in parts[0]]
    mdal = [uh(x) for x in parts[1]]
    mrem = [uh(x) for x in parts[2]]
    dNs, dal, dNwd, dNns, dNbh, dMwd, dMns, dMbh = mb.unpack_values(d)
    rN = np.r_[dNwd, dNns, dNbh]; rM = np.r_[dMwd, dMns, dMbh]
    if not np.all(np.isfinite(d)):
        # the normalising sum is zero (nothing can be depleted) or a bin is thinner than the resolution: the result is
        # undefined on both sides; only the fact is compared, not which entries carry the NaN
        model_undef = any(x is None or (isinstance(x, float) and not math.isfinite(x)) for x in mdNs + mdal + mrem)
        ctx.corr_case("derivsEsc", model_undef or near, detail, branch="undefined")
        return
    ok = len(mdNs) == len(dNs) and len(mrem) == 2 * len(rN)
    rel = 1e-11 + 1e-14 * worst
    if ok:
        sN = max(float(np.max(np.abs(dNs))) if len(dNs) else 0.0, 1e-300)
        Ns_ = mb.unpack_values(y)[0]
        Ntot = max(float(np.sum(np.abs(Ns_)) + sum(float(np.sum(np.abs(p))) for p in mb.unpack_values(y)[2:5])), 1e-300)
        for a, b, nj in zip(dNs, mdNs, Ns_):
            # dNs_j = B·Ns_j·(1 − md^-1/2 P15/P1): the bracket cancels when the bin's mean mass is near md, so the natural
            # scale of the entry is |B|·Ns_j ≳ |rate|·Ns_j/N_total
            sc_j = max(abs(float(a)), sN * 1e-3, abs(f.esc_rate) * abs(float(nj)) / Ntot)
            ok &= close(float(a), b, sc_j, rel=rel) and ((a == 0) == (b == 0) or abs(a) < 1e-300)
        for a, b in zip(dal, mdal):
            ok &= close(float(a), b, rel=rel) and ((a == 0) == (b == 0))
        for i in range(len(rN)):
            ok &= close(float(rN[i]), mrem[2 * i], rel=rel) and close(float(rM[i]), mrem[2 * i + 1], rel=rel)
            ok &= ((rN[i] == 0) == (mrem[2 * i] == 0))
    br = ("pre" if t < f.tcc else "post") + "/" + f._esc_norm
    ctx.corr_case("derivsEsc", ok, detail, branch=br, indeterminate=(not ok) and near)


def synth(rng, f, t):
    from props.C02 import synth_state
    return synth_state(rng, f, t)


def corr(ctx):
    nm, per = ctx.n(12, 200), ctx.n(100, 300)
    lines, meta = [], []
    for _ in range(nm):
        cfg = gen_model(ctx)
        try:
            f = gen.build(cfg)
        except Exception:
            continue
        f._cfg = cfg
        for _ in range(per):
            esc_setup(ctx.rng, f)
            t = loguniform(ctx.rng, 1.0, 2e4)
            f.tcc = ctx.rng.choice([0.0, t * 2, t * 0.5, t])
            y = synth(ctx.rng, f, t)
            snap = (f._esc_norm, f.md, f.esc_rate, f.tcc)
            lines.append(tokens(f, t, y)); meta.append((f, snap, t, y, "synthetic"))
    for _ in range(ctx.n(3, 40)):
        cfg = gen.gen_config(ctx.rng, small=True, kicks=False, escape=True)
        try:
            f, rec = real.record_states(lambda: gen.build(cfg), max_states=ctx.n(120, 300))
        except Exception:
            continue
        f._cfg = cfg
        if callable(f.esc_rate):
            continue
        snap = (f._esc_norm, f.md, f.esc_rate, f.tcc)
        for t, y in rec:
            if t <= 0:
                continue
            lines.append(tokens(f, t, y)); meta.append((f, snap, t, y, "recorded"))
    outs = run_driver(lines)
    for (f, snap, t, y, tag), o in zip(meta, outs):
        f._esc_norm, f.md, f.esc_rate, f.tcc = snap
        compare(ctx, f, t, y, o, tag)
    if meta:
        ctx.sample({"op": "esc", "norm": meta[0][1][0], "t": meta[0][2], "model": outs[0][:120]})


# ------------------------------------------------------------------ predicates on the real code
def check_state(f, t, y):
    with np.errstate(all="ignore"):
        d = f._derivs_esc(t, y)
    if np.isnan(d).any():
        return "skip"
    mb = f.massbins
    Ns, alpha, Nr, Mr = mb.unpack_values(y, grouped_rem=True)
    dNs, dal, dNwd, dNns, dNbh, dMwd, dMns, dMbh = mb.unpack_values(d)
    dNr = [dNwd, dNns, dNbh]; dMr = [dMwd, dMns, dMbh]
    rate = f.esc_rate
    bins = mb.turned_off_bins(f.compute_mto(t))
    with np.errstate(all="ignore"):
        P1, P2 = Pk(alpha, 1, *bins), Pk(alpha, 2, *bins)
    fin = ~np.isnan(P1) & ~np.isnan(P2)
    ms = np.where(fin, P2 / P1, np.nan)
    worst, near = conditioning(f, t, y)
    if near:
        return "skip"
    tol = 1e-9 * abs(rate) * max(1.0, worst * 1e-5)
    totN = float(dNs.sum() + sum(x.sum() for x in dNr))
    pre = t < f.tcc
    if not pre and rate != 0:
        # nothing can be depleted: no star bin and no populated remnant bin has a mean mass below the depletion mass
        star_ok = bool(np.any(fin & (ms < f.md)))
        rem_ok = any(bool(np.any((n > 0) & (np.where(n > 0, m / np.where(n > 0, n, 1.0), np.inf) < f.md))) for n, m in zip(Nr, Mr))
        if not star_ok and not rem_ok:
            return {"clause": "loss summed over all bins equals the rate", "branch": "post", "nothing_depletable": True,
                    "observed": repr(totN), "expected": repr(rate), "md": repr(float(f.md))}
    if f._esc_norm == "N":
        if abs(totN - rate) > tol:
            return {"clause": "loss summed over all bins equals the rate (norm N)", "branch": "pre" if pre else "post", "observed": repr(totN), "expected": repr(rate)}
    else:
        if pre:
            totM = float(np.nansum(np.where(fin, dNs * ms, 0.0)) + sum(x.sum() for x in dMr))
            if abs(totM - rate) > tol * 10:
                return {"clause": "mass loss summed over all bins equals the rate (norm M, before core collapse)",
                        "observed": repr(totM), "expected": repr(rate)}
        else:
            # mass change of each star bin implied by its changing count AND slope: d(Ns·ms(α))/dt
            eps = 1e-6
            with np.errstate(all="ignore"):
                msp = Pk(alpha + eps, 2, *bins) / Pk(alpha + eps, 1, *bins)
                msm = Pk(alpha - eps, 2, *bins) / Pk(alpha - eps, 1, *bins)
            dms = (msp - msm) / (2 * eps)
            implied = np.where(fin, dNs * ms + Ns * np.nan_to_num(dms) * dal, 0.0)
            totM = float(np.nansum(implied) + sum(x.sum() for x in dMr))
            w2 = max([math.log(float(u) / float(l)) ** 2 for l, u, ok_, m_ in zip(bins.lower, bins.upper, fin, ms)
                      if ok_ and u > l and m_ < f.md] + [0.0])
            budget = abs(rate) * 1e-7
            if abs(totM - rate) > budget + tol * 10:
                return {"clause": "mass loss incl. the change implied by evolving slopes equals the rate (norm M, after core collapse)",
                        "observed": repr(totM), "expected": repr(rate), "budget": budget, "rel_err": abs(totM - rate) / abs(rate), "w2": w2}
    # remnant mean masses preserved
    for c in range(3):
        for k in range(len(Nr[c])):
            if Nr[c][k] > 0 and dNr[c][k] != 0:
                if abs(dMr[c][k] / dNr[c][k] - Mr[c][k] / Nr[c][k]) > 1e-9 * abs(Mr[c][k] / Nr[c][k]):
                    return {"clause": "remnant mean masses preserved", "class": c, "bin": k}
    if pre:
        if np.any(dal != 0):
            return {"clause": "slopes do not change before core collapse"}
        fr = [dNs[j] / Ns[j] for j in range(len(Ns)) if Ns[j] > 0]
        fr += [dNr[c][k] / Nr[c][k] for c in range(3) for k in range(len(Nr[c])) if Nr[c][k] > 0]
        if fr and (max(fr) - min(fr)) > 1e-9 * abs(min(fr)):
            return {"clause": "before core collapse every bin loses the same fraction", "observed": [repr(min(fr)), repr(max(fr))]}
    else:
        md = f.md
        for j in range(len(Ns)):
            heavy = not (fin[j] and ms[j] < md)
            if heavy and (dNs[j] != 0 or dal[j] != 0):
                return {"clause": "after core collapse bins with mean mass above the depletion mass are untouched", "bin": j}
        for c in range(3):
            for k in range(len(Nr[c])):
                if Nr[c][k] > 0 and Mr[c][k] / Nr[c][k] >= md and (dNr[c][k] != 0 or dMr[c][k] != 0):
                    return {"clause": "heavier remnant bins untouched", "class": c, "bin": k}
        # rate per object ∝ 1 - sqrt(m/md): remnants (point masses) show it directly
        B = None
        for c in range(3):
            for k in range(len(Nr[c])):
                if Nr[c][k] > 0 and Mr[c][k] / Nr[c][k] < md * (1 - 1e-9) and dNr[c][k] != 0:
                    b = dNr[c][k] / Nr[c][k] / (1 - math.sqrt(Mr[c][k] / Nr[c][k] / md))
                    if B is None:
                        B = b
                    elif abs(b - B) > 1e-8 * abs(B):
                        return {"clause": "each object escapes at a rate ∝ 1 − sqrt(m/md)", "observed": [repr(B), repr(b)]}
        if B is not None:
            # star bins: dNs_j = B ∫ A m^α (1-sqrt(m/md)) dm (Gauss–Legendre oracle), slopes: secant of B(1-sqrt(m/md))
            from props.C11 import gl
            for j in range(len(Ns)):
                if fin[j] and ms[j] < md and Ns[j] > 0 and bins.upper[j] / bins.lower[j] > 1 + 1e-6:
                    a = float(alpha[j]); lo, hi = float(bins.lower[j]), float(bins.upper[j])
                    A = Ns[j] / P1[j]
                    want = B * gl(lambda m: A * m ** a * (1 - np.sqrt(m / md)), lo, hi)
                    if abs(dNs[j] - want) > 1e-7 * abs(want) + 1e-12 * abs(rate):
                        return {"clause": "star bins lose B·∫N(m)(1−sqrt(m/md))dm", "bin": j, "observed": repr(float(dNs[j])), "expected": repr(want)}
                    sl = (B * (1 - math.sqrt(hi / md)) - B * (1 - math.sqrt(lo / md))) / math.log(hi / lo)
                    if abs(dal[j] - sl) > 1e-8 * abs(sl) + 1e-18:
                        return {"clause": "slopes change consistently with the mass-dependent weighting", "bin": j, "observed": repr(float(dal[j])), "expected": repr(sl)}
    return None


def check_zero(f, t, y):
    old = (f.esc_rate, f._time_dep_esc)
    f.esc_rate, f._time_dep_esc = (lambda tt: 0.0), True
    try:
        with np.errstate(all="ignore"):
            d = f._derivs(t, y) - f._derivs_sev(t, y)
    except ValueError:
        return "skip"
    finally:
        f.esc_rate, f._time_dep_esc = old
    if np.any(np.nan_to_num(d) != 0):
        return {"clause": "with zero rate nothing escapes"}
    return None


def traj_worker(cfg):
    try:
        f = gen.build(cfg, NS_ret=1.0, BH_ret_int=1.0, BH_ret_dyn=1.0, natal_kicks=False)
    except Exception as e:
        return {"cfg": cfg, "error": f"{type(e).__name__}: {e}"[:160]}
    Nr = np.c_[f.Nr]
    return {"cfg": cfg, "converged": bool(f.converged), "Ntot": (f.Ns.sum(axis=1) + Nr.sum(axis=1)).tolist(),
            "Mtot": (f.Ms.sum(axis=1) + np.c_[f.Mr].sum(axis=1)).tolist(), "N0": f.N0, "nbins": int(f.Ns.shape[1])}


def check_traj(res):
    if "error" in res or not res["converged"]:
        return "skip"
    cfg = res["cfg"]
    if cfg["kw"].get("esc_norm", "N") != "N":
        return "skip"
    for i, t in enumerate(cfg["tout"]):
        want = res["N0"] + cfg["esc_rate"] * t
        got = res["Ntot"][i]
        if math.isnan(got):
            return "skip"
        if abs(got - want) > 3e-3 * res["N0"] + 0.1 * res["nbins"]:
            return {"clause": "N(t) = N0 + ∫rate dt with all remnants retained", "row": i, "observed": repr(got), "expected": repr(want)}
    return None


def sweep(ctx):
    eff = getattr(ctx, "effort", 1)
    for _ in range(ctx.n(10, 150) * eff):
        cfg = gen_model(ctx)
        try:
            f = gen.build(cfg)
        except Exception:
            continue
        for _ in range(ctx.n(60, 200)):
            esc_setup(ctx.rng, f)
            t = loguniform(ctx.rng, 1.0, 2e4)
            f.tcc = ctx.rng.choice([0.0, t * 2, t * 0.5])
            y = synth(ctx.rng, f, t)
            bad = check_state(f, t, y)
            fi = {"call": "state", "args": {"cfg": cfg, "norm": f._esc_norm, "md": f.md, "rate": f.esc_rate, "tcc": f.tcc, "t": jf(t), "y": jfl(y)}}
            ctx.sweep_case("derivative", (repr(cfg), t, y.tobytes()), bad in (None, "skip"), {"failing_input": fi, "observed": bad},
                           branch="skipped" if bad == "skip" else ("pre" if t < f.tcc else "post") + "/" + f._esc_norm)
            if ctx.rng.random() < 0.1:
                bad = check_zero(f, t, y)
                ctx.sweep_case("zero_rate", (repr(cfg), t), bad in (None, "skip"), {"failing_input": {**fi, "call": "zero"}, "observed": bad})
    cfgs = []
    for _ in range(ctx.n(24, 400) * eff):
        cfg = gen.gen_config(ctx.rng, small=True, kicks=False, escape=True)
        cfg["kw"]["esc_norm"] = "N"
        cfg["esc_rate"] = -ctx.rng.uniform(0.05, 0.5) * cfg["N0"] / max(cfg["tout"])
        cfgs.append(cfg)
    for res in gen.pmap(traj_worker, cfgs):
        bad = check_traj(res)
        ctx.sweep_case("trajectory", repr(res["cfg"]), bad in (None, "skip"), {"failing_input": {"call": "traj", "args": {"cfg": res["cfg"]}}, "observed": bad},
                       branch="skipped" if bad == "skip" else "evaluated")


def replay(ctx, fi):
    a = fi["args"]
    if fi["call"] in ("state", "zero"):
        f = gen.build(a["cfg"])
        f._esc_norm, f.md, f.esc_rate, f.tcc, f._time_dep_esc = a["norm"], a["md"], a["rate"], a["tcc"], False
        y = np.array([unjf(x) for x in a["y"]])
        r = check_state(f, unjf(a["t"]), y) if fi["call"] == "state" else check_zero(f, unjf(a["t"]), y)
        return None if r == "skip" else r
    if fi["call"] == "traj":
        r = check_traj(traj_worker(a["cfg"]))
        return None if r == "skip" else r
    raise ValueError(fi["call"])


def classify(entry, failure):
    """C03-slope-secant: the slope rule is the secant of d ln N/dt between the bin edges, so the mass change implied by the
    evolving slopes matches the rate only to O((ln hi/lo)²); listed when the residual is within 2·max (ln hi/lo)² of the rate"""
    obs = failure.get("observed") or {}
    if entry.get("classifier") == "nothing_depletable":
        # C03-nothing-depletable: after core collapse the normalisation is a sum over bins lighter than the depletion mass; when there
        # is none the requested rate is silently not removed (all updates are masked out, B = rate/0)
        return bool(obs.get("nothing_depletable"))
    if entry.get("classifier") != "slope_secant_residual":
        return False
    return (str(obs.get("clause", "")).startswith("mass loss incl. the change implied by evolving slopes")
            and obs.get("rel_err") is not None and obs["rel_err"] <= 2.0 * obs["w2"] + 1e-6)
