"""C20 — the legacy Kroupa density is a normalised, continuous, non-negative PDF."""
import math
import numpy as np
from common import h, uh, hl, jf, jfl, unjf, close, run_driver, loguniform
import real
from ssptools.Kroupa import Kroupa

TRUSTED = ["numpy.power/log vs libm (1e-12*scale)", "Gauss–Legendre (80 points in ln m per piece) as the quadrature oracle"]
ASSUMPTIONS = ["sampling is checked through the deterministic inverse-CDF helper and through seeded np.random draws"]
RULE = ("corr: moment helpers incl. exponents exactly 0, 1, 2; inverse-CDF helper; constants, normalisation and point evaluation for "
        "exponent lists of length 2-6 with entries in [0,3] (special values 1 and 2 included) and increasing limits; sweep: non-negative, "
        "continuous at interior limits, integrates to one, integral() = (∫pdf, ∫x·pdf) on random sub-ranges, samples inside the limits; "
        "distinct = distinct (exponents, limits[, sub-range])")
SPECIAL = [1.0, 2.0, 0.0, 1.3, 2.35, 2.3]


def gen_k(rng):
    n = rng.choice([2, 2, 3, 3, 4, 5, 6])
    a = [rng.choice(SPECIAL) if rng.random() < 0.45 else round(rng.uniform(0, 3), 3) for _ in range(n)]
    mlim = [loguniform(rng, 0.01, 0.5)]
    for _ in range(n):
        mlim.append(mlim[-1] * loguniform(rng, 1.2, 30))
    return a, mlim


def gl(f, lo, hi):
    from props.C11 import gl as _gl
    return _gl(f, lo, hi)


def corr(ctx):
    n = ctx.n(3000, 60000)
    trip = []
    for _ in range(n):
        xmin = loguniform(ctx.rng, 0.01, 100); xmax = xmin * loguniform(ctx.rng, 1.001, 100)
        a = ctx.rng.choice([1.0, 2.0, 0.0]) if ctx.rng.random() < 0.4 else ctx.rng.uniform(0, 3)
        trip.append((xmin, xmax, a))
    K = Kroupa.__new__(Kroupa)
    o0 = run_driver([f"kmom0 {h(x0)} {h(x1)} {h(a)}" for x0, x1, a in trip])
    o1 = run_driver([f"kmom1 {h(x0)} {h(x1)} {h(a)}" for x0, x1, a in trip])
    for (x0, x1, a), m0, m1 in zip(trip, o0, o1):
        with np.errstate(all="ignore"):
            r0, r1 = float(K._mom0(x0, x1, a)), float(K._mom1(x0, x1, a))
        sc0 = abs(math.log(x1 / x0)) if a == 1 else (x1 ** (1 - a) + x0 ** (1 - a)) / abs(1 - a)
        sc1 = abs(math.log(x1 / x0)) if a == 2 else (x1 ** (2 - a) + x0 ** (2 - a)) / abs(2 - a)
        br = "a=1" if a == 1 else "a=2" if a == 2 else "a=0" if a == 0 else "generic"
        ctx.corr_case("mom0", close(r0, uh(m0), sc0) or (math.isnan(r0) and math.isnan(uh(m0))), {"args": [jf(x0), jf(x1), jf(a)], "real": repr(r0), "model": m0}, branch=br)
        ctx.corr_case("mom1", close(r1, uh(m1), sc1) or (math.isnan(r1) and math.isnan(uh(m1))), {"args": [jf(x0), jf(x1), jf(a)], "real": repr(r1), "model": m1}, branch=br)
    quad = []
    for _ in range(ctx.n(2000, 40000)):
        xmin = loguniform(ctx.rng, 0.01, 10); xmax = xmin * loguniform(ctx.rng, 1.2, 100)
        sl = 1.0 if ctx.rng.random() < 0.25 else ctx.rng.choice([2.0, 0.0, ctx.rng.uniform(0, 3)])
        quad.append((ctx.rng.random(), sl, xmin, xmax))
    for (x, sl, x0, x1), o in zip(quad, run_driver([f"kgetmass {h(x)} {h(sl)} {h(x0)} {h(x1)}" for x, sl, x0, x1 in quad])):
        with np.errstate(all="ignore"):
            try:
                r = float(K._getmass(x, np.float64(sl), x0, x1))
            except ZeroDivisionError:
                r = float("nan")
        ctx.corr_case("getmass", close(r, uh(o), rel=1e-10), {"args": [jf(x), jf(sl), jf(x0), jf(x1)], "real": repr(r), "model": o}, branch="slope=1" if sl == 1 else "generic")
    objs = [gen_k(ctx.rng) for _ in range(ctx.n(300, 5000))]
    lines, xs_all = [], []
    for a, mlim in objs:
        xs = [loguniform(ctx.rng, mlim[0], mlim[-1] * 0.999) for _ in range(5)] + [ctx.rng.choice(mlim[:-1])]
        xs_all.append(xs)
        lines.append(f"kroupa {hl(a)} {hl(mlim)} {hl(xs)}")
    for (a, mlim), xs, o in zip(objs, xs_all, run_driver(lines)):
        with np.errstate(all="ignore"):
            k = Kroupa(a=a, mlim=mlim)
        parts = [p.split() for p in o.split("|")]
        ok = close(float(k._norm), uh(parts[0][0]), rel=1e-10) or (math.isnan(k._norm) and math.isnan(uh(parts[0][0])))
        ok &= all(close(float(c), uh(m), rel=1e-10) for c, m in zip(k._C, parts[1]))
        for x, m in zip(xs, parts[2]):
            with np.errstate(all="ignore"):
                v = k.eval(x)
            mv = uh(m)
            if mv is None:
                ok &= len(v) == 0
            else:
                ok &= len(v) == 1 and (close(float(v[0]), mv, rel=1e-9) or (math.isnan(float(v[0])) and math.isnan(mv)))
        ctx.corr_case("kroupa", ok, {"a": a, "mlim": jfl(mlim), "model": o[:160]}, branch=f"n={len(a)}" + ("/special" if any(x in (1.0, 2.0) for x in a) else ""))
    ctx.sample({"op": "kroupa", "a": objs[0][0], "mlim": objs[0][1]})
    # the integral() method: piece selection (ranges inside one piece, spanning several, ending on limits, outside the domain)
    cases = []
    for a, mlim in objs:
        for _ in range(4):
            r = ctx.rng.random()
            if r < 0.5:
                lo = loguniform(ctx.rng, mlim[0], mlim[-1]); hi = loguniform(ctx.rng, lo, mlim[-1])
            elif r < 0.8:
                lo = ctx.rng.choice(mlim[:-1]); hi = ctx.rng.choice([m for m in mlim if m > lo] + [loguniform(ctx.rng, lo, mlim[-1])])
            elif r < 0.9:
                lo = mlim[0] * ctx.rng.choice([0.5, 0.999999]); hi = mlim[-1]
            else:
                lo = mlim[0]; hi = mlim[-1] * ctx.rng.choice([1.000001, 2.0])
            cases.append((a, mlim, float(lo), float(hi)))
    outs = run_driver([f"kintegral {h(lo)} {h(hi)} {hl(a)} {hl(mlim)}" for a, mlim, lo, hi in cases])
    for (a, mlim, lo, hi), o in zip(cases, outs):
        with np.errstate(all="ignore"):
            k = Kroupa(a=a, mlim=mlim)
            try:
                I0, I1 = k.integral(lo, hi)
                real_v = ("ok", float(I0), float(I1))
            except ValueError as e:
                real_v = ("err", "below" if "less than" in str(e) else "above")
            except IndexError:
                real_v = ("err", "index")
        t = o.split()
        if real_v[0] == "err" or t[0] == "err":
            ok = t[0] == real_v[0] and t[1] == real_v[1]
            br = "error"
        else:
            sc0 = sum(abs(float(k._norm * k._C[i])) * abs(float(k._mom0(mlim[i], mlim[i + 1], a[i]))) for i in range(len(a)))
            sc1 = sum(abs(float(k._norm * k._C[i])) * abs(float(k._mom1(mlim[i], mlim[i + 1], a[i]))) for i in range(len(a)))
            ok = (close(real_v[1], uh(t[1]), sc0, rel=1e-10) and close(real_v[2], uh(t[2]), sc1, rel=1e-10))
            br = "on-limit" if (lo in mlim or hi in mlim) else "inside"
        ctx.corr_case("kintegral", ok, {"a": a, "mlim": jfl(mlim), "range": [jf(lo), jf(hi)], "real": str(real_v), "model": o}, branch=br)


# ------------------------------------------------------------------ predicates on the real code
def check_pdf(a, mlim, seed):
    with np.errstate(all="ignore"):
        k = Kroupa(a=a, mlim=mlim)
    n = len(a)

    def pdf(x):
        with np.errstate(all="ignore"):
            return np.array([float(k.eval(float(xi))[0]) for xi in np.atleast_1d(x)])
    # non-negative on a grid
    grid = np.geomspace(mlim[0], mlim[-1] * (1 - 1e-9), 200)
    vals = pdf(grid)
    if np.any(~(vals >= 0)):
        i = int(np.flatnonzero(~(vals >= 0))[0])
        return {"clause": "density non-negative", "x": repr(float(grid[i])), "value": repr(float(vals[i]))}
    for i in range(1, n):
        left = float(k._norm * k._C[i - 1] * mlim[i] ** (-a[i - 1])); right = float(k._norm * k._C[i] * mlim[i] ** (-a[i]))
        if not abs(left - right) <= 1e-9 * abs(left):
            return {"clause": "continuous at interior limits", "limit": repr(mlim[i]), "observed": [repr(left), repr(right)]}
    tot = sum(gl(lambda m: float(k._norm * k._C[i]) * m ** (-a[i]), mlim[i], mlim[i + 1]) for i in range(n))
    if not abs(tot - 1) <= 1e-9:
        return {"clause": "integrates to one", "observed": repr(tot)}
    rng = np.random.default_rng(seed)
    for _ in range(6):
        lo = float(np.exp(rng.uniform(np.log(mlim[0]), np.log(mlim[-1]))))
        hi = float(np.exp(rng.uniform(np.log(lo), np.log(mlim[-1]))))
        if rng.random() < 0.3:
            lo = mlim[0]
        if rng.random() < 0.3:
            hi = mlim[-1]
        if not hi > lo * (1 + 1e-6):
            continue
        with np.errstate(all="ignore"):
            I0, I1 = k.integral(lo, hi)
        pts = [lo] + [m for m in mlim if lo < m < hi] + [hi]
        w0 = w1 = 0.0
        for p, q in zip(pts[:-1], pts[1:]):
            i = max(j for j in range(n) if mlim[j] <= p)
            c = float(k._norm * k._C[i])
            w0 += gl(lambda m: c * m ** (-a[i]), p, q)
            w1 += gl(lambda m: c * m * m ** (-a[i]), p, q)
        if not (abs(I0 - w0) <= 1e-8 * max(w0, 1e-300) and abs(I1 - w1) <= 1e-8 * max(w1, 1e-300)):
            return {"clause": "integral() returns the zeroth and first moments of the density over the sub-range", "range": [repr(lo), repr(hi)],
                    "observed": [repr(float(I0)), repr(float(I1))], "expected": [repr(w0), repr(w1)]}
    np.random.seed(seed % (2 ** 31))
    with np.errstate(all="ignore"):
        s = k.sample(400)
    if len(s) != 400 or np.any(~((s >= mlim[0] * (1 - 1e-12)) & (s <= mlim[-1] * (1 + 1e-12)))):
        bad = s[~((s >= mlim[0]) & (s <= mlim[-1]))]
        return {"clause": "sampled masses lie inside the mass limits", "n_returned": int(len(s)), "outside": [repr(float(x)) for x in bad[:3]]}
    # each sampled mass comes from a piece with positive probability: rough distribution check on the piece fractions
    return None


def sweep(ctx):
    eff = getattr(ctx, "effort", 1)
    for _ in range(ctx.n(200, 5000) * eff):
        a, mlim = gen_k(ctx.rng)
        seed = ctx.rng.randrange(10 ** 6)
        bad = check_pdf(a, mlim, seed)
        ctx.sweep_case("pdf", (tuple(a), tuple(mlim), seed), bad is None, {"failing_input": {"call": "pdf", "args": {"a": a, "mlim": jfl(mlim), "seed": seed}}, "observed": bad},
                       branch=("special" if any(x in (1.0, 2.0, 0.0) for x in a) else "generic"))


def replay(ctx, fi):
    a = fi["args"]
    return check_pdf(a["a"], [unjf(x) for x in a["mlim"]], a["seed"])


def classify(entry, failure):
    return False
