"""C16 — results depend only on the arguments: no hidden state, no argument mutation."""
import copy, hashlib, json, math, os, pathlib, pickle, subprocess, sys, warnings
from concurrent.futures import ThreadPoolExecutor
import numpy as np
from common import jf, unjf
import real, gen, translate
from real import evolve_mf, ifmr, kicks, PowerLawIMF, MassBins

TRUSTED = ["the syntactic alias analysis of translate.py (simple aliases of parameters, self attributes bound to parameters)", "numpy/scipy have no hidden state that affects results"]
ASSUMPTIONS = ["argument objects are compared by deep snapshots (pickle bytes / array bytes) before and after every call"]
RULE = ("corr: the generated mutation-site table (static) vs what random call histories actually do to shared argument objects (dynamic); "
        "sweep: histories of 2-8 constructor calls (IFMR, MassBins, EvolvedMF, EvolvedMFWithBH, InitialBHPopulation) sharing option "
        "dictionaries, IMF objects, lists and arrays across calls with differing metallicity/options: arguments unchanged, the same model "
        "built with fresh literals is bit-identical, and bit-identical to the same call built as the first construction of a fresh interpreter "
        "(process-wide hidden state), in-place routines return the very arrays; distinct = distinct histories")


def snap(obj):
    if isinstance(obj, np.ndarray):
        return ("nd", obj.dtype.str, obj.shape, obj.tobytes())
    if isinstance(obj, PowerLawIMF):
        return ("imf", snap(obj.mb), snap(obj.a), repr(obj.N0), obj._ext, snap(obj._A_comps))
    if isinstance(obj, dict):
        return ("dict", tuple((k, snap(v)) for k, v in obj.items()))
    if isinstance(obj, (list, tuple)):
        return (type(obj).__name__, tuple(snap(v) for v in obj))
    return ("val", repr(obj))


def result_bytes(obj):
    out = []
    if isinstance(obj, ifmr.IFMR):
        ms = np.geomspace(0.8, 140, 60)
        with np.errstate(all="ignore"):
            return snap([np.asarray(obj.predict(ms)), list(obj.predict_type(ms)), tuple(map(float, obj.WD_mf)), tuple(map(float, obj.BH_mf)),
                         tuple(map(float, obj.WD_mi)), tuple(map(float, obj.BH_mi))])
    if isinstance(obj, MassBins):
        return snap([np.asarray(x) for b in obj.bins for x in b])
    if isinstance(obj, evolve_mf.InitialBHPopulation):
        return snap([obj.M, obj.N, repr(obj.age), repr(obj.Ns_lost), repr(obj.Ms_lost), repr(obj.Mtot), repr(obj.Ntot)])
    return snap([obj.Ns, obj.Ms, obj.alpha] + [x for x in obj.Nr] + [x for x in obj.Mr])


def make_pool(rng):
    """shared argument objects"""
    mb, a = gen.gen_imf(rng, 3)
    pool = {
        "BH_kwargs": {} if rng.random() < 0.7 else None,
        "WD_kwargs": {} if rng.random() < 0.7 else None,
        "m_breaks": list(mb), "a_slopes": list(a),
        "nbins": [rng.randint(2, 5) for _ in a] if rng.random() < 0.7 else rng.randint(6, 14),
        "tout": np.array(sorted(gen.gen_tout(rng, rng.choice([1, 2])))) if rng.random() < 0.5 else sorted(gen.gen_tout(rng, rng.choice([1, 2]))),
        "imf": PowerLawIMF(list(mb), list(a), N0=rng.choice([1, 5e5])),
        "f_BH": None,
    }
    # the BH-fraction targets are an argument object too: shared between constructions, as an ndarray (which the constructor may alias) or a list,
    # with targets on both sides of the fraction that forms (non-strict mode: unreachable ones only warn)
    n = len(np.atleast_1d(pool["tout"]))
    u = rng.random()
    vals = [rng.choice([1e-5, 0.003, 0.02, 0.2, 0.5]) for _ in range(n)]
    pool["f_BH"] = np.array(vals) if u < 0.6 else (vals if u < 0.85 else None)
    return pool


def gen_history(rng):
    pool_seed = rng.randrange(10 ** 9)
    calls = []
    for _ in range(rng.randint(2, 8)):
        kind = rng.choice(["IFMR", "IFMR", "MassBins", "EvolvedMF", "EvolvedMF", "EvolvedMFWithBH", "InitialBHPopulation", "InitialBHPopulation",
                           "BHMF"])
        feh = rng.choice([-2.0, -1.5, -1.0, -0.5, 0.0, 0.3, round(rng.uniform(-2.5, 0.4), 2)])
        bh = rng.choice(["banerjee20", "banerjee20", "banerjee20-delayed", "cosmic-rapid"])
        calls.append({"kind": kind, "FeH": feh, "BH_method": bh, "N0": rng.choice([1e5, 5e5]), "share_kwargs": rng.random() < 0.8})
    return {"pool_seed": pool_seed, "calls": calls}


def do_call(c, pool, fresh=False):
    """perform one call; `fresh=True` rebuilds every argument from literals (deep copies of the *original* pool)"""
    p = copy.deepcopy(pool) if fresh else pool
    bhk = p["BH_kwargs"] if c["share_kwargs"] else None
    wdk = p["WD_kwargs"] if c["share_kwargs"] else None
    with warnings.catch_warnings():
        warnings.simplefilter("ignore")
        if c["kind"] == "IFMR":
            return ifmr.IFMR(c["FeH"], BH_method=c["BH_method"], BH_kwargs=bhk, WD_kwargs=wdk)
        if c["kind"] == "MassBins":
            im = ifmr.IFMR(c["FeH"], BH_method=c["BH_method"], BH_kwargs=bhk, WD_kwargs=wdk)
            return MassBins(p["m_breaks"], p["nbins"], p["imf"], im)
        if c["kind"] == "EvolvedMF":
            return evolve_mf.EvolvedMF(p["imf"], p["nbins"], c["FeH"], p["tout"], 0.0, N0=c["N0"], BH_IFMR_method=c["BH_method"],
                                       BH_IFMR_kwargs=bhk, WD_IFMR_kwargs=wdk, binning_breaks=p["m_breaks"])
        if c["kind"] == "EvolvedMFWithBH":
            n = len(np.atleast_1d(p["tout"]))
            fb = p["f_BH"] if p.get("f_BH") is not None else [1e-5] * n
            return evolve_mf.EvolvedMFWithBH(p["imf"], p["nbins"], c["FeH"], p["tout"], 0.0, fb, N0=c["N0"], strict_BH_target=False,
                                             BH_IFMR_method=c["BH_method"], BH_IFMR_kwargs=bhk, WD_IFMR_kwargs=wdk)
        if c["kind"] == "InitialBHPopulation":
            return evolve_mf.InitialBHPopulation.from_IMF(p["imf"], p["nbins"], c["FeH"], N0=c["N0"], natal_kicks=False,
                                                          BH_IFMR_method=c["BH_method"], BH_IFMR_kwargs=bhk, WD_IFMR_kwargs=wdk)
        if c["kind"] == "BHMF":
            return evolve_mf.InitialBHPopulation.from_BHMF([5.0, 20.0, 50.0], [-1.0, -2.0], [4, 4], c["FeH"], N0=1000, natal_kicks=False,
                                                           BH_IFMR_method=c["BH_method"], BH_IFMR_kwargs=bhk, WD_IFMR_kwargs=wdk)
    raise ValueError(c["kind"])


# ------------------------------------------------------------------ fresh-interpreter references (process-wide hidden state)
HARNESS = str(pathlib.Path(__file__).resolve().parents[1])
_FRESH = "import sys; sys.path.insert(0, %r); from props import C16; C16._fresh_main()" % HARNESS


def digest(rb):
    return hashlib.sha256(pickle.dumps(rb, protocol=4)).hexdigest()


def _fresh_main():
    """child: build call i of the history as the very first construction of this interpreter and print the digest of the result"""
    import random
    req = json.loads(sys.stdin.read())
    pool = make_pool(random.Random(req["hist"]["pool_seed"]))
    try:
        res = do_call(req["hist"]["calls"][req["i"]], pool, fresh=True)
        print("DIGEST " + digest(result_bytes(res)))
    except Exception as e:
        print("ERROR " + f"{type(e).__name__}: {e}"[:140])


def fresh_digest(hist, i):
    try:
        out = subprocess.run([sys.executable, "-c", _FRESH], input=json.dumps({"hist": hist, "i": i}), capture_output=True, text=True,
                             timeout=600, env=dict(os.environ))
    except subprocess.TimeoutExpired:
        return None
    for line in out.stdout.splitlines():
        if line.startswith("DIGEST "):
            return line.split()[1]
    return None          # no reference (the child raised or timed out): the clause is not evaluated for this call


def fresh_digests(hists, workers=16):
    """{(history index, call index): digest} for every call of every history, each in its own interpreter"""
    tasks = [(h, i) for h, hist in enumerate(hists) for i in range(len(hist["calls"]))]
    with ThreadPoolExecutor(max_workers=workers) as ex:
        vals = list(ex.map(lambda t: fresh_digest(hists[t[0]], t[1]), tasks))
    return dict(zip(tasks, vals))


def check_history(hist, refs=None):
    """refs: {call index: digest of the same call built first in a fresh interpreter} (None = compute them here when hist['fresh'] is set)"""
    import random
    if refs is None and hist.get("fresh"):
        d = fresh_digests([hist], workers=8)
        refs = {i: v for (_, i), v in d.items()}
    pool = make_pool(random.Random(hist["pool_seed"]))
    original = copy.deepcopy(pool)
    s0 = {k: snap(v) for k, v in pool.items()}
    built = []
    for i, c in enumerate(hist["calls"]):
        try:
            res = do_call(c, pool)
        except Exception as e:
            return {"clause": "construction raised", "call": i, "observed": f"{type(e).__name__}: {e}"[:140]}
        after = {k: snap(v) for k, v in pool.items()}
        changed = [k for k in s0 if after[k] != s0[k]]
        if changed:
            return {"clause": "building a model leaves every argument object unchanged", "call": i, "kind": c["kind"], "changed": changed,
                    "now": {k: repr(pool[k])[:80] for k in changed}}
        try:
            ref = do_call(c, original, fresh=True)
        except Exception as e:
            return {"clause": "fresh construction raised", "call": i, "observed": f"{type(e).__name__}: {e}"[:140]}
        rb = result_bytes(res)
        if rb != result_bytes(ref):
            return {"clause": "the same model built after other constructions that share argument objects is bit-identical to a fresh build",
                    "call": i, "kind": c["kind"], "FeH": c["FeH"]}
        if refs and refs.get(i) is not None and digest(rb) != refs[i]:
            return {"clause": "the same model built as the first construction of a fresh interpreter is bit-identical (process-wide hidden state)",
                    "call": i, "kind": c["kind"], "FeH": c["FeH"]}
        built.append((i, c, res, rb))
    # no hidden state: what an earlier construction returned is not altered by later ones
    for i, c, res, rb in built:
        if result_bytes(res) != rb:
            return {"clause": "a result already returned is not changed by later constructions (hidden shared state)", "call": i, "kind": c["kind"],
                    "FeH": c["FeH"]}
    return None


def check_inplace(rng):
    M = np.array([10.0, 20.0, 300.0]); N = np.array([2.0, 2.0, 20.0])
    a, b, e = kicks.natal_kicks(M, N, method="sigmoid", slope=0.5, scale=10)
    if a is not M or b is not N:
        return {"clause": "natal_kicks returns the very arrays it was given"}
    o = evolve_mf.EvolvedMF.__new__(evolve_mf.EvolvedMF); o.BH_ret_dyn = 0.5
    a, b = o._dyn_eject_BH(M, N)
    if a is not M or b is not N:
        return {"clause": "_dyn_eject_BH returns the very arrays it was given"}
    o2 = evolve_mf.EvolvedMFWithBH.__new__(evolve_mf.EvolvedMFWithBH)
    a, b = o2._dyn_eject_BH(M, N, 1e4, 1e-3)
    if a is not M or b is not N:
        return {"clause": "EvolvedMFWithBH._dyn_eject_BH returns the very arrays it was given"}
    return None


def corr(ctx):
    """static table vs dynamic behaviour: a function without (undocumented) sites must not change its arguments"""
    tr = translate.run()
    und = [s for s in tr["sites"] if not s["documented"]]
    by_func = {}
    for s in und:
        by_func.setdefault(s["func"], set()).add(s["object"])
    n = ctx.n(12, 400)
    for _ in range(n):
        hist = gen_history(ctx.rng)
        hist["calls"] = hist["calls"][:3]
        bad = check_history(hist)
        dyn_mut = bool(bad and bad.get("clause", "").startswith("building a model leaves"))
        static_mut = bool(by_func)       # the table predicts mutation somewhere iff it lists an undocumented site
        ok = (not dyn_mut) or static_mut   # dynamic mutation must be predicted by the table
        ctx.corr_case("mutation_table", ok and not (static_mut and False), {"history": hist, "dynamic": bad, "static_undocumented": sorted(by_func)},
                      branch="mutation-observed" if dyn_mut else "clean")
    ctx.sample({"undocumented_sites": und[:5], "n_sites": len(tr["sites"])})


def sweep(ctx):
    eff = getattr(ctx, "effort", 1)
    hists = [gen_history(ctx.rng) for _ in range(ctx.n(24, 1000) * eff)]
    # fresh-interpreter references for the first histories (every one in the quick tier): one interpreter per call, 16 at a time
    nfresh = min(len(hists), 24 * eff if len(hists) <= 24 * eff else 120)
    for hist in hists[:nfresh]:
        hist["fresh"] = True
    d = fresh_digests(hists[:nfresh])
    for k, hist in enumerate(hists):
        refs = {i: v for (h, i), v in d.items() if h == k} if k < nfresh else None
        bad = check_history(hist, refs=refs or None)
        ctx.sweep_case("histories", repr(hist), bad is None, {"failing_input": {"call": "history", "args": hist}, "observed": bad},
                       branch="len=%d" % len(hist["calls"]))
    bad = check_inplace(ctx.rng)
    ctx.sweep_case("inplace", "fixed", bad is None, {"failing_input": {"call": "inplace", "args": {}}, "observed": bad})


def replay(ctx, fi):
    if fi["call"] == "history":
        return check_history(fi["args"])
    if fi["call"] == "inplace":
        return check_inplace(ctx.rng)
    raise ValueError(fi["call"])


def classify(entry, failure):
    return False
