"""C02 — stellar evolution turns stars into remnants without creating or losing any."""
import math, warnings
import numpy as np
from common import h, uh, hl, jf, jfl, unjf, close, run_driver, loguniform
import real, gen
from real import evolve_mf, Pk

TRUSTED = ["numpy/FITPACK/Polynomial evaluation vs the model (1e-11 relative)", "dopri5 (trajectory clauses are checked on its output rows)"]
ASSUMPTIONS = ["trajectory clauses (total number conserved, star counts never grow, total mass never increases) are about exact solutions; "
               "on dopri5 output they are checked with the integrator's tolerance"]
RULE = ("corr: the stellar-evolution derivative on synthetic states (any non-negative counts, zeros anywhere, any slopes, ages log-uniform "
        "in 1..20000 Myr so every bin is the turn-off bin) and on states recorded from real runs, for random IMF/layout/metallicity/IFMR "
        "method/retention: support (which entries are non-zero), class, bin index exactly; values to 1e-11; sweep: sums over the real "
        "derivative and per-row totals of real multi-age runs; distinct = distinct (configuration, t, y)")


def gen_model(ctx, small=True):
    cfg = gen.gen_config(ctx.rng, small=small, kicks=False)
    cfg["tout"] = [1.0]
    return cfg


def synth_state(rng, f, t):
    mb = f.massbins
    y0 = mb.initial_values(N0=f.N0)
    parts = mb.unpack_values(y0.copy())
    Ns, alpha = parts[0].copy(), parts[1].copy()
    mode = rng.random()
    if mode < 0.4:
        Ns *= np.array([rng.choice([1.0, 1.0, 0.5, 0.0, 1e-7, 1e-3]) for _ in Ns])
    elif mode < 0.6:
        Ns = np.array([loguniform(rng, 1e-3, 1e6) if rng.random() < 0.85 else 0.0 for _ in Ns])
    if rng.random() < 0.3:
        alpha = np.array([rng.choice([-1.0, -2.0, -2.35, 0.0]) if rng.random() < 0.3 else rng.uniform(-4, 2) for _ in alpha])
    # remnants: counts anywhere (zeros included); masses consistent with them (mean mass inside the bin)
    Nrem, Mrem = [], []
    for cls in ("WD", "NS", "BH"):
        b = getattr(mb.bins, cls)
        n = np.array([loguniform(rng, 1e-2, 1e4) if rng.random() < 0.6 else 0.0 for _ in np.atleast_1d(b.lower)])
        mean = np.array([rng.uniform(float(l), float(u)) for l, u in zip(np.atleast_1d(b.lower), np.atleast_1d(b.upper))])
        Nrem.append(n); Mrem.append(n * mean)
    return mb.pack_values(Ns, alpha, *Nrem, *Mrem)


def real_sev(f, t, y):
    try:
        with np.errstate(all="ignore"):
            d = f._derivs_sev(t, y)
        return "ok", d
    except ValueError as e:
        return ("err below" if "below" in str(e) else "err above"), None


def compare(ctx, f, t, y, o, tag):
    kind, d = real_sev(f, t, y)
    mb = f.massbins
    detail = {"tag": tag, "cfg": getattr(f, "_cfg", None), "t": jf(t), "y": jfl(y), "real": kind, "model": o[:200]}
    if not o.startswith("ok"):
        ctx.corr_case("derivsSev", kind == o, detail, branch=o)
        return
    if kind != "ok":
        ctx.corr_case("derivsSev", False, detail, branch="real-raises")
        return
    toks = o.split()
    # branch thresholds: a turn-off mass within a few ulp of the bin's lower edge, or a count within rounding of Nmin,
    # may legitimately fall on either side in the two float evaluations -> indeterminate, not a disagreement
    near = False
    if toks[1] != "-":
        j = int(toks[1])
        m1_ = float(mb.bins.MS.lower[j]); mt_ = float(f.compute_mto(t))
        Nj_ = float(mb.unpack_values(y)[0][j])
        near = abs(mt_ - m1_) <= 8e-16 * mt_ or abs(Nj_ - f.Nmin) <= 1e-15
    # an age within rounding of a bin-edge lifetime: `t > tms_u[j]` may flip between the model's and numpy's evaluation of tms_u
    near = near or any(abs(t - float(x)) <= 4e-16 * float(x) for x in np.atleast_1d(f.tms_u))
    if near:
        ctx.corr_case("derivsSev", True, detail, branch="threshold", indeterminate=True)
        return
    dNs, dal, dNwd, dNns, dNbh, dMwd, dMns, dMbh = mb.unpack_values(d)
    nz_s = list(np.flatnonzero(dNs))
    rem = {"WD": (dNwd, dMwd), "NS": (dNns, dMns), "BH": (dNbh, dMbh)}
    nz_r = [(c, int(i)) for c, (a, b) in rem.items() for i in np.flatnonzero((a != 0) | (b != 0))]
    ok = not np.any(dal != 0)
    isev, mdNs, defined = toks[1], uh(toks[2]), toks[3] == "true"
    has_nan = bool(np.isnan(d).any())
    if not defined:
        ok &= has_nan
        ctx.corr_case("derivsSev", ok, detail, branch="nan-thin-bin")
        return
    if has_nan:
        ctx.corr_case("derivsSev", False, detail, branch="real-nan-only"); return
    rel = 1e-11
    if isev != "-" and mdNs != 0:
        # conditioning of N_j / Pk(alpha_j, 1, m1, mto): Pk cancels when the truncated bin is thin
        from props.C12 import scale_of
        j = int(isev)
        parts = mb.unpack_values(y)
        aj, m1 = float(parts[1][j]), float(mb.bins.MS.lower[j])
        mto_ = float(f.compute_mto(t))
        pj = float(Pk(aj, 1, m1, mto_))
        if pj > 0:
            rel += 1e-14 * scale_of(aj, 1.0, m1, mto_) / pj
        if mto_ > m1:
            rel += 1e-14 * mto_ / (mto_ - m1)       # the turn-off mass itself carries ~1 ulp of rounding
    if isev == "-" or mdNs == 0:
        ok &= (nz_s == [])
    else:
        ok &= (nz_s == [int(isev)]) and close(float(dNs[int(isev)]), mdNs, rel=rel)
    if toks[4] == "-":
        ok &= (nz_r == [])
        br = "no-deposit"
    else:
        cls, irem, mdN, mdM = toks[4], int(toks[5]), uh(toks[6]), uh(toks[7])
        relM = rel
        if cls == "WD" and isinstance(f.IFMR._WD_spline, np.polynomial.Polynomial):
            # the degree-10 WD polynomial cancels (terms ~1e4 sum to ~1): condition number of its evaluation
            x = float(f.compute_mto(t))
            c = f.IFMR._WD_spline.coef
            val = abs(float(f.IFMR._WD_spline(x)))
            if val > 0:
                relM += 1e-14 * float(np.sum(np.abs(c) * x ** np.arange(len(c)))) / val
        if mdN == 0 and mdM == 0:
            ok &= (nz_r == [])
        else:
            ok &= (nz_r == [(cls, irem)]) and close(float(rem[cls][0][irem]), mdN, rel=rel) and close(float(rem[cls][1][irem]), mdM, rel=relM)
        br = f"deposit-{cls}"
    ctx.corr_case("derivsSev", ok, detail, branch=("quiet/" if isev == "-" else "") + br)


def corr(ctx):
    nm = ctx.n(12, 200)
    per = ctx.n(120, 300)
    models = []
    for _ in range(nm):
        cfg = gen_model(ctx)
        try:
            f = gen.build(cfg)
        except Exception:
            continue
        f._cfg = cfg
        models.append((cfg, f))
    lines, meta = [], []
    for cfg, f in models:
        toks = real.sev_cfg_tokens(f, cfg)
        tmin = float(f.tms_u[-1])
        for _ in range(per):
            r = ctx.rng.random()
            if r < 0.08:
                t = tmin * ctx.rng.uniform(0.2, 1.0)
            elif r < 0.2:
                t = float(ctx.rng.choice(list(f.tms_u))) * (1 + ctx.rng.choice([0, 1e-12, -1e-12, 1e-6]))
            else:
                t = loguniform(ctx.rng, max(tmin, 1.0), 2e4)
            y = synth_state(ctx.rng, f, t)
            parts = f.massbins.unpack_values(y)
            lines.append(f"sev {h(t)} {hl(parts[0])} {hl(parts[1])} {toks}")
            meta.append((f, t, y, "synthetic"))
    # states recorded from real runs
    nrec = ctx.n(3, 40)
    for _ in range(nrec):
        cfg = gen.gen_config(ctx.rng, small=True, kicks=False, escape=(ctx.rng.random() < 0.4))
        try:
            f, rec = real.record_states(lambda: gen.build(cfg), max_states=ctx.n(150, 300))
        except Exception:
            continue
        f._cfg = cfg
        toks = real.sev_cfg_tokens(f, cfg)
        for t, y in rec:
            parts = f.massbins.unpack_values(y)
            lines.append(f"sev {h(t)} {hl(parts[0])} {hl(parts[1])} {toks}")
            meta.append((f, t, y, "recorded"))
    outs = run_driver(lines)
    for (f, t, y, tag), o in zip(meta, outs):
        compare(ctx, f, t, y, o, tag)
    if meta:
        ctx.sample({"op": "sev", "t": meta[0][1], "Ns": list(map(float, meta[0][0].massbins.unpack_values(meta[0][2])[0]))[:8], "model": outs[0]})


# ------------------------------------------------------------------ predicates on the real code
def check_state(f, t, y, cfg=None):
    cfg = cfg or f._cfg
    kw = cfg["kw"]
    want_frem = {"WD": 1.0, "NS": kw.get("NS_ret", real.DOC_DEFAULTS["NS_ret"]), "BH": kw.get("BH_ret_int", real.DOC_DEFAULTS["BH_ret_int"])}
    kind, d = real_sev(f, t, y)
    if kind != "ok":
        return {"clause": "remnant lookup raised from inside the derivative", "observed": kind}
    if np.isnan(d).any():
        return "skip"      # truncated turn-off bin thinner than Pk's resolution (C12's NaN rule)
    mb = f.massbins
    dNs, dal, dNwd, dNns, dNbh, dMwd, dMns, dMbh = mb.unpack_values(d)
    if np.any(dal != 0):
        return {"clause": "slopes do not change under stellar evolution"}
    nz = np.flatnonzero(dNs)
    if len(nz) > 1:
        return {"clause": "stars leave only one bin", "observed": nz.tolist()}
    if np.any(dNs > 0):
        return {"clause": "per-bin star counts never grow"}
    if len(nz) == 0:
        if any(np.any(x != 0) for x in (dNwd, dNns, dNbh, dMwd, dMns, dMbh)):
            return {"clause": "no remnants appear when no star leaves"}
        return None
    i = int(nz[0])
    mto_arr = f.compute_mto(t)          # 0-d array, exactly what the derivative itself passes to the IFMR
    mto = float(mto_arr)
    lo, up = mb.bins.MS.lower[i], mb.bins.MS.upper[i]
    if not (lo <= mto < up):
        return {"clause": "stars leave only the bin containing the turn-off mass", "bin": i, "mto": repr(mto)}
    m_rem, cls = f.IFMR.predict(mto_arr), f.IFMR.predict_type(mto_arr)
    flux = -float(dNs[i])
    dN = {"WD": dNwd, "NS": dNns, "BH": dNbh}; dM = {"WD": dMwd, "NS": dMns, "BH": dMbh}
    if m_rem > 0:
        frem = want_frem[cls]
        b = getattr(mb.bins, cls)
        idx = [k for k in range(len(b.lower)) if b.lower[k] <= m_rem < b.upper[k]]
        if len(idx) != 1:
            return "skip"    # C09's business: remnant mass outside every bin of its class
        for c in dN:
            for k in range(len(dN[c])):
                wantN = frem * flux if (c == cls and k == idx[0]) else 0.0
                if not (abs(dN[c][k] - wantN) <= 1e-12 * flux and abs(dM[c][k] - m_rem * wantN) <= 1e-12 * flux * max(m_rem, 1)):
                    return {"clause": "every leaving star re-appears in the IFMR's class and bin, scaled by the retention fraction, with the IFMR mass",
                            "class": c, "bin": k, "observed": [repr(float(dN[c][k])), repr(float(dM[c][k]))], "expected": [repr(wantN), repr(m_rem * wantN)]}
        if m_rem > mto * (1 + 1e-12):
            return {"clause": "remnant mass never exceeds the progenitor's", "m_rem": repr(m_rem), "mto": repr(mto)}
    else:
        if any(np.any(x != 0) for x in (dNwd, dNns, dNbh, dMwd, dMns, dMbh)):
            return {"clause": "zero-mass remnants are skipped"}
    return None


def rows_worker(cfg):
    try:
        f = gen.build(cfg, NS_ret=1.0, BH_ret_int=1.0, BH_ret_dyn=1.0, natal_kicks=False)
    except Exception as e:
        return {"cfg": cfg, "error": f"{type(e).__name__}: {e}"[:200]}
    Nr = np.c_[f.Nr]; Mr = np.c_[f.Mr]
    return {"cfg": cfg, "converged": bool(f.converged), "Ntot": (f.Ns.sum(axis=1) + np.nansum(Nr, axis=1)).tolist(),
            "Mtot": (f.Ms.sum(axis=1) + np.nansum(Mr, axis=1)).tolist(), "Ns": f.Ns.tolist(), "N0": f.N0,
            "nan": bool(np.isnan(f.Ns).any() or np.isnan(Nr).any() or np.isnan(f.Ms).any())}


def check_rows(res):
    if "error" in res or not res.get("converged") or res.get("nan"):
        return "skip"      # C04's business
    cfg = res["cfg"]
    order = np.argsort(cfg["tout"])
    N0 = res["N0"]
    nbins = len(res["Ns"][0])
    budget = 2e-3 * N0 + 0.1 * nbins          # integrator accuracy (atol=rtol=1e-5 per step) + empty-bin residue
    for i in order:
        if not abs(res["Ntot"][i] - N0) <= budget:
            return {"clause": "with all remnants retained and no escape the number of objects stays N0", "row": int(i),
                    "observed": repr(res["Ntot"][i]), "expected": repr(N0), "budget": budget}
    for a, b in zip(order[:-1], order[1:]):
        if res["Mtot"][b] > res["Mtot"][a] * (1 + 1e-4):
            return {"clause": "total mass never increases with age", "rows": [int(a), int(b)]}
        ns_a, ns_b = np.array(res["Ns"][a]), np.array(res["Ns"][b])
        if np.any(ns_b > ns_a * (1 + 1e-4) + 1e-3):
            return {"clause": "per-bin star counts never grow", "rows": [int(a), int(b)]}
    return None


def sweep(ctx):
    eff = getattr(ctx, "effort", 1)
    nm = ctx.n(10, 150) * eff
    for _ in range(nm):
        cfg = gen_model(ctx)
        try:
            f = gen.build(cfg)
        except Exception:
            continue
        f._cfg = cfg
        tmin = float(f.tms_u[-1])
        for _ in range(ctx.n(60, 200)):
            t = loguniform(ctx.rng, max(tmin, 1.0), 2e4)
            y = synth_state(ctx.rng, f, t)
            bad = check_state(f, t, y)
            ctx.sweep_case("derivative", (repr(cfg), t, y.tobytes()), bad in (None, "skip"),
                           {"failing_input": {"call": "state", "args": {"cfg": cfg, "t": jf(t), "y": jfl(y)}}, "observed": bad},
                           branch="skipped" if bad == "skip" else "evaluated")
    cfgs = []
    for _ in range(ctx.n(30, 600) * eff):
        cfg = gen.gen_config(ctx.rng, small=True, kicks=False)
        cfg["tout"] = gen.gen_tout(ctx.rng, ctx.rng.choice([2, 3, 4]))
        cfgs.append(cfg)
    for res in gen.pmap(rows_worker, cfgs):
        bad = check_rows(res)
        ctx.sweep_case("rows", repr(res["cfg"]), bad in (None, "skip"),
                       {"failing_input": {"call": "rows", "args": {"cfg": res["cfg"]}}, "observed": bad},
                       branch="skipped" if bad == "skip" else "evaluated")


def replay(ctx, fi):
    a = fi["args"]
    if fi["call"] == "state":
        f = gen.build(a["cfg"])
        r = check_state(f, unjf(a["t"]), np.array([unjf(x) for x in a["y"]]), a["cfg"])
        return None if r == "skip" else r
    if fi["call"] == "rows":
        r = check_rows(rows_worker(a["cfg"]))
        return None if r == "skip" else r
    raise ValueError(fi["call"])


def classify(entry, failure):
    return False
