"""C10 — any metallicity is accepted and snapped to the nearest tabulated model."""
import math, os, re
import numpy as np
from common import h, uh, jf, unjf, run_driver
import real
from real import ifmr, kicks, evolve_mf, MSTO

TRUSTED = ["Python's format(x, '+.2f') vs the model's exact half-even rounding of the binary value (compared on 1e5 floats)"]
ASSUMPTIONS = ["which file/row is used is observed by wrapping numpy.loadtxt from outside"]
RULE = ("corr: format/clamp on floats incl. exact binary ties (x.125, x.375…), ±0.0, ±tiny, beyond both grid ends, 0.001-resolution sweep "
        "of [-4, 2] for each of the four table families; which file every predictor / kick routine actually opens, which WD / lifetime row "
        "is selected; sweep: the opened table is the nearest tabulated metallicity of its own family (exact ties excluded); "
        "distinct = distinct (family, FeH)")
FAMILIES = {"uSSE_rapid": ("banerjee20", ifmr._Ba20_r_BH_predictor), "uSSE_delayed": ("banerjee20-delayed", ifmr._Ba20_d_BH_predictor),
            "COSMIC_rapid": ("cosmic-rapid", ifmr._COSMIC_r_BH_predictor), "COSMIC_delayed": ("cosmic-delayed", ifmr._COSMIC_d_BH_predictor)}
_grids = {}


def grid(fam):
    if fam not in _grids:
        names = sorted(p.stem.split("FEH")[-1] for p in ifmr.get_data(f"ifmr/{fam}").glob("*dat"))
        vals = sorted(set(int(round(float(n) * 100)) for n in names))
        _grids[fam] = (names, vals)
    return _grids[fam]


class LoadSpy:
    """records every file numpy.loadtxt is asked to open"""

    def __enter__(self):
        self.files = []
        self._orig = np.loadtxt

        def spy(fname, *a, **k):
            self.files.append(str(fname))
            return self._orig(fname, *a, **k)
        np.loadtxt = spy
        return self

    def __exit__(self, *a):
        np.loadtxt = self._orig


def gen_feh(rng):
    r = rng.random()
    if r < 0.35:
        return round(rng.uniform(-4, 2), 3)
    if r < 0.5:
        return rng.choice([-1, 1]) * (rng.randint(0, 300) + rng.choice([0.125, 0.375, 0.625, 0.875, 0.5])) / 100   # binary-exact ties
    if r < 0.6:
        return rng.choice([0.0, -0.0, 1e-12, -1e-12, 0.004, -0.004, 0.005, -0.005, 0.0049999, -0.0050001])
    if r < 0.7:
        return rng.choice([-2.5, 0.4, 0.5, -2.505, 0.405, 0.505, -2.4951, 0.3951])
    if r < 0.8:
        return rng.uniform(-6, 4)
    return rng.uniform(-2.6, 0.6)


def corr(ctx):
    n = ctx.n(20000, 100000)
    xs = [gen_feh(ctx.rng) for _ in range(n)] + [i / 1000 for i in range(-4000, 2001, ctx.n(7, 1))]
    outs = run_driver([f"fmt {h(x)}" for x in xs])
    for x, o in zip(xs, outs):
        ctx.corr_case("format", format(x, "+.2f") == o, {"x": jf(x), "python": format(x, "+.2f"), "model": o},
                      branch="tie" if abs(x * 100 * 8 - round(x * 100 * 8)) == 0 and abs(x * 100 - round(x * 100)) == 0.5 else "zero" if o[1:] == "0.00" else "plain")
    # which file each family opens
    nf = ctx.n(150, 1500)
    for fam, (method, pred) in FAMILIES.items():
        names, vals = grid(fam)
        lo, hi = vals[0], vals[-1]
        fehs = [gen_feh(ctx.rng) for _ in range(nf)]
        outs = run_driver([f"snap {lo} {hi} {h(x)}" for x in fehs])
        for x, o in zip(fehs, outs):
            with LoadSpy() as spy:
                try:
                    pred(x)
                    err = None
                except Exception as e:
                    err = f"{type(e).__name__}: {e}"[:100]
            opened = [re.search(r"FEH([+-]\d+\.\d+)\.dat", f).group(1) for f in spy.files if "FEH" in f]
            ok = err is None and opened == [o] and (o in names)
            ctx.corr_case("file_opened", ok, {"family": fam, "FeH": jf(x), "opened": opened, "model": o, "error": err},
                          branch=fam + ("/clamped" if x * 100 < lo or x * 100 > hi else ""))
    # kick fallback tables + clamp consistency in the model constructors
    names, vals = grid("uSSE_rapid")
    for _ in range(ctx.n(40, 400)):
        x = gen_feh(ctx.rng)
        which = ctx.rng.choice(["EvolvedMF", "EvolvedMF", "InitialBHPopulation"])
        got, err = kick_tables(which, x)
        want = run_driver([f"snap {vals[0]} {vals[-1]} {h(x)}"])[0]
        # the predictor opens one table, the kick routine at least one more: a run in which the kick table was never
        # reached would say nothing about it
        ctx.corr_case("kick_table", err is None and len(got) >= 2 and set(got) == {want},
                      {"class": which, "FeH": jf(x), "opened": got, "model": want, "error": err},
                      branch=which + ("/clamped" if x * 100 < vals[0] or x * 100 > vals[-1] else ""))
    # WD and lifetime rows
    wdgrid = np.loadtxt(ifmr.get_data("sevtables/wdifmr.dat"))
    fehs = [gen_feh(ctx.rng) for _ in range(ctx.n(200, 2000))]
    o_wd = run_driver(["argmin " + h(min(max(x, wdgrid[0, 0]), wdgrid[-1, 0])) + " " + " ".join(h(g) for g in wdgrid[:, 0]) for x in fehs])
    o_ms = run_driver(["argmin " + h(x) + " " + " ".join(h(g) for g in MSTO[:, 0]) for x in fehs])
    for x, a, b in zip(fehs, o_wd, o_ms):
        spl, mi, mf = ifmr._MIST18_WD_predictor(x)
        ctx.corr_case("wd_row", float(mi.upper) == float(wdgrid[int(a), 1]), {"FeH": jf(x), "model_row": a, "real_m_max": repr(float(mi.upper))})
        e = real.quick_emf(FeH=x, nbins=(1, 1, 2)) if ctx.rng.random() < 0.1 else None
        if e is not None:
            ctx.corr_case("msto_row", np.array_equal(e._tms_constants, MSTO[int(b), 1:]), {"FeH": jf(x), "model_row": b})
    ctx.sample({"op": "snap", "x": fehs[0], "model_wd_row": o_wd[0], "model_msto_row": o_ms[0]})


def kick_tables(which, x):
    """uSSE_rapid tables opened while a model with Maxwellian natal kicks is built and evolved past BH formation
    (retention chosen so that the 'kick basically all' shortcut is not taken and the kick routine is reached)"""
    import warnings
    with LoadSpy() as spy:
        try:
            if which == "EvolvedMF":
                real.quick_emf(FeH=x, nbins=(1, 1, 2), tout=(30.0,), natal_kicks=True, kick_method="maxwellian", BH_ret_dyn=0.3, vesc=200.0)
            else:
                from ssptools.masses import PowerLawIMF
                with warnings.catch_warnings():
                    warnings.simplefilter("ignore")
                    evolve_mf.InitialBHPopulation.from_IMF(PowerLawIMF([0.1, 0.5, 1.0, 100.0], [-0.5, -1.3, -2.5], N0=5e5), [1, 1, 2], x,
                                                           natal_kicks=True, kick_method="maxwellian", vesc=200.0)
            err = None
        except Exception as e:
            err = f"{type(e).__name__}: {e}"[:160]
    return [re.search(r"FEH([+-]\d+\.\d+)\.dat", f).group(1) for f in spy.files if "uSSE_rapid" in f], err


# ------------------------------------------------------------------ predicate on the real code
def check_kicks(which, x):
    names, vals = grid("uSSE_rapid")
    got, err = kick_tables(which, x)
    if err is not None:
        return {"clause": "every metallicity is accepted by a model with natal kicks", "observed": err}
    if len(got) < 2:
        return None
    best = min(abs(x - v / 100) for v in vals)
    for g in got:
        if abs(x - float(g)) > best + 1e-12:
            return {"clause": "the kick fallback table is the nearest tabulated metallicity", "opened": got, "best": best}
    return None


def check_nearest(fam, x):
    method, pred = FAMILIES[fam]
    names, vals = grid(fam)
    with LoadSpy() as spy:
        try:
            pred(x)
        except Exception as e:
            return {"clause": "every metallicity is accepted (a table is available)", "observed": f"{type(e).__name__}: {e}"[:160]}
    opened = [re.search(r"FEH([+-]\d+\.\d+)\.dat", f).group(1) for f in spy.files if "FEH" in f]
    if len(opened) != 1:
        return {"clause": "exactly one table is read", "observed": opened}
    g = float(opened[0])
    d = abs(x - g)
    best = min(abs(x - v / 100) for v in vals)
    if d > best + 1e-12:          # exact ties between two grid points: either neighbour is accepted
        return {"clause": "the table opened is the nearest tabulated metallicity (clamped at the grid ends)", "opened": opened[0],
                "distance": d, "best": best}
    return None


def check_kick_direct(x, sne):
    """the kick routine's own table lookup, fed as the constructors feed it (metallicity clamped to the uSSE grid first)"""
    fam = f"uSSE_{sne}"
    names, vals = grid(fam)
    with LoadSpy() as spy:
        try:
            kicks._F12_fallback_frac(ifmr._check_IFMR_FeH_bounds(x, loc=f"ifmr/{fam}") if sne != "rapid" else ifmr._check_IFMR_FeH_bounds(x),
                                     SNe_method=sne)
        except Exception as e:
            return {"clause": "kick fallback fractions are available for every metallicity", "observed": f"{type(e).__name__}: {e}"[:160]}
    opened = [re.search(r"FEH([+-]\d+\.\d+)\.dat", f).group(1) for f in spy.files if "FEH" in f]
    if len(opened) != 1:
        return {"clause": "exactly one fallback table is read", "observed": opened}
    best = min(abs(x - v / 100) for v in vals)
    if abs(x - float(opened[0])) > best + 1e-12:
        return {"clause": "kick fallback fractions are those of the nearest tabulated metallicity", "opened": opened[0], "best": best}
    return None


def check_rows(x):
    wdgrid = np.loadtxt(ifmr.get_data("sevtables/wdifmr.dat"))
    spl, mi, mf = ifmr._MIST18_WD_predictor(x)
    j = int(np.flatnonzero(wdgrid[:, 1] == mi.upper)[0])
    if abs(wdgrid[j, 0] - x) > min(abs(wdgrid[:, 0] - x)) + 1e-12:
        return {"clause": "WD relation of the nearest tabulated metallicity", "row": j}
    e = real.quick_emf(FeH=x, nbins=(1, 1, 2))
    j = int(np.flatnonzero((MSTO[:, 1:] == e._tms_constants).all(axis=1))[0])
    if abs(MSTO[j, 0] - x) > min(abs(MSTO[:, 0] - x)) + 1e-12:
        return {"clause": "lifetimes of the nearest tabulated metallicity", "row": j}
    return None


def sweep(ctx):
    eff = getattr(ctx, "effort", 1)
    step = ctx.n(40, 1)           # thorough: full 0.001 resolution over [-4, 2]
    for fam in FAMILIES:
        xs = [i / 1000 for i in range(-4000, 2001, step)] + [gen_feh(ctx.rng) for _ in range(ctx.n(100, 3000) * eff)]
        for x in xs:
            bad = check_nearest(fam, x)
            ctx.sweep_case("nearest_table", (fam, x), bad is None, {"failing_input": {"call": "nearest", "args": {"family": fam, "FeH": jf(x)}}, "observed": bad}, branch=fam)
    for sne in ("rapid", "delayed"):
        xs = [i / 1000 for i in range(-4000, 2001, ctx.n(7, 1))] + [gen_feh(ctx.rng) for _ in range(ctx.n(100, 2000) * eff)]
        for x in xs:
            bad = check_kick_direct(x, sne)
            ctx.sweep_case("kick_lookup", (sne, x), bad is None, {"failing_input": {"call": "kick_direct", "args": {"FeH": jf(x), "sne": sne}}, "observed": bad},
                           branch=sne)
    for _ in range(ctx.n(40, 400) * eff):
        x = gen_feh(ctx.rng)
        which = ctx.rng.choice(["EvolvedMF", "InitialBHPopulation"])
        bad = check_kicks(which, x)
        ctx.sweep_case("kick_tables", (which, x), bad is None, {"failing_input": {"call": "kicks", "args": {"class": which, "FeH": jf(x)}}, "observed": bad},
                       branch=which)
    for _ in range(ctx.n(40, 600) * eff):
        x = gen_feh(ctx.rng)
        bad = check_rows(x)
        ctx.sweep_case("nearest_rows", x, bad is None, {"failing_input": {"call": "rows", "args": {"FeH": jf(x)}}, "observed": bad})


def replay(ctx, fi):
    a = fi["args"]
    if fi["call"] == "kick_direct":
        return check_kick_direct(unjf(a["FeH"]), a["sne"])
    if fi["call"] == "kicks":
        return check_kicks(a["class"], unjf(a["FeH"]))
    if fi["call"] == "nearest":
        return check_nearest(a["family"], unjf(a["FeH"]))
    if fi["call"] == "rows":
        return check_rows(unjf(a["FeH"]))
    raise ValueError(fi["call"])


def classify(entry, failure):
    return False
