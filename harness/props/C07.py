"""C07 — dynamical BH retention removes exactly the requested mass, heaviest first."""
import math, warnings
import numpy as np
from common import h, uh, hl, jf, jfl, unjf, close, run_driver, loguniform
import real, gen
from real import evolve_mf

TRUSTED = ["numpy float64 arithmetic vs Lean Float (IEEE, same operations) within 1e-12*scale",
           "dopri5 output taken as given for the row-level comparison (both models run the same solver)"]
ASSUMPTIONS = ["row-level check compares each model with the same configuration at BH_ret_dyn=1 (formed BHs)"]
RULE = ("corr: BH arrays of 0-40 bins with empty bins anywhere, budgets 0 / exact bin sums / fractions / above the total / negative, "
        "vs the real _dyn_eject_BH; row logic vs real constructions (retention × kicks); sweep: the property's clauses evaluated on the "
        "real routine and on real constructions vs their full-retention twins; distinct = distinct (array, budget) pairs / configurations")


def bare():
    o = evolve_mf.EvolvedMF.__new__(evolve_mf.EvolvedMF)
    o.BH_ret_dyn = 1.0
    return o


def gen_bins(rng, nmax=40):
    n = rng.choice([0, 1, 1, 2, 3, 3, 5, 8, 13, rng.randint(0, nmax)])
    M, N = [], []
    for j in range(n):
        r = rng.random()
        if r < 0.25:
            M.append(0.0); N.append(0.0)
        else:
            nn = loguniform(rng, 0.05, 1e4) if rng.random() < 0.9 else loguniform(rng, 1e-6, 0.1)
            mm = loguniform(rng, 3, 80)
            M.append(nn * mm); N.append(nn)
    return M, N


def gen_budget(rng, M):
    tot = sum(M)
    r = rng.random()
    if r < 0.2:
        return 0.0
    if r < 0.35 and M:
        k = rng.randint(0, len(M))
        return float(sum(M[len(M) - k:]))        # exactly a whole number of bins (summed heaviest first or not)
    if r < 0.45:
        return tot
    if r < 0.55:
        return tot * (1 + loguniform(rng, 1e-12, 1.0)) + (1.0 if tot == 0 else 0.0)
    if r < 0.6:
        return -loguniform(rng, 1e-6, 10)
    return tot * rng.random()


def real_eject(M, N, mej):
    Mr, Nr = np.array(M, dtype=float), np.array(N, dtype=float)
    try:
        with np.errstate(all="ignore"):
            a, b = bare()._dyn_eject_BH(Mr, Nr, M_eject=mej)
        return "ok", list(map(float, a)), list(map(float, b)), (a is Mr and b is Nr)
    except ValueError:
        return "ValueError", None, None, None
    except Exception as e:  # anything else is reported as its own kind
        return type(e).__name__, None, None, None


def parse_bins(tokens):
    vals = [uh(t) for t in tokens]
    return vals[0::2], vals[1::2]


def corr(ctx):
    n = ctx.n(20000, 400000)
    cases = []
    for _ in range(n):
        M, N = gen_bins(ctx.rng)
        cases.append((M, N, gen_budget(ctx.rng, M)))
    lines = []
    for M, N, mej in cases:
        flat = []
        for m, nn in zip(reversed(M), reversed(N)):
            flat += [h(m), h(nn)]
        lines.append(f"eject {h(mej)} " + " ".join(flat))
    outs = run_driver(lines)
    for (M, N, mej), o in zip(cases, outs):
        kind, rM, rN, same = real_eject(M, N, mej)
        toks = o.split()
        tot = sum(M)
        branch = ("empty" if not M else "nothing" if mej <= 0 else "over" if mej > tot else "exact-total" if mej == tot else "partial")
        detail = {"M": jfl(M), "N": jfl(N), "M_eject": jf(mej), "real": kind, "model": o[:200]}
        if toks[0] == "err":
            ok, ind = kind == "ValueError", False
            # float: a budget within rounding of the total can go either way (sum order differs)
            if not ok and abs(mej - tot) <= 1e-12 * max(tot, 1e-300):
                ind = True
        elif kind != "ok":
            ok, ind = False, abs(mej - tot) <= 1e-12 * max(tot, 1e-300)
        else:
            defined = toks[1] == "true"
            mM, mN = parse_bins(toks[2:])
            mM, mN = mM[::-1], mN[::-1]
            has_nan = any(math.isnan(x) for x in rM + rN)
            ok = len(mM) == len(rM) and (defined == (not has_nan))
            ind = False
            if ok:
                sc = max([abs(x) for x in M] + [abs(mej), 1e-300])
                for a, b in zip(rM + rN, mM + mN):
                    if not close(a, b, max(sc, abs(a), abs(b))):
                        # a whole-vs-partial decision at an exact tie (M_j == remaining budget) may flip with rounding
                        ok = False
                        ind = any(abs(sum(M[k:]) - mej) <= 1e-12 * max(tot, 1e-300) for k in range(len(M)))
        ctx.corr_case("eject", ok, detail, branch=branch, indeterminate=(not ok) and ind, nontrivial=bool(M))
    ctx.sample({"op": "eject", "M": cases[0][0], "N": cases[0][1], "M_eject": cases[0][2], "model": outs[0][:120]})
    corr_rows(ctx)


# ------------------------------------------------------------------ row level on real constructions
def row_cfgs(ctx, n):
    out = []
    for i in range(n):
        cfg = gen.gen_config(ctx.rng, small=True, kicks=(ctx.rng.random() < 0.5))
        cfg["kw"].pop("BH_IFMR_method", None) if ctx.rng.random() < 0.5 else None
        cfg["tout"] = sorted(set(gen.gen_tout(ctx.rng, ctx.rng.choice([1, 2, 3]))))
        cfg["kw"]["BH_ret_dyn"] = ctx.rng.choice([0.0, 1.0, 0.5, 0.9, 0.99, 0.01, 1e-6, round(ctx.rng.random(), 3)])
        out.append(cfg)
    return out


def row_worker(cfg):
    """build the model and its full-retention, no-kick twin; return BH rows of both (+ error kind)"""
    import real as _r  # noqa
    res = {"cfg": cfg}
    try:
        full = gen.build(cfg, BH_ret_dyn=1.0, natal_kicks=False)
    except Exception as e:
        res["twin_error"] = f"{type(e).__name__}: {e}"[:200]
        return res
    res["formed_M"] = full.Mr.BH.tolist(); res["formed_N"] = full.Nr.BH.tolist()
    res["twin_converged"] = bool(full.converged)
    res["t_bh"] = float(full.compute_tms(full.IFMR.BH_mi.upper))
    res["centre0"] = float(0.5 * (full.massbins.bins.BH.lower[0] + full.massbins.bins.BH.upper[0]))
    res["Nmin"] = float(full.Nmin)
    # per-bin retention the real kick routine would apply to the formed BHs
    rets = []
    if cfg["kw"].get("natal_kicks"):
        from ssptools import kicks as K
        kw = dict(full._kick_kw) if False else None
        obj_kw = gen.build.__globals__  # noqa
    try:
        obj = gen.build(cfg)
        res["M"] = obj.Mr.BH.tolist(); res["N"] = obj.Nr.BH.tolist()
        res["converged"] = bool(obj.converged)
        res["kick_kw"] = {k: (v if not hasattr(v, "item") else float(v)) for k, v in obj._kick_kw.items()}
        res["error"] = None
    except ValueError as e:
        res["error"] = "ValueError"; res["msg"] = str(e)[:160]
    except Exception as e:
        res["error"] = type(e).__name__; res["msg"] = str(e)[:160]
    return res


def retention_list(kick_kw, M, N):
    """retention the real retention function gives each populated bin (what natal_kicks would use)"""
    from ssptools import kicks as K
    kw = dict(kick_kw)
    method = kw.pop("method"); kw.pop("f_kick", None)
    f = K._sigmoid_retention_frac if method.casefold() == "sigmoid" else K._maxwellian_retention_frac
    out = []
    for m, n in zip(M, N):
        out.append(float(f(m / n, **kw)) if n >= 0.1 else 1.0)
    return out


def corr_rows(ctx):
    n = ctx.n(60, 1200)
    results = gen.pmap(row_worker, row_cfgs(ctx, n))
    lines, meta = [], []
    for res in results:
        cfg = res["cfg"]
        if "twin_error" in res or not res.get("twin_converged"):
            ctx.corr_case("roweject", True, None, branch="twin-failed", nontrivial=False)
            continue
        for i, t in enumerate(cfg["tout"]):
            if not t > res["t_bh"]:
                continue
            M, N = res["formed_M"][i], res["formed_N"][i]
            if any(x < 0 for x in M + N):
                ctx.corr_case("roweject", True, None, branch="negative-solver-state", nontrivial=False)
                continue
            rets = []
            if cfg["kw"].get("natal_kicks"):
                try:
                    kk = res.get("kick_kw") or quick_kick_kw(cfg)
                    rets = retention_list(kk, M, N)
                except Exception:
                    continue
            flat = []
            for m, nn in zip(M, N):
                flat += [m, nn]
            lines.append(f"roweject {h(cfg['kw']['BH_ret_dyn'])} {h(res['Nmin'])} {h(res['centre0'])} {hl(flat)} {hl(rets)}")
            meta.append((res, i))
    outs = run_driver(lines)
    # a construction raises as a whole: group rows per configuration
    per_cfg = {}
    for (res, i), o in zip(meta, outs):
        per_cfg.setdefault(id(res), (res, []))[1].append((i, o))
    for res, rows in per_cfg.values():
        cfg = res["cfg"]
        model_err = any(o.startswith("err") for _, o in rows)
        detail = {"cfg": cfg, "real_error": res.get("error"), "model": [o[:160] for _, o in rows][:3]}
        if res.get("error"):
            ok = model_err and res["error"] == "ValueError"
            ctx.corr_case("roweject", ok, detail, branch="raises")
            continue
        if model_err:
            ctx.corr_case("roweject", False, detail, branch="model-raises-only")
            continue
        ok = True
        for i, o in rows:
            toks = o.split()
            mM, mN = parse_bins(toks[2:])
            rM, rN = res["M"][i], res["N"][i]
            sc = max([abs(x) for x in res["formed_M"][i]] + [1e-300])
            scn = max([abs(x) for x in res["formed_N"][i]] + [1e-300])
            for a, b in zip(rM, mM):
                ok &= close(a, b, sc, rel=1e-9)
            for a, b in zip(rN, mN):
                ok &= close(a, b, scn, rel=1e-9)
        br = "kicks" if cfg["kw"].get("natal_kicks") else "nokicks"
        ctx.corr_case("roweject", ok, detail, branch=br + ("/ret=%g" % cfg["kw"]["BH_ret_dyn"] if cfg["kw"]["BH_ret_dyn"] in (0.0, 1.0) else ""))
    if per_cfg:
        res = next(iter(per_cfg.values()))[0]
        ctx.sample({"op": "roweject", "cfg": res["cfg"], "formed_M": res["formed_M"][0][:6], "real_M": (res.get("M") or [[None]])[0][:6]})


def quick_kick_kw(cfg):
    kw = cfg["kw"]
    method = kw.get("kick_method", "maxwellian")
    if method == "sigmoid":
        return dict(method=method, f_kick=None, slope=kw.get("kick_slope", 1), scale=kw.get("kick_scale", 20))
    from ssptools.ifmr import _check_IFMR_FeH_bounds
    return dict(method=method, f_kick=None, vesc=kw.get("vesc", 90), FeH=_check_IFMR_FeH_bounds(cfg["FeH"]), vdisp=kw.get("kick_vdisp", 265.))


# ------------------------------------------------------------------ property predicates on the real code
def check_direct(M, N, mej):
    kind, rM, rN, same = real_eject(M, N, mej)
    tot = sum(M)
    tol = 1e-9 * max(tot, abs(mej), 1e-300)
    if kind not in ("ok", "ValueError"):
        return {"clause": "unexpected exception", "observed": kind}
    if mej > tot + tol:
        return None if kind == "ValueError" else {"clause": "over-ejection must raise ValueError", "observed": kind}
    if mej < tot - tol and kind == "ValueError":
        return {"clause": "feasible request raised ValueError"}
    if kind == "ValueError":
        return None
    if any(math.isnan(x) for x in rM + rN):
        return {"clause": "no NaN", "observed": {"M": [repr(x) for x in rM], "N": [repr(x) for x in rN]}}
    if not same:
        return {"clause": "returns the very arrays it was given"}
    eps = 1e-9 * max([abs(x) for x in M + N] + [1e-300])
    if any(x < -eps for x in rM + rN):
        return {"clause": "no negative count or mass", "observed": {"M": [repr(x) for x in rM], "N": [repr(x) for x in rN]}}
    want = max(mej, 0.0)
    if not abs((tot - sum(rM)) - want) <= tol:
        return {"clause": "mass removed = requested", "removed": repr(tot - sum(rM)), "requested": repr(want)}
    # heaviest first: emptied bins above the cut, untouched below, at most one partly depleted with its mean preserved
    j = len(M) - 1
    while j >= 0 and rM[j] == 0 and rN[j] == 0:
        j -= 1
    for k in range(j):
        if rM[k] != M[k] or rN[k] != N[k]:
            return {"clause": "bins below the cut untouched", "bin": k}
    if j >= 0 and (rM[j] != M[j] or rN[j] != N[j]):
        if M[j] > 0 and N[j] > 0 and rM[j] > 1e-6 * M[j]:
            if abs(rM[j] / rN[j] - M[j] / N[j]) > 1e-9 * (M[j] / N[j]) * max(1.0, M[j] / rM[j] * 1e-3):
                return {"clause": "partly depleted bin keeps its mean mass", "bin": j,
                        "observed": repr(rM[j] / rN[j]), "expected": repr(M[j] / N[j])}
    return None


def check_row(res):
    """the model's BH rows vs its full-retention twin"""
    cfg = res["cfg"]
    if "twin_error" in res or not res.get("twin_converged"):
        return "skip"
    ret = cfg["kw"]["BH_ret_dyn"]
    kicks_on = bool(cfg["kw"].get("natal_kicks"))
    if res.get("error") not in (None, "ValueError"):
        return {"clause": "unexpected exception", "observed": res["error"], "msg": res.get("msg")}
    any_row = False
    must_raise = False
    may_raise = False
    for i, t in enumerate(cfg["tout"]):
        if not t > res["t_bh"]:
            continue
        M, N = res["formed_M"][i], res["formed_N"][i]
        if any(x < 0 for x in M + N) or sum(M) <= 0:
            return "skip"            # solver undershoot right at BH formation: outside what this check can judge
        formed = sum(M)
        m_ret = formed - formed * (1.0 - ret)
        m_low = M[0] / N[0] if N[0] > 0 else res["centre0"]     # mean mass of the lightest bin (its centre while empty)
        q = m_ret / m_low
        shortcut = bool(0.0 <= q < res["Nmin"])
        kicked = 0.0
        if kicks_on and not shortcut:
            try:
                rets = retention_list(res.get("kick_kw") or quick_kick_kw(cfg), M, N)
            except Exception:
                return "skip"
            kicked = sum(m * (1 - r) for m, r, nn in zip(M, rets, N) if nn >= 0.1)
        share = formed * (1.0 - ret)
        if not shortcut and kicked > share * (1 + 1e-9) + 1e-9:
            must_raise = True
            continue
        if not shortcut and kicked > 0 and kicked >= share * (1 - 1e-9) - 1e-9:
            may_raise = True      # budget met to rounding (e.g. BH_ret_dyn=1 and kicks removing 1e-10 Msun): either outcome is right
        if res.get("error"):
            continue
        any_row = True
        rM, rN = res["M"][i], res["N"][i]
        if any(math.isnan(x) for x in rM + rN):
            return {"clause": "no NaN in BH rows", "row": i, "observed": [repr(x) for x in rN]}
        if any(x < -1e-9 * formed for x in rM) or any(x < -1e-9 * max(N) for x in rN):
            return {"clause": "no negative BH count or mass", "row": i}
        want = 0.0 if shortcut else ret * formed
        if not abs(sum(rM) - want) <= 1e-9 * formed and not (abs(kicked - share) <= 1e-9 * formed):
            return {"clause": "BH mass remaining = retention × formed", "row": i, "observed": repr(sum(rM)), "expected": repr(want),
                    "shortcut": shortcut, "kicked": repr(kicked)}
    if must_raise and res.get("error") != "ValueError":
        return {"clause": "kicks exceeding the ejection budget must raise ValueError", "observed": res.get("error")}
    if res.get("error") == "ValueError" and not must_raise and not may_raise:
        # borderline budgets (kicked ≈ share) may legitimately go either way
        return {"clause": "ValueError although kicks do not exceed the budget", "msg": res.get("msg")}
    return None if (any_row or must_raise) else "skip"


def sweep(ctx):
    eff = getattr(ctx, "effort", 1)
    for _ in range(ctx.n(20000, 300000) * eff):
        M, N = gen_bins(ctx.rng)
        mej = gen_budget(ctx.rng, M)
        bad = check_direct(M, N, mej)
        tot = sum(M)
        ctx.sweep_case("direct", (tuple(M), tuple(N), mej), bad is None,
                       {"failing_input": {"call": "dyn_eject", "args": {"M": jfl(M), "N": jfl(N), "M_eject": jf(mej)}}, "observed": bad,
                        "expected": "exact budget, heaviest first, no NaN/negative, ValueError iff over total"},
                       branch=("nothing" if mej <= 0 else "over" if mej > tot else "partial") + ("/empty-top" if M and M[-1] == 0 else ""))
    results = gen.pmap(row_worker, row_cfgs(ctx, ctx.n(60, 1500) * eff))
    for res in results:
        bad = check_row(res)
        ctx.sweep_case("row", repr(res["cfg"]), bad in (None, "skip"),
                       {"failing_input": {"call": "row", "args": {"cfg": res["cfg"]}}, "observed": bad},
                       branch="skipped" if bad == "skip" else ("kicks" if res["cfg"]["kw"].get("natal_kicks") else "nokicks"))


def replay(ctx, fi):
    if fi["call"] == "dyn_eject":
        a = fi["args"]
        return check_direct([unjf(x) for x in a["M"]], [unjf(x) for x in a["N"]], unjf(a["M_eject"]))
    if fi["call"] == "row":
        r = check_row(row_worker(fi["args"]["cfg"]))
        return None if r == "skip" else r
    raise ValueError(fi["call"])


def classify(entry, failure):
    return False
