"""C12 — masses.Pk: exact, positive, additive; NaN on degenerate intervals; element-wise arrays."""
import math
from decimal import Decimal, getcontext
import numpy as np
from common import h, uh, hl, jf, unjf, close, run_driver, loguniform
import real
from real import Pk

getcontext().prec = 60
TRUSTED = ["numpy float64 pow/log vs libm (1e-12*scale)", "Python decimal (60 digits) as the high-precision reference for the 1e-9 accuracy clause"]
ASSUMPTIONS = ["ℝ theorems read as statements about float64 code; rounding is measured against a 60-digit reference, not proved"]
RULE = ("corr: random (a,k,m1,m2) over a∈[-6,4], k∈{1,1.5,2,2.5}∪arbitrary, m∈[1e-3,1e3], widths log-uniform down to 1e-15, "
        "a+k=0 exactly in a quarter of cases, equal-shaped arrays mixing both branches; distinct = distinct input tuples; "
        "non-trivial = proper interval (m1<m2) or degenerate case exercising the NaN rule")
RES = float(np.finfo(float).resolution)
KS = [1.0, 1.5, 2.0, 2.5]


def gen(rng):
    k = rng.choice(KS) if rng.random() < 0.8 else rng.uniform(0.5, 3.0)
    r = rng.random()
    if r < 0.25:
        a = -k
    elif r < 0.35:
        a = -k + rng.choice([-1, 1]) * loguniform(rng, 1e-6, 1e-2)
    else:
        a = rng.uniform(-6, 4)
    m1 = loguniform(rng, 1e-3, 1e3)
    r = rng.random()
    if r < 0.6:
        m2 = min(1e3, m1 * loguniform(rng, 1.0 + 1e-3, 1e3))
    elif r < 0.9:
        m2 = m1 * (1 + loguniform(rng, 1e-15, 1e-3))
    elif r < 0.95:
        m2 = m1
    else:
        m2 = m1 / loguniform(rng, 1.0001, 10)
    return a, k, m1, m2


def scale_of(a, k, m1, m2):
    s = a + k
    if -a == k:
        return max(abs(math.log(m2 / m1)), 2.3e-16 * 4)
    return (abs(m2 ** s) + abs(m1 ** s)) / abs(s)


def real_pk(a, k, m1, m2):
    return float(Pk(a, k, m1, m2))


def hp_pk(a, k, m1, m2):
    a, k, m1, m2 = map(Decimal, (a, k, m1, m2))
    s = a + k
    if s == 0:
        return (m2 / m1).ln()
    return ((s * m2.ln()).exp() - (s * m1.ln()).exp()) / s


def corr(ctx):
    n = ctx.n(20000, 400000)
    cases = [gen(ctx.rng) for _ in range(n)]
    outs = run_driver([f"pk {h(a)} {h(k)} {h(m1)} {h(m2)}" for a, k, m1, m2 in cases])
    for (a, k, m1, m2), o in zip(cases, outs):
        r = real_pk(a, k, m1, m2)
        m = uh(o)
        sc = scale_of(a, k, m1, m2)
        branch = ("log" if -a == k else "pow") + ("/degenerate" if m2 <= m1 else "")
        if m is None:   # model says: below resolution -> NaN
            ok = math.isnan(r)
            ind = (not ok) and abs(r - RES) <= 1e-12 * sc
        elif math.isnan(r):
            ok = math.isnan(m)
            ind = (not ok) and abs(m - RES) <= 1e-12 * sc
        else:
            ok = close(r, m, sc)
            ind = False
        ctx.corr_case("pk", ok, {"args": [jf(x) for x in (a, k, m1, m2)], "real": repr(r), "model": o},
                      branch=branch + ("/nan" if math.isnan(r) else ""), indeterminate=ind)
    ctx.sample({"op": "pk", "args": list(map(repr, cases[0])), "model": outs[0]})
    # equal-shaped arrays, some elements on the log branch
    na = ctx.n(400, 5000)
    lines, arrs = [], []
    for _ in range(na):
        ln = ctx.rng.randint(1, 12)
        k = ctx.rng.choice(KS)
        els = [gen(ctx.rng) for _ in range(ln)]
        as_ = [(-k if ctx.rng.random() < 0.4 else e[0]) for e in els]
        m1s = [e[2] for e in els]
        m2s = [e[3] for e in els]
        arrs.append((as_, k, m1s, m2s))
        lines.append(f"pklist {h(k)} {hl(as_)} {hl(m1s)} {hl(m2s)}")
    outs = run_driver(lines)
    for (as_, k, m1s, m2s), o in zip(arrs, outs):
        r = Pk(np.array(as_), k, np.array(m1s), np.array(m2s))
        ms = [uh(t) for t in o.split()]
        ok, ind = len(ms) == len(r), False
        for i in range(min(len(ms), len(r))):
            sc = scale_of(as_[i], k, m1s[i], m2s[i])
            ri, mi = float(r[i]), ms[i]
            mi_nan = mi is None or math.isnan(mi)
            if mi_nan != math.isnan(ri):
                v = ri if mi_nan else mi
                if abs(v - RES) <= 1e-12 * sc:
                    ind = True
                else:
                    ok = False
            elif not mi_nan and not close(ri, mi, sc):
                ok = False
        nlog = sum(1 for x in as_ if -x == k)
        ctx.corr_case("pklist", ok, {"a": jfl_(as_), "k": repr(k), "m1": jfl_(m1s), "m2": jfl_(m2s), "real": [repr(float(x)) for x in r], "model": o},
                      branch="mixed" if 0 < nlog < len(as_) else ("alllog" if nlog else "allpow"), indeterminate=ind and ok)


def jfl_(xs):
    return [jf(x) for x in xs]


# ------------------------------------------------------------------ property predicates on the real code
def thin(a, k, m1, m2):
    """cancellation regime: |a+k|·ln(m2/m1) small -> m2^s - m1^s loses digits (known finding C12-cancellation)"""
    s = a + k
    return s != 0 and m2 > m1 and abs(s) * math.log(m2 / m1) < 1e-5


EPS = 2.220446049250313e-16


def cancel_bound(a, k, m1, m2):
    """first-order bound on the rounding error of the closed form evaluated in float64:
    8·eps·(|m2^s|+|m1^s|)/|s| for the power branch, 8·eps·max(1,|ln|) for the log branch"""
    if a + k == 0:
        return 8 * EPS * max(1.0, abs(math.log(m2 / m1)))
    return 8 * EPS * scale_of(a, k, m1, m2)


def check_one(a, k, m1, m2):
    """returns None if the property holds for this input, else a dict describing what fails"""
    r = real_pk(a, k, m1, m2)
    if m2 <= m1:
        if not math.isnan(r):
            return {"clause": "degenerate->NaN", "observed": repr(r)}
        return None
    s = a + k
    ref = hp_pk(a, k, m1, m2)
    if math.isnan(r):
        if ref > Decimal(RES) * Decimal("1.001"):
            return {"clause": "NaN on a proper interval above resolution", "reference": f"{float(ref):.17e}",
                    "abs_err": float(ref) - RES, "cancellation_bound": cancel_bound(a, k, m1, m2)}
        return None
    if not r > 0:
        return {"clause": "positive", "observed": repr(r)}
    if s == 0 or abs(s) >= 1e-6:
        err = abs(Decimal(r) - ref)
        rel = err / ref
        if rel > Decimal("1e-9"):
            return {"clause": "1e-9 relative accuracy", "observed": repr(r), "reference": f"{float(ref):.17e}", "rel_err": f"{float(rel):.3e}",
                    "abs_err": float(err), "cancellation_bound": cancel_bound(a, k, m1, m2)}
    return None


def check_add(a, k, m1, m2, m3):
    p12, p23, p13 = real_pk(a, k, m1, m2), real_pk(a, k, m2, m3), real_pk(a, k, m1, m3)
    if any(math.isnan(x) for x in (p12, p23, p13)):
        return None
    if abs(p12 + p23 - p13) > 1e-9 * p13 + 4e-16 * scale_of(a, k, m1, m3):
        return {"clause": "additive", "observed": [repr(p12), repr(p23), repr(p13)]}
    return None


def check_mean(a, m1, m2):
    p1, p2 = real_pk(a, 1, m1, m2), real_pk(a, 2, m1, m2)
    if math.isnan(p1) or math.isnan(p2):
        return None
    mean = p2 / p1
    # inside [m1, m2] up to the accuracy the moments themselves have
    slack = 1e-9 * m2
    if not (m1 - slack <= mean <= m2 + slack):
        return {"clause": "mean in interval", "observed": repr(mean)}
    return None


def check_array(as_, k, m1s, m2s):
    """equal-shaped array arguments are handled element-wise, including arrays in which only some elements take the log form"""
    with np.errstate(all="ignore"):
        r = Pk(np.array(as_), k, np.array(m1s), np.array(m2s))
    for i in range(len(as_)):
        s_ = real_pk(as_[i], k, m1s[i], m2s[i])
        ri = float(r[i])
        sc = scale_of(as_[i], k, m1s[i], m2s[i]) if m2s[i] > 0 and m1s[i] > 0 else 1.0
        if math.isnan(s_) != math.isnan(ri):
            v = ri if math.isnan(s_) else s_
            if abs(v - RES) <= 1e-12 * sc:
                continue       # the two evaluation paths (SIMD / scalar pow) fall on either side of the resolution threshold
        if math.isnan(s_) != math.isnan(ri) or (not math.isnan(s_) and abs(s_ - ri) > 1e-13 * sc):
            return {"clause": "array arguments are handled element-wise", "element": i, "array_value": repr(ri), "scalar_value": repr(s_),
                    "n_log_elements": sum(1 for a in as_ if -a == k)}
    return None


def sweep(ctx):
    for _ in range(ctx.n(300, 5000) * getattr(ctx, "effort", 1)):
        ln = ctx.rng.randint(2, 10)
        k = ctx.rng.choice(KS)
        els = [gen(ctx.rng) for _ in range(ln)]
        as_ = [(-k if ctx.rng.random() < 0.4 else e[0]) for e in els]
        m1s, m2s = [e[2] for e in els], [e[3] for e in els]
        bad = check_array(as_, k, m1s, m2s)
        nlog = sum(1 for a in as_ if -a == k)
        ctx.sweep_case("pk_array", (tuple(as_), k, tuple(m1s), tuple(m2s)), bad is None,
                       {"failing_input": {"call": "pk_array", "args": {"a": [jf(x) for x in as_], "k": jf(k), "m1": [jf(x) for x in m1s], "m2": [jf(x) for x in m2s]}},
                        "observed": bad}, branch="mixed" if 0 < nlog < ln else ("alllog" if nlog else "allpow"))
    n = ctx.n(6000, 150000) * getattr(ctx, "effort", 1)
    for _ in range(n):
        a, k, m1, m2 = gen(ctx.rng)
        bad = check_one(a, k, m1, m2)
        ctx.sweep_case("pk_value", (a, k, m1, m2), bad is None,
                       {"failing_input": {"call": "pk", "args": [jf(a), jf(k), jf(m1), jf(m2)]}, "observed": bad,
                        "expected": "∫ m^(a+k-1) dm to 1e-9 relative; positive; NaN iff degenerate/below resolution"},
                       branch=("log" if a + k == 0 else "pow") + ("/thin" if thin(a, k, m1, m2) else ""))
        if m2 > m1 and ctx.rng.random() < 0.3:
            m3 = min(2e3, m2 * loguniform(ctx.rng, 1.001, 100))
            bad = check_add(a, k, m1, m2, m3)
            ctx.sweep_case("pk_additive", (a, k, m1, m2, m3), bad is None,
                           {"failing_input": {"call": "pk_add", "args": [jf(a), jf(k), jf(m1), jf(m2), jf(m3)]}, "observed": bad})
            bad = check_mean(a, m1, m2)
            ctx.sweep_case("pk_mean", (a, m1, m2), bad is None,
                           {"failing_input": {"call": "pk_mean", "args": [jf(a), jf(m1), jf(m2)]}, "observed": bad})


def replay(ctx, fi):
    if fi["call"] == "pk_array":
        return _replay_array(fi)
    args = [unjf(x) for x in fi["args"]]
    if fi["call"] == "pk":
        return check_one(*args)
    if fi["call"] == "pk_add":
        return check_add(*args)
    if fi["call"] == "pk_mean":
        return check_mean(*args)
    raise ValueError(fi["call"])


def _replay_array(fi):
    a = fi["args"]
    return check_array([unjf(x) for x in a["a"]], unjf(a["k"]), [unjf(x) for x in a["m1"]], [unjf(x) for x in a["m2"]])


def classify(entry, failure):
    """C12-cancellation: the accuracy miss is explained by float cancellation of the closed form
    (|error| within the first-order rounding bound); anything larger is a new violation."""
    fi = failure.get("failing_input") or {}
    obs = failure.get("observed") or {}
    if entry.get("classifier") != "float_cancellation":
        return False
    if fi.get("call") == "pk_array":
        return False
    args = [unjf(x) for x in fi.get("args", [])]
    if fi.get("call") == "pk":
        return (obs.get("clause") in ("1e-9 relative accuracy", "NaN on a proper interval above resolution")
                and obs["abs_err"] <= obs["cancellation_bound"])
    if fi.get("call") == "pk_mean":
        a, m1, m2 = args
        # the mean is off by no more than the two moments' own rounding bounds allow
        p1, p2 = float(hp_pk(a, 1, m1, m2)), float(hp_pk(a, 2, m1, m2))
        relb = cancel_bound(a, 1, m1, m2) / p1 + cancel_bound(a, 2, m1, m2) / p2
        return abs(float(obs["observed"]) - p2 / p1) <= relb * (p2 / p1)
    if fi.get("call") == "pk_add":
        a, k, m1, m2, m3 = args
        b = cancel_bound(a, k, m1, m2) + cancel_bound(a, k, m2, m3) + cancel_bound(a, k, m1, m3)
        p = [float(x) for x in obs["observed"]]
        return abs(p[0] + p[1] - p[2]) <= b
    return False
