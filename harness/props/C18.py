"""C18 — population size only sets the scale."""
import math, warnings
import numpy as np
from common import h, uh, hl, jf, jfl, unjf, close, run_driver, loguniform
import real, gen
from common import JobTimeout, time_limit
from real import evolve_mf, PowerLawIMF

TRUSTED = ["dopri5 step control (absolute tolerance 1e-5 is not scale-free; budget below)"]
ASSUMPTIONS = ["scaled runs are compared within the integrator budget plus the fixed 0.1-object thresholds, as the property allows"]
RULE = ("corr: derivative modules re-checked through C02/C03 correspondence streams (reduced size); sweep: (a) real derivative functions at "
        "(λ·y, λ·rate) vs λ·(derivative at y) for λ∈[0.1,100] on states where no 0.1-object comparison flips, (b) pairs of real "
        "constructions differing by λ incl. kicks and BH targets, (c) IMF-object N0 irrelevance and from_powerlaw equivalence "
        "(bit-identical); distinct = distinct (configuration, λ)")


def corr(ctx):
    from props import C02, C03
    saved = ctx.tier
    q = ctx.quick
    # reduced streams: same ops, fewer cases
    class Small:
        pass
    orig_n = ctx.n
    ctx.n = lambda a, b: max(2, orig_n(a, b) // 4)
    try:
        C02.corr(ctx)
        C03.corr(ctx)
    finally:
        ctx.n = orig_n


def scale_y(f, y, lam):
    mb = f.massbins
    parts = [p.copy() for p in mb.unpack_values(y)]
    for i in (0, 2, 3, 4, 5, 6, 7):
        parts[i] = parts[i] * lam
    return mb.pack_values(*parts)


def check_deriv(f, t, y, lam):
    mb = f.massbins
    Ns = mb.unpack_values(y)[0]
    # proviso: no 0.1-object comparison may flip
    if np.any((Ns > f.Nmin) != (Ns * lam > f.Nmin)):
        return "skip"
    rate = f.esc_rate
    try:
        with np.errstate(all="ignore"):
            d1 = f._derivs(t, y)
            f.esc_rate = rate * lam
            d2 = f._derivs(t, scale_y(f, y, lam))
    except ValueError:
        return "skip"
    finally:
        f.esc_rate = rate
    if not (np.all(np.isfinite(d1)) and np.all(np.isfinite(d2))):
        return "skip"
    want = scale_y(f, d1, lam)
    sc = max(float(np.max(np.abs(want))), 1e-300)
    bad = np.flatnonzero(np.abs(d2 - want) > 1e-9 * np.maximum(np.abs(want), sc * 1e-6))
    if len(bad):
        i = int(bad[0])
        return {"clause": "derivatives are homogeneous of degree one in (counts, masses, rate); slopes unscaled", "entry": i,
                "observed": repr(float(d2[i])), "expected": repr(float(want[i]))}
    return None


def pair_worker(job):
    cfg, lam, kind = job[:3]
    tight = job[3] if len(job) > 3 else True
    res = {"cfg": cfg, "lam": lam, "kind": kind, "tight": tight}
    try:
        cls = evolve_mf.EvolvedMFWithBH if kind == "fbh" else evolve_mf.EvolvedMF
        # integrator tolerance tightened from outside (scipy's ode wrapped): at the default 1e-5 the solver's own error on the
        # remnant bins (right-hand side jumps whenever the deposit bin changes) is percent-level and not scale-free
        cfg2 = dict(cfg); cfg2["N0"] = cfg["N0"] * lam; cfg2["esc_rate"] = cfg["esc_rate"] * lam
        res["level"] = 12 if tight else 5
        with time_limit(240), real.recording_ode(**(dict(rtol=1e-12, atol=1e-12, nsteps=10**7) if tight else {})):
            a = gen.build(cfg, cls=cls)
            b = gen.build(cfg2, cls=cls)
        if tight and not (a.converged and b.converged):
            # dopri5 gives up at 1e-12 on some configurations: fall back to 1e-10, where objects are booked into neighbouring remnant bins
            # at the 1e-3 level (the right-hand side jumps whenever the deposit bin changes), more so after an ejection cut
            res["level"] = 10
            with time_limit(240), real.recording_ode(rtol=1e-10, atol=1e-10, nsteps=10**7):
                a = gen.build(cfg, cls=cls)
                b = gen.build(cfg2, cls=cls)
    except JobTimeout:
        res["error"] = "ValueError"; res["timeout"] = True; return res       # skipped (counted), like a rejected configuration
    except ValueError as e:
        res["error"] = "ValueError"; return res
    except Exception as e:
        res["error"] = f"{type(e).__name__}: {e}"[:160]; return res
    res["conv"] = bool(a.converged and b.converged)
    for nm in ("Ns", "Ms", "alpha", "ms"):
        res[nm] = (getattr(a, nm).tolist(), getattr(b, nm).tolist())
    res["Nr"] = (np.c_[a.Nr].tolist(), np.c_[b.Nr].tolist())
    res["Mr"] = (np.c_[a.Mr].tolist(), np.c_[b.Mr].tolist())
    res["Nmin"] = a.Nmin
    return res


def check_pair(res):
    if "error" in res:
        return "skip" if res["error"] == "ValueError" else {"clause": "unexpected exception", "observed": res["error"]}
    if not res["conv"]:
        return "skip"
    lam = res["lam"]
    default = not res.get("tight", True)
    extra = {"default_tolerance": True} if default else {}
    for nm in ("Ns", "Ms", "Nr", "Mr"):
        a, b = np.array(res[nm][0]), np.array(res[nm][1])
        if np.isnan(a).any() or np.isnan(b).any():
            return "skip"
        tot = max(float(np.max(np.abs(a))), 1e-300)
        # integrator budget (rtol 1e-5 per step, atol 1e-5 absolute) + the 0.1-object thresholds on either side
        thr = 0.25 * (1 + 1 / lam) * (1 if nm[0] == "N" else 100.0)
        if nm in ("Nr", "Mr"):
            # every turned-off star bin withholds its own 0.1-object residue, whatever N0: up to 0.1 per star bin can be missing from one
            # remnant bin in either run (observed: 0.36 = 0.1 x 4 bins x (1 - 1/lambda) at 1e-12 and under max_step=0.002 alike)
            nms = np.array(res["Ns"][0]).shape[-1]
            thr = max(thr, 0.1 * nms * (1 + 1 / lam) * (1 if nm[0] == "N" else 100.0))
        rel = 1e-4
        if res.get("level") == 10 and nm in ("Nr", "Mr"):
            rel = 5e-2 if res.get("kind") in ("kicks", "fbh") or res["cfg"]["kw"].get("BH_ret_dyn", 1.0) < 1.0 else 5e-3
        bad = np.abs(b / lam - a) > rel * np.maximum(np.abs(a), tot * (1e-3 if rel == 1e-4 else 1e-1)) + thr
        if np.any(bad):
            i = tuple(int(x) for x in np.argwhere(bad)[0])
            out = {"clause": f"{nm} scales with the population size", "index": i, "observed": repr(float(b[i] / lam)), "expected": repr(float(a[i])), **extra}
            if default:
                # at the code's own integrator tolerance: how far off, relative to the bin and to the largest bin of the row's class
                excess = np.abs(b / lam - a) - thr
                out["rel_dev"] = float(np.max(excess / np.maximum(np.abs(a), tot * 1e-3)))
                out["dev_of_largest"] = float(np.max(excess) / tot)
            return out
    a, b = np.array(res["alpha"][0]), np.array(res["alpha"][1])
    if np.any(np.abs(a - b) > 5e-3):
        return {"clause": "slopes unchanged by the population size", "max_diff": float(np.max(np.abs(a - b))), **extra}
    Na, Nb = np.array(res["Ns"][0]), np.array(res["Ns"][1])
    ma, mb_ = np.array(res["ms"][0]), np.array(res["ms"][1])
    big = (Na > 10) & (Nb > 10)
    if np.any(np.abs(ma - mb_)[big] > 1e-3 * ma[big]):
        return {"clause": "mean masses unchanged by the population size", "max_rel": float(np.max((np.abs(ma - mb_) / ma)[big])), **extra}
    return None


def check_identity(cfg, which, model="EvolvedMF"):
    """IMF object's own N0 is irrelevant once N0 is passed; from_powerlaw == passing an IMF object — for every model class"""
    kw = dict(cfg["kw"])
    own = 12345.0 if which == "own_N0" else cfg["N0"]
    with warnings.catch_warnings():
        warnings.simplefilter("ignore")
        try:
            if model == "InitialBHPopulation":
                kw2 = {k: v for k, v in kw.items() if k in ("BH_IFMR_method", "binning_method")}
                P = evolve_mf.InitialBHPopulation
                ref = P.from_powerlaw(cfg["m_breaks"], cfg["a_slopes"], cfg["nbins"], cfg["FeH"], N0=cfg["N0"], natal_kicks=False, **kw2)
                imf = PowerLawIMF(cfg["m_breaks"], cfg["a_slopes"], N0=own)
                other = P.from_IMF(imf, cfg["nbins"], cfg["FeH"], N0=cfg["N0"], natal_kicks=False, **kw2)
                pairs = [(ref.N, other.N), (ref.M, other.M), (np.array([ref.Ns_lost, ref.Ms_lost]), np.array([other.Ns_lost, other.Ms_lost]))]
            else:
                cls = getattr(evolve_mf, model)
                args = [cfg["m_breaks"], cfg["a_slopes"], cfg["nbins"], cfg["FeH"], cfg["tout"], cfg["esc_rate"]]
                extra = []
                if model == "EvolvedMFWithBH":
                    kw.pop("BH_ret_dyn", None)
                    kw["strict_BH_target"] = False
                    extra = [[1e-4] * len(cfg["tout"])]
                ref = cls.from_powerlaw(*args, *extra, N0=cfg["N0"], **kw)
                imf = PowerLawIMF(cfg["m_breaks"], cfg["a_slopes"], N0=own)
                other = cls(imf, cfg["nbins"], cfg["FeH"], cfg["tout"], cfg["esc_rate"], *extra, N0=cfg["N0"], **kw)
                pairs = [(getattr(ref, nm), getattr(other, nm)) for nm in ("Ns", "Ms", "alpha")]
                pairs += [(ref.Nr[c], other.Nr[c]) for c in range(3)] + [(ref.Mr[c], other.Mr[c]) for c in range(3)]
        except ValueError as e:
            if which == "own_N0" and "Target `f_BH`" in str(e):
                return {"clause": "IMF object's own N0 is irrelevant once N0 is passed", "model": model, "observed": "ValueError: " + str(e)[:100]}
            return "skip"
    for k, (a, b) in enumerate(pairs):
        if not np.array_equal(np.asarray(a), np.asarray(b), equal_nan=True):
            return {"clause": "IMF object's own N0 is irrelevant once N0 is passed" if which == "own_N0"
                    else "the power-law constructor is equivalent to passing the IMF object", "model": model, "array": k}
    return None


def sweep(ctx):
    from props.C02 import synth_state
    from props.C03 import esc_setup
    eff = getattr(ctx, "effort", 1)
    for _ in range(ctx.n(8, 100) * eff):
        cfg = gen.gen_config(ctx.rng, small=True, kicks=False); cfg["tout"] = [1.0]
        try:
            f = gen.build(cfg)
        except Exception:
            continue
        for _ in range(ctx.n(40, 150)):
            esc_setup(ctx.rng, f)
            t = loguniform(ctx.rng, 1.0, 2e4)
            f.tcc = ctx.rng.choice([0.0, t * 2])
            y = synth_state(ctx.rng, f, t)
            lam = loguniform(ctx.rng, 0.1, 100)
            bad = check_deriv(f, t, y, lam)
            fi = {"call": "deriv", "args": {"cfg": cfg, "norm": f._esc_norm, "md": f.md, "rate": f.esc_rate, "tcc": f.tcc, "t": jf(t), "y": jfl(y), "lam": jf(lam)}}
            ctx.sweep_case("derivative", (repr(cfg), t, lam), bad in (None, "skip"), {"failing_input": fi, "observed": bad},
                           branch="skipped" if bad == "skip" else "evaluated")
    jobs = []
    for _ in range(ctx.n(24, 500) * eff):
        kind = ctx.rng.choice(["plain", "plain", "escape", "kicks", "fbh"])
        cfg = gen.gen_config(ctx.rng, small=True, kicks=(kind == "kicks"), escape=(kind == "escape"))
        cfg["N0"] = float(round(loguniform(ctx.rng, 1e5, 2e6)))
        if kind == "escape":
            sc = cfg["N0"] if cfg["kw"]["esc_norm"] == "N" else cfg["N0"] * gen.imf_mass_per_star_below(cfg["m_breaks"], cfg["a_slopes"])
            cfg["esc_rate"] = -ctx.rng.uniform(0.05, 0.4) * sc / max(cfg["tout"])
        if kind == "kicks":
            cfg["kw"]["BH_ret_dyn"] = ctx.rng.choice([0.3, 0.5, 0.05])
        if kind == "fbh":
            cfg["kw"]["f_BH"] = [1e-4 * ctx.rng.random() for _ in cfg["tout"]]
            if len(cfg["tout"]) == 1:
                cfg["kw"]["f_BH"] = cfg["kw"]["f_BH"][0]
        jobs.append((cfg, loguniform(ctx.rng, 0.3, 30), kind))
    # a third of the pairs also at the code's own integrator tolerance (scale-dependent there: known finding)
    jobs += [(c, l, k, False) for (c, l, k) in jobs[::3]]
    for res in gen.pmap(pair_worker, jobs):
        bad = check_pair(res)
        ctx.sweep_case("pairs", (repr(res["cfg"]), res["lam"]), bad in (None, "skip"),
                       {"failing_input": {"call": "pair", "args": {"cfg": res["cfg"], "lam": res["lam"], "kind": res["kind"], "tight": res["tight"]}},
                        "observed": bad},
                       branch="skipped" if bad == "skip" else res["kind"] + ("" if res["tight"] else "/default-tolerance"))
    for _ in range(ctx.n(6, 60) * eff):
        cfg = gen.gen_config(ctx.rng, small=True)
        for which in ("own_N0", "from_powerlaw"):
            for model in ("EvolvedMF", "EvolvedMFWithBH", "InitialBHPopulation"):
                bad = check_identity(cfg, which, model)
                ctx.sweep_case("identity", (repr(cfg), which, model), bad in (None, "skip"),
                               {"failing_input": {"call": "identity", "args": {"cfg": cfg, "which": which, "model": model}}, "observed": bad},
                               branch="skipped" if bad == "skip" else which + "/" + model)


def replay(ctx, fi):
    a = fi["args"]
    if fi["call"] == "deriv":
        f = gen.build(a["cfg"])
        f._esc_norm, f.md, f.esc_rate, f.tcc, f._time_dep_esc = a["norm"], a["md"], a["rate"], a["tcc"], False
        r = check_deriv(f, unjf(a["t"]), np.array([unjf(x) for x in a["y"]]), unjf(a["lam"]))
    elif fi["call"] == "pair":
        r = check_pair(pair_worker((a["cfg"], a["lam"], a["kind"], a.get("tight", True))))
    elif fi["call"] == "identity":
        r = check_identity(a["cfg"], a["which"], a.get("model", "EvolvedMF"))
    else:
        raise ValueError(fi["call"])
    return None if r == "skip" else r


def classify(entry, failure):
    """C18-default-tolerance-not-scale-free: at rtol=atol=1e-5 the solver's error on sparsely populated remnant bins is percent-level and
    depends on N0 through the absolute tolerance; listed when the deviation is at the code's own tolerance and within 20 % of the bin"""
    if entry.get("classifier") != "default_tolerance_scale":
        return False
    obs = failure.get("observed") or {}
    if not obs.get("default_tolerance"):
        return False
    if obs.get("rel_dev") is not None:
        # within 20 % of the bin, or (a bin that is empty in one run) within 1 % of the largest bin of its class
        return obs["rel_dev"] <= 0.2 or obs.get("dev_of_largest", 1.0) <= 0.01
    if "max_diff" in obs:
        return obs["max_diff"] <= 0.05          # slopes
    if "max_rel" in obs:
        return obs["max_rel"] <= 0.02           # mean masses
    return False
