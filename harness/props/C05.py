"""C05 — mean masses lie inside their bins and remnant classes never mix."""
import math
import numpy as np
from common import jf, unjf
import real, gen
from props._full import full_worker, gen_jobs

TRUSTED = ["dopri5 output rows (the continuous-flow version of the cone invariant is not formalised)"]
ASSUMPTIONS = ["'populated' = more than one object, as the property's quantifier says"]
RULE = ("corr: extraction ops (star mean masses on truncated bins, remnant mean masses with centre fallback) via the C04 streams; "
        "sweep: every row of random constructions (escape, kicks, ejection, BH targets, dict layouts): ms within [lower, min(upper, mto)], "
        "mr within its own class's bin, NS bins at exactly the NS mass, empty remnant bins at the bin centre; distinct = configurations")


def corr(ctx):
    from props import C04
    orig = ctx.n
    ctx.n = lambda a, b: max(10, orig(a, b) // 2)
    try:
        C04.corr(ctx)
    finally:
        ctx.n = orig


def check_means(res):
    if "error" in res or not res["converged"]:
        return "skip"
    cfg = res["cfg"]
    lo, up = np.array(res["bins"]["MS"][0]), np.array(res["bins"]["MS"][1])
    for i, t in enumerate(cfg["tout"]):
        Ns, ms = np.array(res["Ns"][i]), np.array(res["ms"][i])
        mto = res["mto"][i]
        pop = Ns > 1.0
        if np.isnan(ms[pop]).any():
            return "skip"     # C04's finiteness clause
        hi = np.minimum(up, mto)
        tol = 1e-9 * up
        bad = pop & ((ms < lo - tol) | (ms > hi + tol))
        if bad.any():
            j = int(np.flatnonzero(bad)[0])
            return {"clause": "populated star bin's mean mass lies between its lower edge and min(upper edge, turn-off mass)", "row": i, "bin": j,
                    "ms": repr(float(ms[j])), "lower": repr(float(lo[j])), "upper": repr(float(up[j])), "mto": repr(mto), "Ns": repr(float(Ns[j]))}
        for c in ("WD", "NS", "BH"):
            bl, bu = np.array(res["bins"][c][0]), np.array(res["bins"][c][1])
            N, M, mr = np.array(res["Nr" + c][i]), np.array(res["Mr" + c][i]), np.array(res["mr" + c][i])
            if np.isnan(N).any() or np.isnan(mr).any():
                return "skip"
            pop = N > 1.0
            tolr = 1e-7 * bu       # integrator accuracy on a ratio of two separately integrated quantities
            bad = pop & ((mr < bl - tolr) | (mr > bu + tolr))
            if bad.any():
                k = int(np.flatnonzero(bad)[0])
                return {"clause": f"populated {c} bin's mean mass lies within that bin's own edges", "row": i, "bin": k,
                        "mr": repr(float(mr[k])), "lower": repr(float(bl[k])), "upper": repr(float(bu[k])), "N": repr(float(N[k]))}
            if c == "NS" and pop.any():
                if np.any(np.abs(mr[pop] - res["ifmr_mf"]["NS"]) > 1e-6 * res["ifmr_mf"]["NS"]):
                    return {"clause": "neutron-star bins hold exactly the NS mass", "row": i, "mr": [repr(float(x)) for x in mr[pop]]}
            empty = ~(N > 0)
            centre = 0.5 * (bl + bu)
            if np.any(np.abs(mr[empty] - centre[empty]) > 1e-12 * centre[empty]):
                return {"clause": "unpopulated remnant bins report their bin centre", "row": i, "class": c}
    return None


def sweep(ctx):
    eff = getattr(ctx, "effort", 1)
    jobs = gen_jobs(ctx, ctx.n(120, 4000) * eff, escape_frac=0.45, kicks_frac=0.3)
    for res in gen.pmap(full_worker, jobs):
        bad = check_means(res)
        cfg = res["cfg"]
        br = "skipped" if bad == "skip" else res["kind"] + ("/esc" if cfg["esc_rate"] else "") + ("/kicks" if cfg["kw"].get("natal_kicks") else "") + ("/eject" if cfg["kw"].get("BH_ret_dyn", 1.0) < 1 else "")
        ctx.sweep_case("means", repr(cfg), bad in (None, "skip"), {"failing_input": {"call": "means", "args": {"cfg": cfg, "kind": res["kind"]}}, "observed": bad}, branch=br)


def replay(ctx, fi):
    r = check_means(full_worker({"cfg": fi["args"]["cfg"], "kind": fi["args"].get("kind", "plain")}))
    return None if r == "skip" else r


def classify(entry, failure):
    return False
