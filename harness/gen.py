"""Structured generators of valid ssptools configurations (the documented domain), all from one PRNG."""
import math
from common import loguniform


def gen_imf(rng, nseg=None):
    nseg = nseg or rng.choice([1, 2, 3, 3, 3, 4])
    lo = rng.choice([0.08, 0.1, 0.1, 0.15, 0.2])
    hi = rng.choice([50.0, 80.0, 100.0, 100.0, 120.0, 150.0])
    if nseg == 1:
        mb = [lo, hi]
    elif nseg == 2:
        mb = [lo, rng.choice([0.5, 0.8, 1.0, 1.4]), hi]           # 1.4: a bin edge exactly on the NS mass
    elif nseg == 3:
        mb = [lo, rng.choice([0.4, 0.5]), rng.choice([1.0, 1.2, 1.4]), hi]
    else:
        mb = [lo, 0.5, 1.0, rng.choice([5.0, 8.0, 10.0]), hi]
    a = []
    for i in range(nseg):
        top = (i == nseg - 1)
        if top:
            a.append(rng.choice([-2.35, -2.3, -2.5, -2.0, -1.8, rng.uniform(-3.0, -1.6)]))
        elif i == 0:
            a.append(rng.choice([-0.5, -0.3, -1.0, 0.3, rng.uniform(-1.5, 0.5)]))
        else:
            a.append(rng.choice([-1.3, -1.0, -2.0, -1.5, rng.uniform(-2.5, -0.5)]))
    return mb, a


def gen_nbins(rng, nseg, small=False):
    hi = 6 if small else 14
    r = rng.random()
    if r < 0.7:
        return [rng.randint(2, hi) for _ in range(nseg)]
    return rng.randint(max(2 * nseg, 4), hi * nseg)


def gen_feh(rng):
    r = rng.random()
    if r < 0.5:
        return round(rng.uniform(-2.5, 0.4), 2)
    if r < 0.9:
        return rng.uniform(-2.6, 0.5)
    return rng.choice([0.0, -0.0, -0.004, 0.004, -3.0, 0.7])


def gen_tout(rng, n=None):
    n = n or rng.choice([1, 1, 2, 3, 4])
    ts = []
    for _ in range(n):
        r = rng.random()
        if r < 0.6:
            ts.append(round(loguniform(rng, 50, 14000), 1))
        elif r < 0.9:
            ts.append(round(loguniform(rng, 3, 50), 2))
        else:
            ts.append(float(rng.choice([12000, 13000, 10000, 100])))
    return ts


def imf_mean_mass(mb, a):
    """mean stellar mass of the continuous broken power law (independent of the library)"""
    def pk(k, s, lo, hi):
        e = s + k
        return math.log(hi / lo) if e == 0 else (hi ** e - lo ** e) / e
    A = [1.0]
    for i in range(1, len(a)):
        A.append(A[-1] * mb[i] ** (a[i - 1] - a[i]))
    n = sum(Ai * pk(1, ai, mb[i], mb[i + 1]) for i, (Ai, ai) in enumerate(zip(A, a)))
    m = sum(Ai * pk(2, ai, mb[i], mb[i + 1]) for i, (Ai, ai) in enumerate(zip(A, a)))
    return m / n


def imf_mass_per_star_below(mb, a, mcut=0.8):
    """mass in stars lighter than `mcut` (which never leave the main sequence within 14 Gyr), per star of the whole IMF"""
    def pk(k, s, lo, hi):
        e = s + k
        return math.log(hi / lo) if e == 0 else (hi ** e - lo ** e) / e
    A = [1.0]
    for i in range(1, len(a)):
        A.append(A[-1] * mb[i] ** (a[i - 1] - a[i]))
    n = sum(Ai * pk(1, ai, mb[i], mb[i + 1]) for i, (Ai, ai) in enumerate(zip(A, a)))
    m = sum(Ai * pk(2, ai, mb[i], min(mb[i + 1], mcut)) for i, (Ai, ai) in enumerate(zip(A, a)) if mb[i] < mcut)
    return m / n


def gen_config(rng, escape=False, small=False, kicks=None, tout=None):
    mb, a = gen_imf(rng)
    cfg = {"m_breaks": mb, "a_slopes": a, "nbins": gen_nbins(rng, len(a), small), "FeH": gen_feh(rng),
           "tout": tout or gen_tout(rng), "esc_rate": 0.0,
           "N0": float(round(loguniform(rng, 2e4, 5e6))),
           "kw": {}}
    kw = cfg["kw"]
    if rng.random() < 0.5:
        kw["NS_ret"] = rng.choice([0.0, 0.1, 0.5, 1.0, round(rng.random(), 2)])
    if rng.random() < 0.4:
        kw["BH_ret_int"] = rng.choice([1.0, 0.5, 0.0, round(rng.random(), 2)])
    if rng.random() < 0.4:
        kw["BH_ret_dyn"] = rng.choice([1.0, 0.5, 0.9, 0.2, round(rng.random(), 2)])
    if rng.random() < 0.3:
        kw["binning_method"] = rng.choice(["split_linear", "split_log", "default"])
    if rng.random() < 0.35:
        kw["BH_IFMR_method"] = rng.choice(["banerjee20", "banerjee20-delayed", "cosmic-rapid", "cosmic-delayed",
                                           "linear", "powerlaw", "brokenpowerlaw"])
    if kw.get("BH_IFMR_method") == "brokenpowerlaw" and mb[-1] > 100.0:
        mb[-1] = 100.0          # the default broken power law is defined up to 100 Msun (C09: "or the table limit if lower")
    if kicks is None:
        kicks = rng.random() < 0.25
    if kicks:
        kw["natal_kicks"] = True
        if rng.random() < 0.5:
            kw["kick_method"] = "sigmoid"
            kw["kick_slope"] = rng.choice([1, 0.5, 0.2, 2])
            kw["kick_scale"] = rng.choice([20, 10, 30, 5])
        else:
            kw["kick_method"] = "maxwellian"
            kw["vesc"] = rng.choice([90, 30, 200, 500])
    if escape:
        tmax = max(cfg["tout"])
        frac = rng.uniform(0.05, 0.6)
        kw["esc_norm"] = rng.choice(["N", "M"])
        # the requested loss stays below 60 % of what the cluster can lose (in the quantity that is normalised): for the mass
        # normalisation that is the mass in stars that never evolve — stellar evolution removes most of the rest on its own, and a
        # request exceeding what is left drives the mass-normalised rate singular (counts go negative: outside any sensible domain)
        scale = cfg["N0"] if kw["esc_norm"] == "N" else cfg["N0"] * imf_mass_per_star_below(mb, a)
        cfg["esc_rate"] = -frac * scale / tmax
        if rng.random() < 0.5:
            kw["tcc"] = rng.choice([0.0, tmax * rng.random(), tmax * 2])
        if rng.random() < 0.3:
            kw["md"] = rng.choice([1.2, 1.0, 0.8, 1.5])
    return cfg


def edge_ages(cfg):
    """lifetimes of the stellar bin edges of a configuration (ages at which the turn-off mass sits on a bin edge), within 14 Gyr"""
    import math, warnings
    import numpy as np
    from ssptools.masses import PowerLawIMF, MassBins
    from ssptools import ifmr
    import real
    kw = cfg["kw"]
    im = ifmr.IFMR(cfg["FeH"], BH_method=kw.get("BH_IFMR_method", "banerjee20"))
    imf = PowerLawIMF(m_break=cfg["m_breaks"], a=cfg["a_slopes"], N0=cfg["N0"], ext="zeros")
    with warnings.catch_warnings():
        warnings.simplefilter("ignore")
        mb = MassBins(cfg["m_breaks"], cfg["nbins"], imf, im, binning_method=kw.get("binning_method", "default"))
    a0, a1, a2 = map(float, real.msto_row(cfg["FeH"]))
    ts = [float(a0 * np.exp(a1 * u ** a2)) for u in np.atleast_1d(mb.bins.MS.upper)]
    return [t for t in ts if t < 14000.0]


def add_edge_age(cfg, rng):
    """put one requested age exactly on (or one ulp beside) a bin-edge lifetime"""
    import math
    ts = edge_ages(cfg)
    if cfg.get("esc_rate", 0.0) != 0.0:
        ts = [t for t in ts if t <= max(cfg["tout"])]      # the escape rate was scaled to the latest requested age
    if ts:
        t = rng.choice(ts)
        t = rng.choice([t, t, math.nextafter(t, 0.0), math.nextafter(t, math.inf)])
        cfg["tout"] = list(cfg["tout"]) + [t]
    return cfg


def build(cfg, cls=None, **override):
    """construct the real model for a config"""
    import warnings
    from ssptools import evolve_mf
    cls = cls or evolve_mf.EvolvedMF
    kw = dict(cfg["kw"])
    kw.update(override)
    args = [cfg["m_breaks"], cfg["a_slopes"], cfg["nbins"], cfg["FeH"], cfg["tout"], cfg["esc_rate"]]
    if cls is evolve_mf.EvolvedMFWithBH:
        args.append(kw.pop("f_BH"))
    with warnings.catch_warnings(record=True) as w:
        warnings.simplefilter("always")
        obj = cls.from_powerlaw(*args, N0=cfg["N0"], **kw)
    obj._warnings = [str(x.message) for x in w]
    return obj


def pmap(fn, items, procs=14):
    """fork-based parallel map (the worker calls the real code in its own process)"""
    import multiprocessing as mp
    items = list(items)
    if len(items) <= 2:
        return [fn(x) for x in items]
    ctx = mp.get_context("fork")
    with ctx.Pool(min(procs, len(items))) as pool:
        return pool.map(fn, items, chunksize=max(1, len(items) // (procs * 4)))
