#!/venv/bin/python
"""Single entry point:  harness/check.py Cxx --tier quick|thorough [--replay file]

Decision logic (DESIGN §5):
  T translator obligations, P proof obligations (lake build + axiom audit), R correspondence,
  K known-finding replays, S implementation-side sweep with the property predicate.
Exit 0: everything held (KNOWN-FINDING lines allowed).  Exit 1: VIOLATION line.  Exit 2: infrastructure.
"""
import argparse, fcntl, importlib, json, os, re, subprocess, sys, time, traceback, hashlib, pathlib

sys.path.insert(0, str(pathlib.Path(__file__).resolve().parent))
import common
from common import VERIF, LEAN, Ctx

ALLOWED_AXIOMS = {"propext", "Classical.choice", "Quot.sound"}
FORBIDDEN = re.compile(r"\b(sorry|admit|native_decide|bv_decide|implemented_by)\b|^\s*axiom\s|\bunsafe\s|maxHeartbeats\s+0")


def sh(cmd, cwd=None, timeout=3600, env=None):
    p = subprocess.run(cmd, cwd=cwd, capture_output=True, text=True, timeout=timeout, env=env)
    return p.returncode, p.stdout + p.stderr


class Lock:
    def __init__(self, path):
        self.path = path

    def __enter__(self):
        self.f = open(self.path, "w")
        fcntl.flock(self.f, fcntl.LOCK_EX)

    def __exit__(self, *a):
        fcntl.flock(self.f, fcntl.LOCK_UN)
        self.f.close()


def strip_comments(src):
    # remove /- ... -/ (nested not handled beyond one level) and -- comments
    out, i, depth = [], 0, 0
    while i < len(src):
        if src.startswith("/-", i):
            depth += 1; i += 2; continue
        if src.startswith("-/", i) and depth > 0:
            depth -= 1; i += 2; continue
        if depth == 0:
            if src.startswith("--", i):
                j = src.find("\n", i)
                i = len(src) if j < 0 else j
                continue
            out.append(src[i])
        elif src[i] == "\n":
            out.append("\n")
        i += 1
    return "".join(out)


def grep_forbidden():
    hits = []
    for p in list((LEAN / "SspModel").rglob("*.lean")) + [LEAN / "Driver.lean"]:
        txt = strip_comments(p.read_text())
        for ln, line in enumerate(txt.split("\n"), 1):
            if FORBIDDEN.search(line):
                hits.append(f"{p.relative_to(LEAN)}:{ln}: {line.strip()[:120]}")
    return hits


def import_closure(prop):
    """module names (SspModel.*) the property's theorem file transitively imports"""
    seen, todo = set(), [f"SspModel.Props.{prop}"]
    while todo:
        m = todo.pop()
        if m in seen:
            continue
        seen.add(m)
        f = LEAN / (m.replace(".", "/") + ".lean")
        if f.exists():
            todo += re.findall(r"^import (SspModel\.[\w.]+)", f.read_text(), re.M)
    return seen


def item_names(item):
    """the `Generated.*` identifiers a translator item produces (None: concerns every property)"""
    kind, _, name = item.partition(":")
    if kind in ("formula", "const"):
        return [name]
    if kind == "defaults":
        return [f"default_{name}_"]
    if kind == "tables":
        return ["msto", "wdifmr"]
    if kind == "grid":
        return [f"grid_{name}"]
    if kind == "mutations":
        return ["mutations", "MutSite"]
    return None


def translator_error_concerns(prop, item, closure=None):
    """a translator failure is a broken obligation of `prop` only if a Lean module `prop` depends on refers to what could not be
    extracted (the same rule lake applies to a changed definition: only importers are rebuilt)"""
    names = item_names(item)
    if names is None:
        return True
    closure = closure or import_closure(prop)
    for m in closure:
        if m.startswith("SspModel.Generated"):
            continue
        f = LEAN / (m.replace(".", "/") + ".lean")
        if f.exists():
            txt = f.read_text()
            if any(re.search(r"Generated\." + re.escape(n), txt) for n in names):
                return True
    return False


def lean_build(prop, broken, info, extra_targets=(), tier="quick"):
    """translate + lake build of the property's modules + audit. Appends to `broken`."""
    import translate
    with Lock(LEAN / ".build.lock"):
        t0 = time.time()
        tr = translate.run()
        info["translate_s"] = round(time.time() - t0, 2)
        info["generated_changed_vs_pinned"] = tr["changed_vs_pinned"]
        closure = import_closure(prop)
        mine = [e for e in tr["errors"] if translator_error_concerns(prop, e["item"], closure)]
        info["translator_errors_elsewhere"] = [e["item"] for e in tr["errors"] if e not in mine]
        for e in mine:
            broken.append({"kind": "translator", "name": e["item"], "detail": e["error"]})
        targets = ["ssp_driver", f"SspModel.Props.{prop}"] + list(extra_targets)
        info["extra_targets"] = len(extra_targets)
        rc, out = sh(["lake", "build"] + targets, cwd=LEAN, timeout=3000)
        info["build_s"] = round(time.time() - t0, 2)
        if rc != 0:
            errs = [l for l in out.split("\n") if l.startswith("error:")]
            failed = sorted(set(re.findall(r"^- (SspModel\.[\w.]+|Driver)", out, re.M)))
            info["build_errors"] = errs[:20]
            if not tr["changed_vs_pinned"] and not tr["errors"]:  # (any translator error means the source changed)
                # the committed Lean sources do not build on an unchanged tree: infrastructure
                print("INFRASTRUCTURE: lake build failed on unchanged generated sources\n" + out[-3000:])
                sys.exit(2)
            for m in failed or ["<unknown module>"]:
                broken.append({"kind": "proof", "name": m,
                               "detail": [e for e in errs if m.split(".")[-1] in e][:5] or errs[:5]})
            return
        # audit
        audit = LEAN / "SspModel" / "Audit" / f"{prop}.lean"
        rc, out = sh(["lake", "env", "lean", str(audit.relative_to(LEAN))], cwd=LEAN, timeout=1200)
        if rc != 0:
            broken.append({"kind": "proof", "name": f"Audit.{prop}", "detail": out[-1500:]})
            return
        thms = re.findall(r"'([^']+)' depends on axioms: \[([^\]]*)\]", out.replace("\n", " "))
        noax = re.findall(r"'([^']+)' does not depend on any axioms", out)
        n_cmd = len(re.findall(r"^#print axioms", audit.read_text(), re.M))
        info["theorems"] = []
        ok = 0
        for name, axs in thms:
            axset = {a.strip() for a in axs.split(",") if a.strip()}
            bad = axset - ALLOWED_AXIOMS
            info["theorems"].append({"name": name, "axioms": sorted(axset)})
            if bad:
                broken.append({"kind": "audit", "name": name, "detail": f"disallowed axioms {sorted(bad)}"})
            else:
                ok += 1
        for name in noax:
            info["theorems"].append({"name": name, "axioms": []})
            ok += 1
        info["obligations"] = n_cmd + len(extra_targets)     # each generated table module carries one kernel-checked theorem
        info["discharged"] = ok + len(extra_targets)
        if ok != n_cmd:  # (table modules are accounted by the successful lake build above)
            broken.append({"kind": "audit", "name": f"Audit.{prop}", "detail": f"{ok}/{n_cmd} theorems reported"})
        hits = grep_forbidden()
        if hits:
            broken.append({"kind": "audit", "name": "forbidden-constructs", "detail": hits[:10]})
        if tier == "thorough":
            # second opinion: the toolchain's independent re-checker replays the compiled module (and its imports) in a fresh kernel
            rc, out = sh(["lake", "env", "leanchecker", f"SspModel.Props.{prop}"], cwd=LEAN, timeout=3000)
            info["leanchecker"] = "ok" if rc == 0 else out[-500:]
            if rc != 0:
                broken.append({"kind": "audit", "name": "leanchecker", "detail": out[-1500:]})
        info["audit_s"] = round(time.time() - t0, 2)


def load_known(prop):
    kf = json.loads((VERIF / "known_findings.json").read_text())
    return [e for e in kf["entries"] if e["property"] == prop]


def write_replay(prop, tier, seed, kind, payload):
    d = VERIF / "replays"
    d.mkdir(exist_ok=True)
    p = d / f"{prop}-{tier}-{seed}.json"
    payload = {"property": prop, "kind": kind, **payload,
               "rerun": f"./check {prop} --replay replays/{p.name}"}
    p.write_text(json.dumps(payload, indent=1, default=str))
    return p.relative_to(VERIF)


def main():
    ap = argparse.ArgumentParser()
    ap.add_argument("prop")
    ap.add_argument("--tier", default=os.environ.get("VERIF_TIER", "quick"))
    ap.add_argument("--replay")
    ap.add_argument("--no-lean", action="store_true", help="skip the Lean build (debugging only; never registered)")
    a = ap.parse_args()
    prop, tier = a.prop, a.tier
    if tier not in ("quick", "thorough"):
        tier = "quick"
    seed = int(os.environ.get("VERIF_SEED", "0") or 0)
    os.chdir(VERIF)
    common.quiet()
    mod = importlib.import_module(f"props.{prop}")
    ctx = Ctx(prop, tier, seed)

    if a.replay:
        rp = json.loads(pathlib.Path(a.replay).read_text())
        fails = rp.get("failing_input")
        if not fails:
            print(f"replay {a.replay}: no concrete failing input recorded (kind={rp.get('kind')}); "
                  f"broken obligations were: {[b['name'] for b in rp.get('broken', [])]}")
            sys.exit(1)
        still = mod.replay(ctx, fails)
        print(json.dumps({"replay": a.replay, "still_fails": bool(still), "detail": still}, indent=1, default=str))
        if still:
            print(f"VIOLATION property={prop} replay={a.replay}")
            sys.exit(1)
        sys.exit(0)

    broken, info = [], {}
    t_start = time.time()
    # ---- T + P
    if not a.no_lean:
        try:
            extra = []
            if hasattr(mod, "lean_targets"):
                extra, terrs = mod.lean_targets(ctx)
                for e in terrs:
                    broken.append({"kind": "translator", "name": e["item"], "detail": e["error"]})
            lean_build(prop, broken, info, extra, tier=ctx.tier)
        except subprocess.TimeoutExpired:
            print("INFRASTRUCTURE: lean build timed out"); sys.exit(2)
    # ---- R correspondence
    try:
        mod.corr(ctx)
    except common.DriverError as e:
        print(f"INFRASTRUCTURE: {e}"); sys.exit(2)
    for op, c in ctx.corr.items():
        if c.get("ndis", 0):
            broken.append({"kind": "correspondence", "name": op,
                           "detail": {"count": c["ndis"], "first": c["disagreements"][:3]}})
    # ---- K known findings (replayed on the real code)
    known = load_known(prop)
    known_lines, new_violations = [], []
    for e in known:
        try:
            res = mod.replay(ctx, e["replay"])
        except Exception as ex:  # a replay that cannot run is reported, not hidden
            res = {"error": f"{type(ex).__name__}: {ex}"}
        if e["kind"] == "finding":
            if res:
                known_lines.append(f"KNOWN-FINDING: property={prop} {e['id']}: {e['what']}")
            else:
                ctx.notes.append(f"listed finding {e['id']} no longer reproduces")
        elif e["kind"] == "fixed":
            if res:
                new_violations.append({"source": "fixed-entry-returned", "id": e["id"],
                                       "failing_input": e["replay"], "observed": res})
    # ---- S sweep (more effort when something is broken: this is the failing-input search)
    ctx.effort = 4 if broken else 1
    mod.sweep(ctx)
    if broken and hasattr(mod, "search"):
        mod.search(ctx, ctx.all_disagreements())
    for f in ctx.all_failures():
        kid = None
        for e in known:
            if e["kind"] == "finding" and getattr(mod, "classify")(e, f):
                kid = e["id"]; break
        if kid is None:
            new_violations.append({"source": f"sweep:{f.get('sweep')}", **f})
        else:
            line = f"KNOWN-FINDING: property={prop} {kid}: " + next(e["what"] for e in known if e["id"] == kid)
            if line not in known_lines:
                known_lines.append(line)
            ctx.notes.append(f"sweep failure classified as {kid}")

    # ---- decide
    status, replay_path = 0, None
    for l in known_lines:
        print(l)
    if new_violations:
        v = new_violations[0]
        replay_path = write_replay(prop, tier, seed, "failing-input", {
            "failing_input": v.get("failing_input"), "observed": v.get("observed"),
            "expected": v.get("expected"), "source": v.get("source"),
            "tolerance": v.get("tolerance"), "n_violations": len(new_violations),
            "others": new_violations[1:6], "broken": broken})
        print(f"VIOLATION property={prop} replay={replay_path}")
        status = 1
    elif broken:
        replay_path = write_replay(prop, tier, seed, "no-failing-input-found", {"broken": broken})
        print(f"VIOLATION property={prop} replay={replay_path} no-failing-input-found")
        status = 1

    if status == 0:
        stale = VERIF / "replays" / f"{prop}-{tier}-{seed}.json"
        if stale.exists():
            stale.unlink()
    # ---- evidence
    wall = time.time() - t_start
    corr_eval = sum(c["cases"] for c in ctx.corr.values())
    sweep_eval = sum(s["evaluations"] for s in ctx.sweeps.values())
    distinct = sum(len(s["distinct"]) for s in ctx.sweeps.values()) + sum(c["nontrivial"] for c in ctx.corr.values())
    n_obl = info.get("obligations", 0)
    n_dis = info.get("discharged", 0)
    n_broken_proof = len([b for b in broken if b["kind"] in ("proof", "audit", "translator")])
    ev = {
        "property_id": prop, "tier": tier, "seed": seed, "level": "proof",
        "coverage": {
            "obligations": max(n_obl, 1) if not a.no_lean else 1,
            "discharged": (n_dis if n_broken_proof == 0 else max(0, n_dis - n_broken_proof)) if not a.no_lean else 0,
            "checker_cmd": f"cd lean && lake build ssp_driver SspModel.Props.{prop} && lake env lean SspModel/Audit/{prop}.lean",
            "trusted_base": getattr(mod, "TRUSTED", []) + [
                "Lean 4.33 kernel; Mathlib v4.33 as checked by it; axioms ⊆ {propext, Classical.choice, Quot.sound} (audited this run)",
                "harness/translate.py (Python ast -> Lean) and Lemmas/Bridge.lean tying Generated to Model",
                "correspondence harness + compiled Float driver (libm) within 1e-12*scale of numpy"],
            "theorems": info.get("theorems", []),
            "broken": broken,
            "evaluations": corr_eval + sweep_eval,
            "distinct_nontrivial": distinct,
            "rule": getattr(mod, "RULE", ""),
            "correspondence": {op: {k: v for k, v in c.items() if k != "disagreements"} | {"disagreements": c.get("ndis", 0)}
                               for op, c in ctx.corr.items()},
            "sweeps": {n: {"evaluations": s["evaluations"], "distinct": len(s["distinct"]), "failures": s["nfail"],
                           "branches": s["branches"]} for n, s in ctx.sweeps.items()},
            "samples": ctx.samples or [{"note": "no samples recorded"}],
            "known_findings_reproduced": known_lines,
            "notes": ctx.notes,
            "timing": info,
        },
        "assumptions": getattr(mod, "ASSUMPTIONS", []),
        "wall_s": round(wall, 2),
        "violations": len(new_violations) + (1 if (broken and not new_violations) else 0),
    }
    (VERIF / "evidence").mkdir(exist_ok=True)
    (VERIF / "evidence" / f"{prop}.json").write_text(json.dumps(ev, indent=1, default=str))
    print(f"[{prop}] tier={tier} seed={seed} obligations={n_dis}/{n_obl} corr={corr_eval} sweep={sweep_eval} "
          f"broken={len(broken)} new_violations={len(new_violations)} known={len(known_lines)} wall={wall:.1f}s")
    sys.exit(status)


if __name__ == "__main__":
    try:
        main()
    except SystemExit:
        raise
    except Exception:
        traceback.print_exc()
        print("INFRASTRUCTURE: harness crashed")
        sys.exit(2)
