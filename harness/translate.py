#!/venv/bin/python
"""Translator: /repo source + data  ->  lean/SspModel/Generated/*.lean   (DESIGN §3.3)

Python `ast` extraction of whitelisted scalar expressions into Lean terms over `[Scalar α]`,
constants, small tables, file-name grids and mutation sites. Files are rewritten only when their
content changes. `run()` returns {"errors": [...], "changed_vs_pinned": bool, "files": {...}}.
`translate.py --pin` records the hashes of the current output as the pinned (clean-tree) state.
"""
import ast, hashlib, json, os, pathlib, re, sys
sys.set_int_max_str_digits(0)
from decimal import Decimal

HERE = pathlib.Path(__file__).resolve().parent
VERIF = HERE.parent
LEAN = VERIF / "lean"
GEN = LEAN / "SspModel" / "Generated"
REPO = pathlib.Path(os.environ.get("VERIF_REPO", "/repo"))
PIN = LEAN / "generated.pinned.json"


class Unsupported(Exception):
    pass


# ------------------------------------------------------------------ locating code
def find_def(tree, path):
    """path like 'EvolvedMF._derivs_sev' or 'InitialBHPopulation.from_IMF._derivs_BHs'"""
    node = tree
    for part in path.split("."):
        found = None
        for ch in ast.walk(node) if isinstance(node, ast.Module) else ast.iter_child_nodes(node):
            if isinstance(ch, (ast.FunctionDef, ast.ClassDef)) and ch.name == part:
                found = ch
                break
        if found is None:
            # nested defs may sit below other statements
            for ch in ast.walk(node):
                if isinstance(ch, (ast.FunctionDef, ast.ClassDef)) and ch.name == part and ch is not node:
                    found = ch
                    break
        if found is None:
            raise Unsupported(f"definition {path!r} not found (missing {part!r})")
        node = found
    return node


def own_nodes(fn):
    """walk a function body without descending into nested function definitions"""
    stack = list(fn.body)
    while stack:
        n = stack.pop(0)
        yield n
        for ch in ast.iter_child_nodes(n):
            if isinstance(ch, (ast.FunctionDef, ast.ClassDef, ast.Lambda)):
                continue
            stack.append(ch)


def target_str(t):
    return ast.unparse(t)


def find_assign(fn, target, nth=0):
    hits = []
    for n in own_nodes(fn):
        if isinstance(n, ast.Assign) and any(target_str(t) == target for t in n.targets):
            hits.append(n)
        elif isinstance(n, ast.AugAssign) and target_str(n.target) == target:
            hits.append(n)
        elif isinstance(n, ast.NamedExpr) and target_str(n.target) == target:
            hits.append(n)
    hits.sort(key=lambda n: (n.lineno, n.col_offset))
    if len(hits) <= nth:
        raise Unsupported(f"assignment to {target!r} (#{nth}) not found in {fn.name}")
    return hits[nth]


class Block:
    """a statement list treated like a function body by the find_* helpers"""

    def __init__(self, body, name):
        self.body, self.name = list(body), name


def find_if(fn, test_src, nth=0):
    hits = [n for n in own_nodes(fn) if isinstance(n, ast.If) and ast.unparse(n.test) == test_src]
    hits.sort(key=lambda n: (n.lineno, n.col_offset))
    if len(hits) <= nth:
        raise Unsupported(f"`if {test_src}` (#{nth}) not found in {fn.name}")
    return hits[nth]


def find_setitem(fn, target_prefix):
    """statement `<target> = value` / `<target> += value` whose target source starts with the given text"""
    hits = []
    for n in own_nodes(fn):
        if isinstance(n, ast.Assign) and any(target_str(t).startswith(target_prefix) for t in n.targets):
            hits.append(n)
        elif isinstance(n, ast.AugAssign) and target_str(n.target).startswith(target_prefix):
            hits.append(n)
    hits.sort(key=lambda n: (n.lineno, n.col_offset))
    return hits


def find_returns(fn):
    r = [n for n in own_nodes(fn) if isinstance(n, ast.Return)]
    r.sort(key=lambda n: n.lineno)
    return r


# ------------------------------------------------------------------ expression translation
def lit(x):
    if isinstance(x, bool):
        raise Unsupported("bool literal")
    if isinstance(x, int):
        if x < 0:
            return f"(-({-x} : α))"
        return f"({x} : α)"
    if isinstance(x, float):
        if x != x or x in (float("inf"), float("-inf")):
            raise Unsupported("non-finite literal")
        d = Decimal(repr(x)).normalize()
        sign, digits, exp = d.as_tuple()
        m = int("".join(map(str, digits)))
        if exp >= 0:
            s = f"({m * 10 ** exp}.0 : α)"
        else:
            s = f"({m}e-{-exp} : α)"
        return f"(-{s})" if sign else s
    raise Unsupported(f"literal {x!r}")


FUNCS = {"np.log": "log", "np.exp": "exp", "np.sqrt": "sqrt", "abs": "Scalar.abs", "np.abs": "Scalar.abs",
         "erf": "erf", "np.power": None, "pow": None}
IDENT = {"np.asarray", "np.asanyarray", "np.array", "np.float64", "float"}


class Tx:
    def __init__(self, env, masks=(), consts=None):
        self.env = env          # python source text -> lean text
        self.masks = set(masks)  # names of boolean masks whose subscripting is element-wise identity
        self.consts = consts or {}

    def __call__(self, n):
        src = ast.unparse(n)
        if src in self.env:
            return self.env[src]
        if isinstance(n, ast.Constant):
            return lit(n.value)
        if isinstance(n, ast.NamedExpr):
            return self(n.value)
        if isinstance(n, ast.Name):
            raise Unsupported(f"free name {n.id!r}")
        if isinstance(n, ast.UnaryOp) and isinstance(n.op, ast.USub):
            if isinstance(n.operand, ast.Constant):
                return lit(-n.operand.value)
            return f"(-{self(n.operand)})"
        if isinstance(n, ast.BinOp):
            a, b = self(n.left), self(n.right)
            op = {ast.Add: "+", ast.Sub: "-", ast.Mult: "*", ast.Div: "/"}.get(type(n.op))
            if op:
                return f"({a} {op} {b})"
            if isinstance(n.op, ast.Pow):
                return f"(rpow {a} {b})"
            raise Unsupported(f"operator {type(n.op).__name__}")
        if isinstance(n, ast.Call):
            f = ast.unparse(n.func)
            if f in IDENT and len(n.args) >= 1:
                return self(n.args[0])
            if f in ("np.power", "pow") and len(n.args) == 2:
                return f"(rpow {self(n.args[0])} {self(n.args[1])})"
            if f == "np.where" and len(n.args) == 3 and not n.keywords:
                return f"(if {self.cond(n.args[0])} then {self(n.args[1])} else {self(n.args[2])})"
            if f in FUNCS and FUNCS[f] and len(n.args) == 1 and not n.keywords:
                return f"({FUNCS[f]} {self(n.args[0])})"
            raise Unsupported(f"call {f}")
        if isinstance(n, ast.Subscript):
            # X[mask] with a known element-wise mask -> X
            if ast.unparse(n.slice) in self.masks:
                return self(n.value)
            raise Unsupported(f"subscript {src}")
        if isinstance(n, ast.Attribute):
            if src in self.consts:
                return lit(self.consts[src])
            raise Unsupported(f"attribute {src}")
        if isinstance(n, ast.IfExp):
            return f"(if {self.cond(n.test)} then {self(n.body)} else {self(n.orelse)})"
        raise Unsupported(f"expression {type(n).__name__}: {src}")

    def cond(self, n):
        if isinstance(n, ast.NamedExpr):
            return self.cond(n.value)
        if isinstance(n, ast.Call) and ast.unparse(n.func) in IDENT:
            return self.cond(n.args[0])
        if isinstance(n, ast.BoolOp):
            op = " && " if isinstance(n.op, ast.And) else " || "
            return "(" + op.join(self.cond(v) for v in n.values) + ")"
        if isinstance(n, ast.BinOp) and isinstance(n.op, ast.BitAnd):
            return "(" + self.cond(n.left) + " && " + self.cond(n.right) + ")"
        if isinstance(n, ast.Name) and ast.unparse(n) in self.env:
            return self.env[ast.unparse(n)]
        if isinstance(n, ast.Compare):
            parts, left = [], n.left
            for op, right in zip(n.ops, n.comparators):
                a, b = self(left), self(right)
                t = type(op)
                if t is ast.Eq:
                    parts.append(f"beq {a} {b}")
                elif t is ast.NotEq:
                    parts.append(f"!(beq {a} {b})")
                elif t is ast.Lt:
                    parts.append(f"lt {a} {b}")
                elif t is ast.Gt:
                    parts.append(f"lt {b} {a}")
                elif t is ast.LtE:
                    parts.append(f"le {a} {b}")
                elif t is ast.GtE:
                    parts.append(f"le {b} {a}")
                else:
                    raise Unsupported(f"comparison {t.__name__}")
                left = right
            return "(" + " && ".join(parts) + ")"
        raise Unsupported(f"condition {ast.unparse(n)}")


def value_of(node):
    if isinstance(node, ast.Return):
        return node.value
    if isinstance(node, (ast.Assign, ast.NamedExpr, ast.AugAssign)):
        return node.value
    raise Unsupported("node has no value")


# ------------------------------------------------------------------ the items
A3 = {"a[0]": "a0", "a[1]": "a1", "a[2]": "a2", "a0": "a0", "a1": "a1", "a2": "a2", "t": "t", "mi": "mi"}


def items(trees):
    ev, ms, ifm, kk, kr = trees["evolve_mf"], trees["masses"], trees["ifmr"], trees["kicks"], trees["Kroupa"]
    out = []

    def add(name, params, fn):
        out.append((name, params, fn))

    # --- lifetimes / sweep speed (C14, C01, C19)
    add("dmdt_sev", "a0 a1 a2 t", lambda: Tx(A3)(value_of(find_assign(find_def(ev, "EvolvedMF._derivs_sev"), "dmdt"))))
    add("dmdt_bh", "a0 a1 a2 t", lambda: Tx(A3)(value_of(find_assign(
        find_def(ev, "InitialBHPopulation.from_IMF._derivs_BHs"), "dmdt"))))
    add("tms_main", "a0 a1 a2 mi", lambda: Tx(A3)(find_returns(find_def(ev, "EvolvedMF.compute_tms"))[0].value))
    add("tms_bh", "a0 a1 a2 mi", lambda: Tx(A3)(find_returns(
        find_def(ev, "InitialBHPopulation.from_IMF.compute_tms"))[0].value))
    add("mto_main_fin", "a0 a1 a2 t", lambda: Tx(A3, masks=["asympt"])(value_of(find_assign(
        find_def(ev, "EvolvedMF.compute_mto"), "out[asympt]"))))
    add("mto_main_cond", "a0 t", lambda: Tx(A3).cond(value_of(find_assign(
        find_def(ev, "EvolvedMF.compute_mto"), "asympt"))) + " -- Bool")

    def mto_bh(which):
        fn = find_def(ev, "InitialBHPopulation.from_IMF.compute_mto")
        ifs = [n for n in own_nodes(fn) if isinstance(n, ast.If)]
        if len(ifs) != 1:
            raise Unsupported("compute_mto (BH): expected exactly one if")
        i = ifs[0]
        if not (len(i.body) == 1 and isinstance(i.body[0], ast.Return) and len(i.orelse) == 1
                and isinstance(i.orelse[0], ast.Return) and ast.unparse(i.orelse[0].value) == "np.inf"):
            raise Unsupported("compute_mto (BH): unexpected shape")
        return Tx(A3).cond(i.test) + " -- Bool" if which == "cond" else Tx(A3)(i.body[0].value)
    add("mto_bh_fin", "a0 a1 a2 t", lambda: mto_bh("fin"))
    add("mto_bh_cond", "a0 t", lambda: mto_bh("cond"))

    # --- entries of the stellar-evolution derivative (C02, C01, C19)
    def sev_item(which):
        fn = find_def(ev, "EvolvedMF._derivs_sev")
        env = {"Nj": "Nj", "mto": "mto", "alphaj": "aj", "Pk(alphaj, 1, m1, mto)": "p", "Aj": "Aj", "dNdm": "dNdm", "dmdt": "dmdt",
               "dNdt": "dNdt", "m_rem": "mrem", "frem": "frem"}
        tx = Tx(env)
        if which == "Aj":
            return tx(value_of(find_assign(fn, "Aj")))
        if which == "dNdm":
            return tx(value_of(find_assign(fn, "dNdm", 0)))
        if which == "dNdt":
            return tx(value_of(find_assign(fn, "dNdt")))
        if which in ("dNr", "dMr"):
            hits = find_setitem(fn, f"getattr({which}, cls_rem)[irem]")
            if len(hits) != 1:
                raise Unsupported(f"_derivs_sev: expected one deposit into {which}")
            return tx(hits[0].value)
        if which == "frem_source":
            src = ast.unparse(value_of(find_assign(fn, "frem")))
            if src != "self._frem[cls_rem]":
                raise Unsupported(f"_derivs_sev: retention fraction is no longer read as self._frem[cls_rem] but as `{src}`")
            return "(1 : α)"
        if which == "gate":
            i = [n for n in own_nodes(fn) if isinstance(n, ast.If) and "m_rem" in ast.unparse(n.test) and "dNdt" in ast.unparse(n.test)]
            if len(i) != 1:
                raise Unsupported("_derivs_sev: deposit condition not found")
            return Tx({"m_rem": "mrem", "dNdt": "dNdt"}).cond(i[0].test) + " -- Bool"
        if which == "active":
            i = [n for n in own_nodes(fn) if isinstance(n, ast.If) and ast.unparse(n.test).startswith("mto > m1")]
            if len(i) != 1:
                raise Unsupported("_derivs_sev: active-bin condition not found")
            return Tx({"mto": "mto", "m1": "m1", "Nj": "Nj", "self.Nmin": "nmin"}).cond(i[0].test) + " -- Bool"
        raise Unsupported(which)
    add("sev_Aj", "Nj p", lambda: sev_item("Aj"))
    add("sev_dNdm", "Aj mto aj", lambda: sev_item("dNdm"))
    add("sev_dNdt", "dNdm dmdt", lambda: sev_item("dNdt"))
    add("sev_dNr", "dNdt frem", lambda: sev_item("dNr"))
    add("sev_dMr", "mrem dNdt frem", lambda: sev_item("dMr"))
    add("sev_frem_is_table_entry", "x", lambda: sev_item("frem_source"))
    add("sev_gate", "mrem dNdt", lambda: sev_item("gate"))
    add("sev_active", "mto m1 Nj nmin", lambda: sev_item("active"))

    # --- entries of the BH-only derivative nested in InitialBHPopulation.from_IMF (C19)
    def bh_item(which):
        fn = find_def(ev, "InitialBHPopulation.from_IMF._derivs_BHs")
        env = {"Nj": "Nj", "mto": "mto", "alphas[isev]": "aj", "Pk(alphas[isev], 1, m1, mto)": "p", "Aj": "Aj", "dNdm": "dNdm", "dmdt": "dmdt",
               "dNdt": "dNdt", "m_rem": "mrem", "frem": "frem", "m1": "m1", "t": "t", "final_age": "fa"}
        tx = Tx(env)
        if which == "Aj":
            return tx(value_of(find_assign(fn, "Aj")))
        if which == "dNdm":
            return tx(value_of(find_assign(fn, "dNdm", 0)))
        if which == "dNdt":
            return tx(value_of(find_assign(fn, "dNdt")))
        if which in ("dNr", "dMr"):
            hits = find_setitem(fn, f"{which}[irem]")
            if len(hits) != 1:
                raise Unsupported(f"_derivs_BHs: expected one deposit into {which}")
            return tx(hits[0].value)
        if which == "frem":
            return Tx({})(value_of(find_assign(fn, "frem")))
        if which == "gate":
            i = [n for n in own_nodes(fn) if isinstance(n, ast.If) and "m_rem" in ast.unparse(n.test) and "final_age" in ast.unparse(n.test)]
            if len(i) != 1:
                raise Unsupported("_derivs_BHs: deposit condition not found")
            return Tx({"t": "t", "final_age": "fa", "_ifmr.predict(mto)": "mrem"}).cond(i[0].test) + " -- Bool"
        if which == "active":
            i = [n for n in own_nodes(fn) if isinstance(n, ast.If) and ast.unparse(n.test).startswith("mto > m1")]
            if len(i) != 1:
                raise Unsupported("_derivs_BHs: active-bin condition not found")
            return Tx({"mto": "mto", "m1": "m1", "Ns[isev]": "Nj"}).cond(i[0].test) + " -- Bool"
        raise Unsupported(which)
    add("bh_Aj", "Nj p", lambda: bh_item("Aj"))
    add("bh_dNdm", "Aj mto aj", lambda: bh_item("dNdm"))
    add("bh_dNdt", "dNdm dmdt", lambda: bh_item("dNdt"))
    add("bh_dNr", "dNdt frem", lambda: bh_item("dNr"))
    add("bh_dMr", "mrem dNdt frem", lambda: bh_item("dMr"))
    add("bh_frem", "x", lambda: bh_item("frem"))
    add("bh_gate", "t fa mrem", lambda: bh_item("gate"))
    add("bh_active", "mto m1 Nj", lambda: bh_item("active"))

    # --- loop bodies of the dynamical ejection (C07) and of the kick bookkeeping (C15)
    def eject_item(which):
        fn = find_def(ev, "EvolvedMF._dyn_eject_BH")
        env = {"Mr_BH[j]": "M", "Nr_BH[j]": "N", "M_eject": "mej", "Mtot_0": "Mtot", "self.BH_ret_dyn": "ret"}
        tx = Tx(env)
        loops = [n for n in own_nodes(fn) if isinstance(n, ast.While)]
        if len(loops) != 1:
            raise Unsupported("_dyn_eject_BH: expected one while loop")
        loop = loops[0]
        body = Block(loop.body, "while")
        if which == "cond":
            return tx.cond(loop.test) + " -- Bool"
        whole = [n for n in loop.body if isinstance(n, ast.If) and "M_eject" in ast.unparse(n.test) and "Mr_BH[j]" in ast.unparse(n.test)]
        if len(whole) != 1:
            raise Unsupported("_dyn_eject_BH: whole-bin test not found")
        whole = whole[0]
        if which == "whole":
            return tx.cond(whole.test) + " -- Bool"
        if which == "budget":
            a = find_setitem(Block(whole.body, "whole"), "M_eject")
            if len(a) != 1 or not isinstance(a[0], ast.AugAssign) or not isinstance(a[0].op, ast.Sub):
                raise Unsupported("_dyn_eject_BH: budget update")
            return f"(mej - {tx(a[0].value)})"
        if which in ("zeroM", "zeroN"):
            a = find_setitem(Block(whole.body, "whole"), "Mr_BH[j]" if which == "zeroM" else "Nr_BH[j]")
            if len(a) != 1:
                raise Unsupported("_dyn_eject_BH: emptied bin")
            return tx(a[0].value)
        part = Block(whole.orelse, "partial")
        env["mr_BH_j"] = tx(value_of(find_assign(part, "mr_BH_j")))
        if which in ("partM", "partN"):
            tgt = "Mr_BH[j]" if which == "partM" else "Nr_BH[j]"
            a = find_setitem(part, tgt)
            if len(a) != 1 or not isinstance(a[0], ast.AugAssign) or not isinstance(a[0].op, ast.Sub):
                raise Unsupported("_dyn_eject_BH: partial removal")
            return f"({env[tgt]} - {tx(a[0].value)})"
        if which == "initial":
            return tx(value_of(find_assign(fn, "M_eject", 0)))
        raise Unsupported(which)
    add("eject_cond", "mej", lambda: eject_item("cond"))
    add("eject_whole", "M mej", lambda: eject_item("whole"))
    add("eject_budget", "M mej", lambda: eject_item("budget"))
    add("eject_zeroM", "x", lambda: eject_item("zeroM"))
    add("eject_zeroN", "x", lambda: eject_item("zeroN"))
    add("eject_partM", "M N mej", lambda: eject_item("partM"))
    add("eject_partN", "M N mej", lambda: eject_item("partN"))
    add("eject_initial", "Mtot ret", lambda: eject_item("initial"))

    def target_item(which):
        fn = find_def(ev, "EvolvedMFWithBH._dyn_eject_BH")
        env = {"Mr_BH[j]": "M", "Nr_BH[j]": "N", "MBH": "MBH", "Mtot": "Mtot", "fBH_target": "f", "fBH_current": "cur"}
        tx = Tx(env)
        loops = [n for n in own_nodes(fn) if isinstance(n, ast.While)]
        if len(loops) != 1:
            raise Unsupported("EvolvedMFWithBH._dyn_eject_BH: expected one while loop")
        loop = loops[0]
        if which == "cond":
            # `(target < (cur := MBH / Mtot)) and (j >= 0)`: the index part is the list recursion of the model
            t = loop.test
            if not (isinstance(t, ast.BoolOp) and isinstance(t.op, ast.And) and len(t.values) == 2 and ast.unparse(t.values[1]) == "j >= 0"):
                raise Unsupported("EvolvedMFWithBH._dyn_eject_BH: loop condition shape")
            return Tx({"fBH_target": "f", "MBH": "MBH", "Mtot": "Mtot"}).cond(t.values[0]) + " -- Bool"
        whole = [n for n in loop.body if isinstance(n, ast.If)]
        if len(whole) != 1:
            raise Unsupported("EvolvedMFWithBH._dyn_eject_BH: whole-bin test not found")
        whole = whole[0]
        if which == "whole":
            return tx.cond(whole.test) + " -- Bool"
        wb = Block(whole.body, "whole")
        if which in ("MBH", "Mtot"):
            a = find_setitem(wb, which)
            if len(a) != 1 or not isinstance(a[0], ast.AugAssign) or not isinstance(a[0].op, ast.Sub):
                raise Unsupported("EvolvedMFWithBH._dyn_eject_BH: running totals")
            return f"({which} - {tx(a[0].value)})"
        part = Block(whole.orelse, "partial")
        if which == "dfreq":
            return tx(value_of(find_assign(part, "Δfreq")))
        if which == "mreq_args":
            call = value_of(find_assign(part, "Mreq"))
            if not (isinstance(call, ast.Call) and ast.unparse(call.func) == "Mrem" and [ast.unparse(x) for x in call.args] == ["Δfreq", "MBH", "Mtot"]):
                raise Unsupported("EvolvedMFWithBH._dyn_eject_BH: Mreq is no longer Mrem(Δfreq, MBH, Mtot)")
            return "(1 : α)"
        env["mr_BH_j"] = tx(value_of(find_assign(part, "mr_BH_j")))
        env["Mreq"] = "req"
        tgt = "Mr_BH[j]" if which == "partM" else "Nr_BH[j]"
        a = find_setitem(part, tgt)
        if len(a) != 1 or not isinstance(a[0], ast.AugAssign) or not isinstance(a[0].op, ast.Sub):
            raise Unsupported("EvolvedMFWithBH._dyn_eject_BH: partial removal")
        return f"({env[tgt]} - {tx(a[0].value)})"
    add("target_cond", "f MBH Mtot", lambda: target_item("cond"))
    add("target_whole", "M MBH Mtot f", lambda: target_item("whole"))
    add("target_MBH", "M MBH", lambda: target_item("MBH"))
    add("target_Mtot", "M Mtot", lambda: target_item("Mtot"))
    add("target_dfreq", "cur f", lambda: target_item("dfreq"))
    add("target_mreq_is_Mrem", "x", lambda: target_item("mreq_args"))
    add("target_partM", "M N req", lambda: target_item("partM"))
    add("target_partN", "M N req", lambda: target_item("partN"))

    # --- remnant-bin carving masks and the bin lookup (C13), row extraction (C04, C05)
    def carve_item(which):
        fn = find_def(ms, "MassBins.__init__")
        env = {"bins_MS.lower": "l", "bins_MS.upper": "u", "ifmr.WD_mf.upper": "x", "ifmr.BH_mf.lower": "x"}
        tx = Tx(env)
        if which in ("WD_mask", "BH_mask", "NS_mask"):
            return tx.cond(value_of(find_assign(fn, which))) + " -- Bool"
        if which == "WD_edge":
            a = find_setitem(fn, "bins_WD.upper[-1]")
            if len(a) != 1 or ast.unparse(a[0].value) != "ifmr.WD_mf.upper":
                raise Unsupported("MassBins: the last WD bin is no longer cut at ifmr.WD_mf.upper")
            return "(1 : α)"
        if which == "BH_edge":
            a = find_setitem(fn, "bins_BH.lower[0]")
            if len(a) != 1 or ast.unparse(a[0].value) != "ifmr.BH_mf.lower":
                raise Unsupported("MassBins: the first BH bin no longer starts at ifmr.BH_mf.lower")
            return "(1 : α)"
        raise Unsupported(which)
    add("carve_WD_mask", "l u x", lambda: carve_item("WD_mask"))
    add("carve_BH_mask", "l u x", lambda: carve_item("BH_mask"))
    add("carve_NS_mask", "l u", lambda: carve_item("NS_mask"))
    add("carve_WD_edge_is_WDmax", "x", lambda: carve_item("WD_edge"))
    add("carve_BH_edge_is_BHmin", "x", lambda: carve_item("BH_edge"))

    def nseg_item():
        fn = find_def(ms, "MassBins.__init__")
        a = value_of(find_assign(fn, "N_MS_breaks"))
        if ast.unparse(a) != "len(m_break) - 1":
            raise Unsupported(f"MassBins: the number of stellar segments is now `{ast.unparse(a)}`, not len(m_break) - 1")
        calls = [n for n in own_nodes(fn) if isinstance(n, ast.Call) and ast.unparse(n.func) == "_divide_bin_sizes"]
        if len(calls) != 1 or [ast.unparse(x) for x in calls[0].args] != ["nbin_MS", "N_MS_breaks"]:
            raise Unsupported("MassBins: an integer bin count is no longer divided by _divide_bin_sizes(nbin_MS, N_MS_breaks)")
        return "(1 : α)"
    add("bins_nseg_is_breaks_minus_one", "x", nseg_item)

    def lookup_item(which):
        fn = find_def(ms, "MassBins.determine_index")
        if which == "le":
            a = value_of(find_assign(fn, "ind"))
            src = ast.unparse(a)
            if src != "np.flatnonzero(massbins.lower <= mass)[-1]":
                raise Unsupported(f"determine_index: index expression is now `{src}`")
            return Tx({"massbins.lower": "l", "mass": "m"}).cond(a.value.args[0]) + " -- Bool"
        if which == "over":
            i = [n for n in own_nodes(fn) if isinstance(n, ast.If) and "allow_overflow" in ast.unparse(n.test)]
            if len(i) != 1:
                raise Unsupported("determine_index: overflow test not found")
            t = i[0].test
            if not (isinstance(t, ast.BoolOp) and len(t.values) == 2 and ast.unparse(t.values[1]) == "allow_overflow is False"):
                raise Unsupported("determine_index: overflow test shape")
            return Tx({"massbins.upper[-1]": "u", "mass": "m"}).cond(t.values[0]) + " -- Bool"
        if which == "last":
            i = [n for n in own_nodes(fn) if isinstance(n, ast.If) and ast.unparse(n.test).startswith("ind >=")]
            if len(i) != 1 or ast.unparse(i[0].test) != "ind >= massbins.upper.size - 1":
                raise Unsupported("determine_index: last-bin test changed")
            return "(1 : α)"
        raise Unsupported(which)
    add("lookup_le", "l m", lambda: lookup_item("le"))
    add("lookup_over", "u m", lambda: lookup_item("over"))
    add("lookup_last_bin_test", "x", lambda: lookup_item("last"))

    def row_item(which, cls="EvolvedMF"):
        fn = find_def(ev, f"{cls}._evolve")
        env = {"Ns": "n", "Pk(alpha, 1, *bins_MS)": "p1", "Pk(alpha, 2, *bins_MS)": "p2", "As": "A", "Ms": "Ms",
               "Ns[thin]": "n", "bins_MS.lower[thin]": "lo", "Mr.BH.sum()": "formed", "self.BH_ret_dyn": "ret", "M_eject": "mej",
               "M_ret": "mret", "m_BH_min": "mmin", "self.Nmin": "nmin", "kicked": "kicked"}
        tx = Tx(env)
        if which == "As":
            return tx(value_of(find_assign(fn, "As")))
        if which == "Ms":
            return tx(value_of(find_assign(fn, "Ms", 0)))
        if which == "thin":
            src = ast.unparse(value_of(find_assign(fn, "thin")))
            if src != "np.isnan(Ms)":
                raise Unsupported(f"_evolve: thin-bin rule is now keyed on `{src}`")
            a = find_setitem(fn, "Ms[thin]")
            if len(a) != 1:
                raise Unsupported("_evolve: thin-bin assignment")
            return tx(a[0].value)
        if which == "ms":
            a = find_setitem(fn, "self.ms[iout, :]")
            if len(a) != 1:
                raise Unsupported("_evolve: ms row")
            return tx(a[0].value)
        if which == "mej":
            return tx(value_of(find_assign(fn, "M_eject", 0)))
        if which == "mret":
            return tx(value_of(find_assign(fn, "M_ret")))
        if which == "shortcut":
            i = [n for n in own_nodes(fn) if isinstance(n, ast.If) and "M_ret / m_BH_min" in ast.unparse(n.test)]
            if len(i) != 1:
                raise Unsupported("_evolve: kick-all shortcut test not found")
            return tx.cond(i[0].test) + " -- Bool"
        if which == "after_kicks":
            a = [n for n in find_setitem(fn, "M_eject") if isinstance(n, ast.AugAssign)]
            if len(a) != 1 or not isinstance(a[0].op, ast.Sub):
                raise Unsupported("_evolve: kicks not subtracted from the budget")
            return f"(mej - {tx(a[0].value)})"
        if which == "over":
            i = [n for n in own_nodes(fn) if isinstance(n, ast.If) and ast.unparse(n.test) == "M_eject < 0"]
            if len(i) != 1:
                raise Unsupported("_evolve: kicks-over-budget test not found")
            return tx.cond(i[0].test) + " -- Bool"
        raise Unsupported(which)
    for cls, pre in (("EvolvedMF", "row"), ("EvolvedMFWithBH", "rowbh")):
        add(f"{pre}_As", "n p1", lambda cls=cls: row_item("As", cls))
        add(f"{pre}_Ms", "A p2", lambda cls=cls: row_item("Ms", cls))
        add(f"{pre}_thin", "n lo", lambda cls=cls: row_item("thin", cls))
        add(f"{pre}_ms", "Ms n", lambda cls=cls: row_item("ms", cls))
    add("row_mej", "formed ret", lambda: row_item("mej"))
    add("row_mret", "formed mej", lambda: row_item("mret"))
    add("row_shortcut", "mret mmin nmin", lambda: row_item("shortcut"))
    add("row_after_kicks", "mej kicked", lambda: row_item("after_kicks"))
    add("row_over_budget", "mej", lambda: row_item("over"))

    # --- IMF: the conditions that select a segment for a mass / a bin, and the continuity recursion (C11, C01)
    def imf_item(which):
        fn = find_def(ms, "PowerLawIMF.__call__" if which.startswith("call") else "PowerLawIMF.binned_eval" if which.startswith("bin") else "PowerLawIMF.__init__")
        if which == "A_step":
            a = find_setitem(fn, "self._A_comps[i - 1]")
            if len(a) != 1:
                raise Unsupported("PowerLawIMF.__init__: continuity recursion not found")
            return Tx({"self._A_comps[i]": "Ai", "mb[i]": "mbi", "a[i]": "ai", "a[i - 1]": "aim1"})(a[0].value)
        var = "bounds" if which.startswith("call") else "bin_masks"
        lists = [n for n in own_nodes(fn) if isinstance(n, ast.Assign) and target_str(n.targets[0]) == var]
        lists.sort(key=lambda n: n.lineno)
        if len(lists) != 3:
            raise Unsupported(f"{fn.name}: expected three assignments of {var}")
        ext_list, in_list = lists[1].value, lists[2].value
        env = {"mass": "m", "bins.lower": "l", "bins.upper": "u", "self.mb[1]": "b1", "self.mb[-2]": "bl", "lw_bnd": "lo", "up_bnd": "hi"}
        tx = Tx(env)
        if not (isinstance(ext_list, ast.List) and len(ext_list.elts) == 3 and isinstance(ext_list.elts[1], ast.Starred)
                and isinstance(ext_list.elts[1].value, ast.GeneratorExp)):
            raise Unsupported(f"{fn.name}: extrapolate-mode condition list changed shape")
        gen_ = ext_list.elts[1].value
        if ast.unparse(gen_.generators[0].iter) != "zip(self.mb[1:-2], self.mb[2:-1])":
            raise Unsupported(f"{fn.name}: middle segments are now paired by `{ast.unparse(gen_.generators[0].iter)}`")
        if not (isinstance(in_list, ast.ListComp) and ast.unparse(in_list.generators[0].iter) == "zip(self.mb[:-1], self.mb[1:])"):
            raise Unsupported(f"{fn.name}: in-range segments are no longer paired by zip(self.mb[:-1], self.mb[1:])")
        kind = which.split("_", 1)[1]
        node = {"first": ext_list.elts[0], "mid": gen_.elt, "last": ext_list.elts[2], "in": in_list.elt}[kind]
        return tx.cond(node) + " -- Bool"
    add("imf_A_step", "Ai mbi ai aim1", lambda: imf_item("A_step"))
    add("call_first", "m b1", lambda: imf_item("call_first"))
    add("call_mid", "m lo hi", lambda: imf_item("call_mid"))
    add("call_last", "m bl", lambda: imf_item("call_last"))
    add("call_in", "m lo hi", lambda: imf_item("call_in"))
    add("bin_first", "l u b1", lambda: imf_item("bin_first"))
    add("bin_mid", "l u lo hi", lambda: imf_item("bin_mid"))
    add("bin_last", "l u bl", lambda: imf_item("bin_last"))
    add("bin_in", "l u lo hi", lambda: imf_item("bin_in"))

    # --- shape of the schedule / extraction loop (C06, C07, C17): syntactic obligations, value 1 when the source has the expected shape
    def sched_item(which, cls="EvolvedMF"):
        init = find_def(ev, "EvolvedMF.__init__")
        fn = find_def(ev, f"{cls}._evolve")
        def src(n):
            return ast.unparse(n)
        if which == "grid":
            want = "np.sort(np.r_[self.tms_u[self.tms_u < t_end], self.tout])"
            got = src(value_of(find_assign(init, "self.t")))
            if got != want or src(value_of(find_assign(init, "t_end"))) != "np.max(tout)":
                raise Unsupported(f"integration grid is now `{got}`")
            return "(1 : α)"
        loops = [n for n in fn.body if isinstance(n, ast.For) and src(n.iter) == "self.t" and src(n.target) == "ti"]
        if len(loops) != 1:
            raise Unsupported(f"{cls}._evolve: `for ti in self.t` not found")
        loop = loops[0]
        if which == "integrate_first":
            first = loop.body[0]
            if not (isinstance(first, ast.Expr) and src(first.value) == "sol.integrate(ti)"):
                raise Unsupported(f"{cls}._evolve: the loop no longer starts with sol.integrate(ti)")
            return "(1 : α)"
        inner = [n for n in loop.body if isinstance(n, ast.For)]
        if len(inner) != 1 or src(inner[0].iter) != "np.flatnonzero(self.tout == ti)" or src(inner[0].target) != "iout":
            raise Unsupported(f"{cls}._evolve: rows are no longer selected with np.flatnonzero(self.tout == ti)")
        if which == "rows":
            return "(1 : α)"
        if which == "copy":
            # every row works on its own copy of the solver state (ejection and kicks edit the arrays in place)
            a = [n for n in inner[0].body if isinstance(n, ast.Assign) and "unpack_values" in src(n.value)]
            if len(a) != 1 or src(a[0].value) != "self.massbins.unpack_values(sol.y.copy(), grouped_rem=True)":
                raise Unsupported(f"{cls}._evolve: the row no longer unpacks its own copy of the solver state")
            others = [n for n in ast.walk(loop) if isinstance(n, ast.Attribute) and src(n) == "sol.y"]
            if len(others) != 1:
                raise Unsupported(f"{cls}._evolve: the solver state is read {len(others)} times in the loop")
            return "(1 : α)"
        if which == "flag":
            after = fn.body[fn.body.index(loop) + 1:]
            a = [n for n in after if isinstance(n, ast.Assign) and src(n.targets[0]) == "self.converged"]
            if len(a) != 1 or src(a[0].value) != "sol.successful()":
                raise Unsupported(f"{cls}._evolve: the convergence flag is no longer read from sol.successful() after the loop")
            w = [n for n in after if isinstance(n, ast.If) and src(n.test) == "not self.converged"]
            if len(w) != 1 or "warnings.warn" not in src(w[0]):
                raise Unsupported(f"{cls}._evolve: no warning on non-convergence")
            return "(1 : α)"
        raise Unsupported(which)
    add("sched_grid_shape", "x", lambda: sched_item("grid"))
    for cls, pre in (("EvolvedMF", "sched"), ("EvolvedMFWithBH", "schedbh")):
        add(f"{pre}_integrate_first", "x", lambda cls=cls: sched_item("integrate_first", cls))
        add(f"{pre}_rows_by_equality", "x", lambda cls=cls: sched_item("rows", cls))
        add(f"{pre}_row_owns_copy", "x", lambda cls=cls: sched_item("copy", cls))
        add(f"{pre}_flag_after_loop", "x", lambda cls=cls: sched_item("flag", cls))

    def kick_item(which):
        fn = find_def(kk, "_unbound_natal_kicks")
        env = {"Mr_BH[j]": "M", "Nr_BH[j]": "N", "retention": "ret", "natal_ejecta": "acc"}
        tx = Tx(env)
        if which == "arg":
            call = value_of(find_assign(fn, "retention"))
            if not (isinstance(call, ast.Call) and ast.unparse(call.func) == "f_ret" and len(call.args) == 1):
                raise Unsupported("_unbound_natal_kicks: retention call shape")
            return tx(call.args[0])
        tgt = {"acc": "natal_ejecta", "M": "Mr_BH[j]", "N": "Nr_BH[j]"}[which]
        a = [n for n in find_setitem(fn, tgt) if isinstance(n, ast.AugAssign)]
        if len(a) != 1:
            raise Unsupported(f"_unbound_natal_kicks: update of {tgt}")
        op = {ast.Add: "+", ast.Mult: "*"}.get(type(a[0].op))
        if op is None:
            raise Unsupported("_unbound_natal_kicks: operator")
        return f"({env[tgt]} {op} {tx(a[0].value)})"
    add("kick_arg", "M N", lambda: kick_item("arg"))
    add("kick_acc", "acc M ret", lambda: kick_item("acc"))
    add("kick_M", "M ret", lambda: kick_item("M"))
    add("kick_N", "N ret", lambda: kick_item("N"))

    # --- entries of the escape derivative (C03, C05, C18)
    def esc_blocks():
        fn = find_def(ev, "EvolvedMF._derivs_esc")
        pre = find_if(fn, "t < self.tcc")
        preM = find_if(Block(pre.body, "pre"), "self._esc_norm == 'M'")
        if len(preM.orelse) != 1 or not isinstance(preM.orelse[0], ast.If) or ast.unparse(preM.orelse[0].test) != "self._esc_norm == 'N'":
            raise Unsupported("_derivs_esc: pre-collapse 'N' branch not found")
        return fn, Block(preM.body, "preM"), Block(preM.orelse[0].body, "preN")

    def esc_pre(which, target):
        fn, bM, bN = esc_blocks()
        blk = bM if which == "M" else bN
        env = {"esc_rate": "rate", "Ns": "N", "Nr[c][sel]": "N", "Mr[c][sel]": "M", "M_sum": "D", "N_sum": "D"}
        try:
            env["mr"] = Tx(env)(value_of(find_assign(blk, "mr")))
        except Unsupported:
            pass
        hits = find_setitem(blk, target)
        if len(hits) != 1:
            raise Unsupported(f"_derivs_esc pre/{which}: expected one update of {target}, found {len(hits)}")
        return Tx(env)(hits[0].value)
    add("esc_preM_dNs", "rate N D", lambda: esc_pre("M", "dNs"))
    add("esc_preM_dNr", "rate N M D", lambda: esc_pre("M", "dNr[c][sel]"))
    add("esc_preM_dMr", "rate N M D", lambda: esc_pre("M", "dMr[c][sel]"))
    add("esc_preN_dNs", "rate N D", lambda: esc_pre("N", "dNs"))
    add("esc_preN_dNr", "rate N M D", lambda: esc_pre("N", "dNr[c][sel]"))
    add("esc_preN_dMr", "rate N M D", lambda: esc_pre("N", "dMr[c][sel]"))

    def esc_post(which):
        fn = find_def(ev, "EvolvedMF._derivs_esc")
        env = {"Ns": "n", "md": "md", "P1": "p1", "P15": "p15", "P2": "p2", "P25": "p25", "B": "B", "esc_rate": "rate",
               "Nr[c][rem_mask]": "N", "Mr[c][rem_mask]": "M", "Ir[c][rem_mask]": "I", "Jr[c][rem_mask]": "J", "Is": "I", "finite_mask": "fin",
               "bins_MS.lower[depl_mask]": "lo", "bins_MS.upper[depl_mask]": "hi",
               "np.sum(Js)": "sJs", "np.sum(np.r_[Jr])": "sJr", "np.sum(Is)": "sIs", "np.sum(np.r_[Ir])": "sIr"}
        tx = Tx(env, masks=["depl_mask"])
        env["ms"] = tx(value_of(find_assign(fn, "ms")))
        env["Ms"] = tx(value_of(find_assign(fn, "Ms")))
        mrs = [n for n in own_nodes(fn) if isinstance(n, ast.Assign) and target_str(n.targets[0]) == "mr"
               and "rem_mask" in ast.unparse(n.value)]
        if len(mrs) != 1:
            raise Unsupported("_derivs_esc post: remnant mean mass assignment not found")
        env["mr"] = tx(mrs[0].value)
        if which == "depl":
            return tx.cond(value_of(find_assign(fn, "depl_mask"))) + " -- Bool"
        if which == "Is":
            return tx(value_of(find_assign(fn, "Is")))
        if which in ("Js0", "Js1"):
            return tx(value_of(find_assign(fn, "Js", int(which[-1]))))
        if which in ("Ir", "Jr"):
            hits = find_setitem(fn, f"{which}[c][rem_mask]")
            if len(hits) != 1:
                raise Unsupported(f"_derivs_esc post: expected one assignment of {which}")
            return tx(hits[0].value)
        if which in ("BM", "BN"):
            return tx(value_of(find_assign(fn, "B", 0 if which == "BM" else 1)))
        if which in ("dNs", "dalpha"):
            hits = find_setitem(fn, f"{which}[depl_mask]")
            if len(hits) != 1:
                raise Unsupported(f"_derivs_esc post: expected one update of {which}[depl_mask]")
            return tx(hits[0].value)
        if which in ("dNr", "dMr"):
            hits = find_setitem(fn, f"{which}[c][rem_mask]")
            if len(hits) != 1:
                raise Unsupported(f"_derivs_esc post: expected one update of {which}[c][rem_mask]")
            return tx(hits[0].value)
        raise Unsupported(which)
    add("esc_depl", "p1 p2 md", lambda: esc_post("depl").replace(" && fin)", ")"))
    add("esc_Is", "n md p1 p15", lambda: esc_post("Is"))
    add("esc_Js_a", "n md p1 p2 p25", lambda: esc_post("Js0"))
    add("esc_Js_b", "n md p1 p2 p25", lambda: esc_post("Js1"))
    add("esc_Ir", "N M md", lambda: esc_post("Ir"))
    add("esc_Jr", "N M md", lambda: esc_post("Jr"))
    add("esc_B_M", "rate sJs sJr", lambda: esc_post("BM"))
    add("esc_B_N", "rate sIs sIr", lambda: esc_post("BN"))
    add("esc_post_dNs", "B I", lambda: esc_post("dNs"))
    add("esc_post_dalpha", "B lo hi md", lambda: esc_post("dalpha"))
    add("esc_post_dNr", "B I J", lambda: esc_post("dNr"))
    add("esc_post_dMr", "B I J", lambda: esc_post("dMr"))

    # --- Pk (C12)
    pkenv = {"a": "a", "k": "k", "m1": "m1", "m2": "m2"}

    def pk_main():
        fn = find_def(ms, "Pk")
        return Tx(pkenv)(value_of(find_assign(fn, "res")))

    def pk_log():
        fn = find_def(ms, "Pk")
        return Tx(pkenv, masks=["casemask"])(value_of(find_assign(fn, "res[casemask]")))

    def pk_mask():
        fn = find_def(ms, "Pk")
        return Tx(pkenv).cond(find_assign(fn, "casemask")) + " -- Bool"
    add("pk_main", "a k m1 m2", pk_main)
    add("pk_log", "a k m1 m2", pk_log)
    add("pk_mask", "a k", pk_mask)

    # --- target-fraction closed form (C08)
    add("mrem", "dfbh Mb Mt", lambda: Tx({"Δfbh": "dfbh", "Mb": "Mb", "Mt": "Mt"})(
        find_returns(find_def(ev, "EvolvedMFWithBH._dyn_eject_BH.Mrem"))[0].value))

    # --- analytic IFMR line (C09, C17)
    add("line", "mi exponent slope scale", lambda: Tx({k: k for k in ("mi", "exponent", "slope", "scale")})(
        find_returns(find_def(ifm, "_line"))[0].value))

    # --- kicks (C15)
    add("sigmoid", "m slope scale", lambda: Tx({k: k for k in ("m", "slope", "scale")})(
        find_returns(find_def(kk, "_sigmoid_retention_frac"))[0].value))

    def maxw():
        fn = find_def(kk, "_maxwellian_retention_frac._maxwellian")
        env = {"x": "x", "a": "a", "np.pi": "pi"}
        tx = Tx(env)
        for st in fn.body:
            if isinstance(st, ast.Assign):
                env[target_str(st.targets[0])] = tx(st.value)
            elif isinstance(st, ast.Return):
                return tx(st.value)
        raise Unsupported("_maxwellian: no return")
    add("maxwellian", "x a", maxw)

    # --- Kroupa (C20)
    def if_return(path, env):
        fn = find_def(kr, path)
        body = [s for s in fn.body if not (isinstance(s, ast.Expr) and isinstance(s.value, ast.Constant))]
        if len(body) == 1 and isinstance(body[0], ast.If):
            i = body[0]
            if (len(i.body) == 1 and isinstance(i.body[0], ast.Return) and len(i.orelse) == 1
                    and isinstance(i.orelse[0], ast.Return)):
                tx = Tx(env)
                return f"(if {tx.cond(i.test)} then {tx(i.body[0].value)} else {tx(i.orelse[0].value)})"
        raise Unsupported(f"{path}: unexpected shape")
    kenv = {"xmin": "xmin", "xmax": "xmax", "a": "a"}
    add("kroupa_mom0", "xmin xmax a", lambda: if_return("Kroupa._mom0", kenv))
    add("kroupa_mom1", "xmin xmax a", lambda: if_return("Kroupa._mom1", kenv))

    def getmass():
        fn = find_def(kr, "Kroupa._getmass")
        env0 = {"x": "x", "slope": "slope", "xmin": "xmin", "xmax": "xmax"}

        def block(stmts, env):
            """translate a statement list ending in a return into one expression (assignments are inlined)"""
            env = dict(env)
            tx = Tx(env)
            for k, st in enumerate(stmts):
                if isinstance(st, ast.Expr) and isinstance(st.value, ast.Constant):
                    continue
                if isinstance(st, ast.Assign):
                    env[target_str(st.targets[0])] = tx(st.value)
                elif isinstance(st, ast.Return):
                    return tx(st.value)
                elif isinstance(st, ast.If):
                    rest = stmts[k + 1:]
                    then_ret = any(isinstance(x, ast.Return) for x in st.body)
                    else_ret = any(isinstance(x, ast.Return) for x in st.orelse)
                    a = block(list(st.body) + ([] if then_ret else rest), env)
                    b = block(list(st.orelse) + ([] if else_ret else rest), env)
                    return f"(if {tx.cond(st.test)} then {a} else {b})"
                else:
                    raise Unsupported(f"_getmass: statement {type(st).__name__}")
            raise Unsupported("_getmass: no return")
        return block(fn.body, env0)
    add("kroupa_getmass", "x slope xmin xmax", getmass)
    return out


# ------------------------------------------------------------------ constants
def constants(trees):
    import numpy as np
    ev, ms, kk = trees["evolve_mf"], trees["masses"], trees["kicks"]
    c, errs = {}, []

    def grab(name, fn):
        try:
            c[name] = fn()
        except Exception as e:  # noqa
            errs.append({"item": f"const:{name}", "error": f"{type(e).__name__}: {e}"})

    init = find_def(ev, "EvolvedMF.__init__")
    grab("Nmin", lambda: float(ast.literal_eval(find_assign(init, "self.Nmin").value)))

    def empty_factor():
        prop = find_def(ev, "EvolvedMF.nms")
        r = find_returns(prop)[0].value
        src = ast.unparse(r)
        m = re.search(r"> (\d+) \* self\.Nmin", src)
        if not m:
            raise Unsupported(f"nms filter shape: {src}")
        return float(m.group(1))
    grab("emptyFactor", empty_factor)

    def integ(kw, cls="EvolvedMF._evolve"):
        fn = find_def(ev, cls)
        for n in own_nodes(fn):
            if isinstance(n, ast.Call) and ast.unparse(n.func) == "sol.set_integrator":
                for k in n.keywords:
                    if k.arg == kw:
                        return float(ast.literal_eval(k.value))
        raise Unsupported(f"set_integrator {kw}")
    for kw in ("atol", "rtol", "max_step"):
        grab(kw, lambda kw=kw: integ(kw))
        grab(kw + "_withbh", lambda kw=kw: integ(kw, "EvolvedMFWithBH._evolve"))
        grab(kw + "_bhpop", lambda kw=kw: integ(kw, "InitialBHPopulation.from_IMF"))
    grab("resolution", lambda: float(np.finfo(float).resolution))

    def kick_skip():
        fn = find_def(kk, "_unbound_natal_kicks")
        for n in own_nodes(fn):
            if isinstance(n, ast.If) and "Nr_BH[j] <" in ast.unparse(n.test):
                return float(ast.literal_eval(n.test.comparators[0]))
        raise Unsupported("kick skip threshold")
    grab("kickSkip", kick_skip)

    def bh_nmin():
        fn = find_def(ev, "InitialBHPopulation.from_IMF._derivs_BHs")
        for n in own_nodes(fn):
            if isinstance(n, ast.If) and "Nj := Ns[isev]" in ast.unparse(n.test):
                return float(ast.literal_eval(n.test.values[1].comparators[0]))
        raise Unsupported("BH Nmin")
    grab("NminBH", bh_nmin)

    def final_age_offset():
        fn = find_def(ev, "InitialBHPopulation.from_IMF")
        v = find_assign(fn, "final_age").value
        return float(ast.literal_eval(v.args[0].right))
    grab("finalAgeOffset", final_age_offset)

    def ns_mask_mass():
        fn = find_def(ms, "MassBins.__init__")
        v = find_assign(fn, "NS_mask").value
        src = ast.unparse(v)
        m = re.findall(r"(\d+\.\d+)", src)
        if len(m) != 2 or m[0] != m[1]:
            raise Unsupported(f"NS mask: {src}")
        return float(m[0])
    grab("nsMaskMass", ns_mask_mass)

    # keyword defaults of the public constructors
    def defaults(tree, path):
        fn = find_def(tree, path)
        a = fn.args
        d = {}
        pos = a.posonlyargs + a.args
        for arg, dv in zip(pos[len(pos) - len(a.defaults):], a.defaults):
            d[arg.arg] = ast.literal_eval(dv)
        for arg, dv in zip(a.kwonlyargs, a.kw_defaults):
            if dv is not None:
                d[arg.arg] = ast.literal_eval(dv)
        return d
    dflt = {}
    for key, (tree, path) in {"EvolvedMF": (ev, "EvolvedMF.__init__"), "IFMR": (trees["ifmr"], "IFMR.__init__"),
                              "maxwellian": (kk, "_maxwellian_retention_frac"),
                              "linear_BH": (trees["ifmr"], "_linear_BH_predictor"),
                              "powerlaw_BH": (trees["ifmr"], "_powerlaw_BH_predictor"),
                              "brokenpl_BH": (trees["ifmr"], "_brokenpl_BH_predictor"),
                              "linear_WD": (trees["ifmr"], "_linear_WD_predictor")}.items():
        try:
            dflt[key] = defaults(tree, path)
        except Exception as e:
            errs.append({"item": f"defaults:{key}", "error": f"{type(e).__name__}: {e}"})
    return c, dflt, errs


# ------------------------------------------------------------------ tables
def dec_scaled(tok, k):
    """exact decimal text -> integer = value * 10^k (must be exact)"""
    d = Decimal(tok) * (Decimal(10) ** k)
    if d != d.to_integral_value():
        raise Unsupported(f"decimal {tok} has more than {k} fractional digits")
    v = int(d)
    return str(v) if v >= 0 else f"({v})"


def read_rows(path):
    rows = []
    for line in path.read_text().split("\n"):
        line = line.strip()
        if not line or line.startswith("#"):
            continue
        rows.append(line.split())
    return rows


def file_grid(loc):
    vals = []
    names = []
    for fn in sorted((REPO / "ssptools" / "data" / loc).glob("*dat")):
        stem = fn.stem.split("FEH")[-1]
        names.append(stem)
        vals.append(int(round(float(stem) * 100)))
    return names, vals


# ------------------------------------------------------------------ mutation sites (C16)
MUTATING_METHODS = {"setdefault", "update", "pop", "popitem", "append", "extend", "sort", "clear", "fill",
                    "insert", "remove", "reverse", "resize", "put", "itemset", "partition"}
PUBLIC = {
    "ifmr": ["IFMR.__init__", "_MIST18_WD_predictor", "_linear_WD_predictor", "_Ba20_r_BH_predictor",
             "_Ba20_d_BH_predictor", "_COSMIC_r_BH_predictor", "_COSMIC_d_BH_predictor", "_linear_BH_predictor",
             "_powerlaw_BH_predictor", "_brokenpl_BH_predictor", "_powerlaw_predictor", "_broken_powerlaw_predictor",
             "_check_IFMR_FeH_bounds"],
    "masses": ["PowerLawIMF.__init__", "PowerLawIMF.from_M0", "PowerLawIMF.__call__", "PowerLawIMF.binned_eval",
               "MassBins.__init__", "MassBins.initial_values", "MassBins.determine_index",
               "MassBins.turned_off_bins", "Pk", "_divide_bin_sizes"],
    "evolve_mf": ["EvolvedMF._dyn_eject_BH", "EvolvedMFWithBH._dyn_eject_BH", "EvolvedMF.__init__", "EvolvedMF.from_powerlaw", "EvolvedMFWithBH.__init__",
                  "EvolvedMFWithBH.from_powerlaw", "InitialBHPopulation.__init__", "InitialBHPopulation.from_IMF",
                  "InitialBHPopulation.from_powerlaw", "InitialBHPopulation.from_BHMF"],
    "kicks": ["natal_kicks", "_unbound_natal_kicks"],
}
DOCUMENTED_INPLACE = {("kicks", "natal_kicks"), ("kicks", "_unbound_natal_kicks"),
                      ("evolve_mf", "InitialBHPopulation.__init__"), ("evolve_mf", "EvolvedMF._dyn_eject_BH"),
                      ("evolve_mf", "EvolvedMFWithBH._dyn_eject_BH")}


FRESH_CALLS = {"dict", "list", "tuple", "set", "sorted", "copy.copy", "copy.deepcopy", "np.array", "np.copy", "np.zeros", "np.empty",
               "np.ones", "np.full", "np.sum", "np.cumsum"}


def is_fresh(node):
    """does evaluating this expression always create a new object (so the assigned name no longer aliases a parameter)?"""
    if isinstance(node, (ast.Dict, ast.List, ast.Tuple, ast.Set, ast.Constant, ast.BinOp, ast.ListComp, ast.DictComp)):
        return True
    if isinstance(node, ast.IfExp):
        return is_fresh(node.body) and is_fresh(node.orelse)
    if isinstance(node, ast.Call):
        f = ast.unparse(node.func)
        return f in FRESH_CALLS or f.endswith(".copy")
    return False


def mutation_sites(trees):
    sites = []
    for modname, paths in PUBLIC.items():
        for path in paths:
            try:
                fn = find_def(trees[modname], path)
            except Unsupported:
                continue
            params = {a.arg for a in fn.args.posonlyargs + fn.args.args + fn.args.kwonlyargs} - {"self", "cls"}
            aliases = set(params)
            rebound = set()
            # simple alias analysis: `x = param` makes x an alias; `param = <fresh>` un-aliases from then on
            stmts = sorted([n for n in own_nodes(fn)], key=lambda n: (getattr(n, "lineno", 0), getattr(n, "col_offset", 0)))
            toplevel = set(id(x) for x in fn.body)
            for n in stmts:
                if isinstance(n, ast.Assign):
                    for t in n.targets:
                        if isinstance(t, ast.Name):
                            if isinstance(n.value, ast.Name) and n.value.id in aliases:
                                aliases.add(t.id)
                            elif t.id in aliases and id(n) in toplevel:
                                # (only unconditional, top-level rebinding kills the alias)
                                # rebinding a parameter name to something else: conservative only when
                                # the new value is a fresh object built by a call/literal
                                if is_fresh(n.value):
                                    rebound.add((t.id, n.lineno))
                def base(e):
                    while isinstance(e, (ast.Subscript, ast.Attribute)):
                        e = e.value
                    return e.id if isinstance(e, ast.Name) else None

                def live(name, lineno):
                    return name in aliases and not any(r[0] == name and r[1] < lineno for r in rebound)
                kind = None
                if isinstance(n, ast.Assign):
                    for t in n.targets:
                        if isinstance(t, (ast.Subscript,)) and live(base(t), n.lineno):
                            kind = ("store", base(t))
                        if isinstance(t, ast.Attribute) and live(base(t), n.lineno) and base(t) in params:
                            kind = ("attrstore", base(t))
                elif isinstance(n, ast.AugAssign):
                    b = base(n.target)
                    if live(b, n.lineno) and (isinstance(n.target, ast.Subscript) or True):
                        # `x += ..` on an ndarray parameter is in place too
                        kind = ("augassign", b)
                elif isinstance(n, ast.Call) and isinstance(n.func, ast.Attribute) and n.func.attr in MUTATING_METHODS:
                    b = base(n.func.value)
                    if live(b, n.lineno):
                        kind = (n.func.attr, b)
                if kind:
                    # counters / scalars rebinding (`M_eject -= x` on a float parameter) are not object mutation
                    if kind[0] == "augassign" and isinstance(n.target, ast.Name):
                        continue
                    sites.append({"module": modname, "func": path, "line": n.lineno, "kind": kind[0], "object": kind[1],
                                  "documented": (modname, path) in DOCUMENTED_INPLACE,
                                  "src": ast.unparse(n)[:80]})
    sites.extend(attribute_alias_sites(trees))
    return sites


PASS_THROUGH_CALLS = {"np.atleast_1d", "np.asarray", "np.asanyarray", "np.ravel", "np.squeeze", "np.reshape", "np.atleast_2d"}


def may_alias_param(node, params):
    """can the value of this expression be (a view of) one of the parameters? a bare parameter, or a numpy call that hands its
    argument back when it already is an array"""
    if isinstance(node, ast.Name):
        return node.id if node.id in params else None
    if isinstance(node, ast.Call) and ast.unparse(node.func) in PASS_THROUGH_CALLS and node.args:
        return may_alias_param(node.args[0], params)
    if isinstance(node, ast.IfExp):
        return may_alias_param(node.body, params) or may_alias_param(node.orelse, params)
    return None


def attribute_alias_sites(trees):
    """`self.X = <parameter or pass-through call of one>` in a method makes `self.X` an alias of that argument object for the whole class
    (and its subclasses in the same module); every subscript store, augmented assignment or mutating call through `self.X` in any method of
    those classes is then a write site on the caller's object"""
    sites = []
    for modname, tree in trees.items():
        classes = {c.name: c for c in tree.body if isinstance(c, ast.ClassDef)}
        attr_alias = {}      # class name -> {attr: (param, method)}
        for cname, c in classes.items():
            for fn in [f for f in c.body if isinstance(f, ast.FunctionDef)]:
                params = {a.arg for a in fn.args.posonlyargs + fn.args.args + fn.args.kwonlyargs} - {"self", "cls"}
                for n in ast.walk(fn):
                    if isinstance(n, ast.Assign):
                        for t in n.targets:
                            if (isinstance(t, ast.Attribute) and isinstance(t.value, ast.Name) and t.value.id == "self"):
                                src = may_alias_param(n.value, params)
                                if src:
                                    attr_alias.setdefault(cname, {})[t.attr] = (src, fn.name)

        def inherited(cname, seen=()):
            out = dict(attr_alias.get(cname, {}))
            for bse in classes[cname].bases:
                bn = ast.unparse(bse)
                if bn in classes and bn not in seen:
                    for k, v in inherited(bn, seen + (cname,)).items():
                        out.setdefault(k, v)
            return out

        def self_attr(e):
            while isinstance(e, ast.Subscript):
                e = e.value
            if isinstance(e, ast.Attribute) and isinstance(e.value, ast.Name) and e.value.id == "self":
                return e.attr
            return None
        for cname, c in classes.items():
            al = inherited(cname)
            if not al:
                continue
            for fn in [f for f in c.body if isinstance(f, ast.FunctionDef)]:
                for n in ast.walk(fn):
                    kind = None
                    if isinstance(n, ast.Assign):
                        for t in n.targets:
                            if isinstance(t, ast.Subscript) and self_attr(t) in al:
                                kind = ("store", self_attr(t))
                    elif isinstance(n, ast.AugAssign) and self_attr(n.target) in al:
                        kind = ("augassign", self_attr(n.target))
                    elif isinstance(n, ast.Call) and isinstance(n.func, ast.Attribute) and n.func.attr in MUTATING_METHODS \
                            and self_attr(n.func.value) in al:
                        kind = (n.func.attr, self_attr(n.func.value))
                    if kind:
                        path = f"{cname}.{fn.name}"
                        sites.append({"module": modname, "func": path, "line": n.lineno, "kind": kind[0],
                                      "object": f"self.{kind[1]} (argument `{al[kind[1]][0]}` of {al[kind[1]][1]})",
                                      "documented": (modname, path) in DOCUMENTED_INPLACE, "src": ast.unparse(n)[:80]})
    return sites


# ------------------------------------------------------------------ emit
HEADER = "-- GENERATED by harness/translate.py from /repo — do not edit\n"


def write_if_changed(path, text):
    if path.exists() and path.read_text() == text:
        return False
    path.parent.mkdir(parents=True, exist_ok=True)
    path.write_text(text)
    return True


def run(pin=False):
    errors = []
    trees = {}
    for m in ("evolve_mf", "masses", "ifmr", "kicks", "Kroupa"):
        try:
            trees[m] = ast.parse((REPO / "ssptools" / f"{m}.py").read_text())
        except Exception as e:
            errors.append({"item": f"parse:{m}", "error": str(e)})
            trees[m] = ast.parse("")
    files = {}

    # formulas
    body = [HEADER, "import SspModel.Scalar\nset_option linter.unusedVariables false\nnamespace Generated\nvariable {α : Type} [Scalar α]\nopen Scalar ScalarLit\n"]
    for name, params, fn in items(trees):
        try:
            expr = fn()
        except Unsupported as e:
            errors.append({"item": f"formula:{name}", "error": str(e)})
            expr = None
        except Exception as e:
            errors.append({"item": f"formula:{name}", "error": f"{type(e).__name__}: {e}"})
            expr = None
        if expr is None:
            continue
        is_bool = expr.endswith(" -- Bool")
        if is_bool:
            expr = expr[:-len(" -- Bool")]
        ty = "Bool" if is_bool else "α"
        body.append(f"def {name} ({params} : α) : {ty} :=\n  {expr}\n")
    body.append("end Generated\n")
    files["Formulas.lean"] = "\n".join(body)

    # constants
    c, dflt, cerrs = constants(trees)
    errors += cerrs
    body = [HEADER, "import SspModel.Scalar\nset_option linter.unusedVariables false\nnamespace Generated\nvariable {α : Type} [Scalar α]\nopen Scalar ScalarLit\n"]
    for k, v in sorted(c.items()):
        body.append(f"def {k} : α := {lit(v)}")
    body.append("")
    for key, d in sorted(dflt.items()):
        for k, v in sorted(d.items()):
            if isinstance(v, bool) or v is None or isinstance(v, (str, list)):
                body.append(f"-- default {key}.{k} = {v!r}")
            elif isinstance(v, (int, float)):
                body.append(f"def default_{key}_{k} : α := {lit(v)}")
    body.append("\nend Generated\n")
    files["Constants.lean"] = "\n".join(body)

    # small tables (exact decimals as integers over a power-of-ten scale; no Mathlib needed)
    tb = [HEADER, "namespace Generated\n"]
    try:
        rows = read_rows(REPO / "ssptools/data/sevtables/msto.dat")
        tb.append("/-- every entry of `msto` is the file's decimal times `mstoScale` -/\ndef mstoScale : Nat := 10 ^ 8")
        tb.append("/-- sevtables/msto.dat rows: (FeH, a0, a1, a2) -/")
        tb.append("def msto : List (Int × Int × Int × Int) := [\n" + ",\n".join(
            "  (" + ", ".join(dec_scaled(t, 8) for t in r[:4]) + ")" for r in rows) + "]\n")
        rows = read_rows(REPO / "ssptools/data/sevtables/wdifmr.dat")
        tb.append("def wdScale : Nat := 10 ^ 12")
        tb.append("/-- sevtables/wdifmr.dat rows: (FeH, m_max, [c10 … c0]) times `wdScale` -/")
        tb.append("def wdifmr : List (Int × Int × List Int) := [\n" + ",\n".join(
            "  (" + dec_scaled(r[0], 12) + ", " + dec_scaled(r[1], 12) + ", [" + ", ".join(dec_scaled(t, 12) for t in r[2:]) + "])" for r in rows) + "]\n")
    except Exception as e:
        errors.append({"item": "tables", "error": f"{type(e).__name__}: {e}"})
    for fam in ("uSSE_rapid", "uSSE_delayed", "COSMIC_rapid", "COSMIC_delayed"):
        try:
            names, vals = file_grid(f"ifmr/{fam}")
            tb.append(f"/-- ifmr/{fam}: file-name metallicities in hundredths; spellings of zero present: "
                      f"{[n for n in names if float(n) == 0]} -/")
            tb.append(f"def grid_{fam} : List Int := [" + ", ".join(str(v) if v >= 0 else f"({v})" for v in sorted(vals)) + "]")
            tb.append(f"def grid_{fam}_hasPlusZero : Bool := {'true' if '+0.00' in names else 'false'}")
            tb.append(f"def grid_{fam}_hasMinusZero : Bool := {'true' if '-0.00' in names else 'false'}\n")
        except Exception as e:
            errors.append({"item": f"grid:{fam}", "error": f"{type(e).__name__}: {e}"})
    tb.append("end Generated\n")
    files["Tables.lean"] = "\n".join(tb)

    # mutation sites
    try:
        sites = mutation_sites(trees)
    except Exception as e:
        errors.append({"item": "mutations", "error": f"{type(e).__name__}: {e}"})
        sites = []
    mb = [HEADER, "namespace Generated\n",
          "structure MutSite where\n  module : String\n  func : String\n  kind : String\n  object : String\n  documented : Bool\n  deriving Repr, DecidableEq\n",
          "/-- every statement of a public constructor/function that can mutate a parameter object -/",
          "def mutations : List MutSite := ["]
    mb.append(",\n".join(f'  ⟨"{s["module"]}", "{s["func"]}", "{s["kind"]}", "{s["object"]}", {"true" if s["documented"] else "false"}⟩  -- L{s["line"]}: {s["src"]}'
                         for s in sites) if False else
              ",\n".join(f'  ⟨"{s["module"]}", "{s["func"]}", "{s["kind"]}", "{s["object"]}", {"true" if s["documented"] else "false"}⟩'
                         for s in sites))
    mb.append("]\n")
    for s in sites:
        mb.append(f'-- {s["module"]}.{s["func"]} L{s["line"]}: {s["src"]}')
    mb.append("\nend Generated\n")
    files["Mutations.lean"] = "\n".join(mb)

    changed = {}
    for fn, text in files.items():
        changed[fn] = write_if_changed(GEN / fn, text)
    hashes = {fn: hashlib.sha256(text.encode()).hexdigest() for fn, text in files.items()}
    if pin:
        PIN.write_text(json.dumps(hashes, indent=1))
    pinned = json.loads(PIN.read_text()) if PIN.exists() else {}
    return {"errors": errors, "changed_vs_pinned": pinned != hashes, "rewritten": changed, "hashes": hashes,
            "sites": sites}


# ------------------------------------------------------------------ large tables (packed Nat, one module per file)
TAB = GEN / "Tab"
FAMS = ("uSSE_rapid", "uSSE_delayed", "COSMIC_rapid", "COSMIC_delayed")


def tab_module_name(fam, stem):
    """IFMR_FEH-1.00 -> uSSE_rapid_m100 ; +0.05 -> p005 ; -0.00 -> m000"""
    v = stem.split("FEH")[-1]
    return f"{fam}_{'m' if v[0] == '-' else 'p'}{v[1:].replace('.', '')}"


def pack_table(path):
    """exact decimal text -> one Nat (80 bits per row). Also asserts float(text) is what numpy loads."""
    rows = []
    for line in path.read_text().split("\n"):
        t = line.split()
        if not t or t[0].startswith("#"):
            continue
        mi = Decimal(t[0]) * 10
        mf = Decimal(t[1]) * 100000
        ty = int(t[2])
        fb = Decimal(t[3]) * 100000 if len(t) > 3 else Decimal(0)
        for d in (mi, mf, fb):
            if d != d.to_integral_value() or d < 0:
                raise Unsupported(f"{path.name}: entry not representable ({line.strip()})")
        mi, mf, fb = int(mi), int(mf), int(fb)
        if not (mi < 2 ** 16 and mf < 2 ** 32 and 0 <= ty < 256 and fb < 2 ** 24):
            raise Unsupported(f"{path.name}: entry out of packing range ({line.strip()})")
        rows.append(mi | (mf << 16) | (ty << 48) | (fb << 56))
    packed = 0
    for r in reversed(rows):
        packed = (packed << 80) | r
    return len(rows), packed


def table_modules(which=None):
    """(re)generate packed-table modules; `which` = iterable of (family, stem) or None for all. Returns module names + errors."""
    cache_path = LEAN / ".tabcache.json"
    cache = json.loads(cache_path.read_text()) if cache_path.exists() else {}
    mods, errors = [], []
    todo = []
    for fam in FAMS:
        for fpath in sorted((REPO / "ssptools" / "data" / "ifmr" / fam).glob("IFMR_FEH*.dat")):
            if which is not None and (fam, fpath.stem) not in which:
                continue
            todo.append((fam, fpath))
    for fam, fpath in todo:
        name = tab_module_name(fam, fpath.stem)
        st = fpath.stat()
        key = f"{fam}/{fpath.name}"
        sig = [st.st_mtime_ns, st.st_size]
        out = TAB / f"{name}.lean"
        mods.append(f"SspModel.Generated.Tab.{name}")
        if cache.get(key) == sig and out.exists():
            continue
        try:
            n, packed = pack_table(fpath)
        except Exception as e:
            errors.append({"item": f"table:{key}", "error": f"{type(e).__name__}: {e}"})
            continue
        text = (HEADER + f"import SspModel.TableCheck\nnamespace Generated.Tab.{name}\n"
                f"/-- {key}: {n} rows, 80 bits each -/\ndef nrows : Nat := {n}\ndef packed : Nat := {packed}\n"
                f"theorem ok : Tab.check nrows packed 0 = true := by decide +kernel\nend Generated.Tab.{name}\n")
        write_if_changed(out, text)
        cache[key] = sig
    cache_path.write_text(json.dumps(cache))
    return mods, errors


if __name__ == "__main__":
    r = run(pin="--pin" in sys.argv)
    print(json.dumps({k: v for k, v in r.items() if k != "sites"}, indent=1))
    if "--sites" in sys.argv:
        for s in r["sites"]:
            print(s)
    sys.exit(1 if r["errors"] else 0)
