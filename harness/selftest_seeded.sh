#!/bin/bash
# selftest_seeded.sh [names...] — apply every seeded change to /repo in turn, run its property's quick check, undo; report detection.
# (Never run concurrently with other checks: it edits /repo's working tree.)
cd "$(dirname "$0")/.."
names=${@:-$(ls seeded)}
for n in $names; do
  P=$(python3 -c "import json;print(json.load(open('seeded/$n/meta.json'))['property'])")
  git -C /repo apply "$PWD/seeded/$n/patch.diff" 2>/dev/null || { echo "$n: patch does not apply"; continue; }
  out=$(./check $P --tier quick 2>/dev/null | grep -E "VIOLATION|^\[$P\]")
  git -C /repo checkout -- .
  if echo "$out" | grep -q "VIOLATION"; then
    if echo "$out" | grep -q "no-failing-input-found"; then echo "$n: DETECTED (no failing input found) $(echo "$out" | tail -1)"; else echo "$n: DETECTED with failing input $(echo "$out" | tail -1 | sed 's/.*broken/broken/')"; fi
  else echo "$n: MISSED $out"; fi
done
git -C /repo status --short | head -3
