#!/bin/bash
# run_all.sh quick|thorough [props...] — every check once on the current /repo tree; one summary line each, timing included
cd "$(dirname "$0")/.."
tier=${1:-quick}; shift
props=${@:-C01 C02 C03 C04 C05 C06 C07 C08 C09 C10 C11 C12 C13 C14 C15 C16 C17 C18 C19 C20}
for P in $props; do
  s=$(date +%s)
  ./check $P --tier $tier 2>/dev/null | grep -E "VIOLATION|INFRA|^\[$P\]"
  echo "   exit=$? $(( $(date +%s) - s ))s"
done
