#!/bin/bash
# save_seeded.sh <worktree> <name> <PROP> "<needs>" "<caught by>"
WT=$1; NAME=$2; PROP=$3; NEEDS=$4; CAUGHT=$5
D=/verif/seeded/$NAME
mkdir -p $D
cp $WT/mutation.diff $D/patch.diff
cp $WT/demo.py $D/demo.py
[ -f $WT/notes.md ] && cp $WT/notes.md $D/notes.md
python3 - "$D" "$PROP" "$NEEDS" "$CAUGHT" <<'PY'
import json,sys
d,prop,needs,caught=sys.argv[1:5]
json.dump({"property":prop,"needs_to_manifest":needs,
 "ran":["demo.py in a scratch worktree: exit 1 with the change, exit 0 without","pytest tests/: 629 passed / 14 failed (COSMIC) with the change, same as baseline",
        "git -C /repo apply patch.diff; ./check "+prop+" --tier quick; git -C /repo checkout -- ."],
 "detected_by":caught}, open(d+"/meta.json","w"), indent=1)
PY
echo saved $D
