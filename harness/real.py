"""Helpers that call the real ssptools code in-process (no source hooks: observation is from outside)."""
import contextlib, math, warnings
import numpy as np
from common import REPO  # noqa  (puts /repo first on sys.path)

import ssptools
from ssptools import evolve_mf, masses, ifmr, kicks
from ssptools.masses import PowerLawIMF, MassBins, Pk, mbin

assert str(REPO) in ssptools.__file__, f"ssptools imported from {ssptools.__file__}, expected under {REPO}"

MSTO = np.loadtxt(ifmr.get_data("sevtables/msto.dat"))


def bare_emf(row):
    """an EvolvedMF shell that only knows its lifetime coefficients (for compute_tms / compute_mto)"""
    o = evolve_mf.EvolvedMF.__new__(evolve_mf.EvolvedMF)
    o._tms_constants = np.asarray(row, dtype=float)
    return o


def quick_emf(m_break=(0.1, 0.5, 1.0, 100.0), a=(-0.5, -1.3, -2.5), nbins=(3, 3, 6), FeH=-1.0, tout=(1.0,),
              esc_rate=0.0, N0=5e5, cls=None, **kw):
    """a real, fully constructed model whose own evolution is trivial (one early age) — used to call
    its derivative / extraction methods on arbitrary states"""
    cls = cls or evolve_mf.EvolvedMF
    imf = PowerLawIMF(list(m_break), list(a), N0=N0)
    with warnings.catch_warnings():
        warnings.simplefilter("ignore")
        return cls(imf, list(nbins) if not isinstance(nbins, (int, dict)) else nbins, FeH, list(tout), esc_rate,
                   N0=N0, **kw)


class RecordingOde:
    """drop-in for scipy.integrate.ode that records the derivative function and every integrate call"""
    instances = []

    def __init__(self, f):
        from scipy.integrate import ode as _ode
        self._f = f
        self._ode = _ode(f)
        self.calls = []
        RecordingOde.instances.append(self)

    def set_integrator(self, name, **kw):
        kw.update(getattr(RecordingOde, "override", {}))
        self._ode.set_integrator(name, **kw)
        return self

    def set_initial_value(self, y, t=0.0):
        self._ode.set_initial_value(y, t)
        return self

    def integrate(self, t):
        r = self._ode.integrate(t)
        self.calls.append((float(t), float(self._ode.t), bool(self._ode.successful())))
        return r

    def successful(self):
        return self._ode.successful()

    @property
    def y(self):
        return self._ode.y

    @property
    def t(self):
        return self._ode.t


@contextlib.contextmanager
def recording_ode(**override):
    old = evolve_mf.ode
    RecordingOde.instances = []
    RecordingOde.override = override
    evolve_mf.ode = RecordingOde
    try:
        yield RecordingOde
    finally:
        evolve_mf.ode = old
        RecordingOde.override = {}
