"""Helpers that call the real ssptools code in-process (no source hooks: observation is from outside)."""
import contextlib, math, warnings
import numpy as np
from common import REPO  # noqa  (puts /repo first on sys.path)

import ssptools
from ssptools import evolve_mf, masses, ifmr, kicks
from ssptools.masses import PowerLawIMF, MassBins, Pk, mbin

assert str(REPO) in ssptools.__file__, f"ssptools imported from {ssptools.__file__}, expected under {REPO}"

MSTO = np.loadtxt(ifmr.get_data("sevtables/msto.dat"))


def bare_emf(row):
    """an EvolvedMF shell that only knows its lifetime coefficients (for compute_tms / compute_mto)"""
    o = evolve_mf.EvolvedMF.__new__(evolve_mf.EvolvedMF)
    o._tms_constants = np.asarray(row, dtype=float)
    return o


def quick_emf(m_break=(0.1, 0.5, 1.0, 100.0), a=(-0.5, -1.3, -2.5), nbins=(3, 3, 6), FeH=-1.0, tout=(1.0,),
              esc_rate=0.0, N0=5e5, cls=None, **kw):
    """a real, fully constructed model whose own evolution is trivial (one early age) — used to call
    its derivative / extraction methods on arbitrary states"""
    cls = cls or evolve_mf.EvolvedMF
    imf = PowerLawIMF(list(m_break), list(a), N0=N0)
    with warnings.catch_warnings():
        warnings.simplefilter("ignore")
        return cls(imf, list(nbins) if not isinstance(nbins, (int, dict)) else nbins, FeH, list(tout), esc_rate,
                   N0=N0, **kw)


class RecordingOde:
    """drop-in for scipy.integrate.ode that records the derivative function and every integrate call"""
    instances = []

    def __init__(self, f):
        from scipy.integrate import ode as _ode
        self._f = f
        self._ode = _ode(f)
        self.calls = []
        RecordingOde.instances.append(self)

    def set_integrator(self, name, **kw):
        kw.update(getattr(RecordingOde, "override", {}))
        self._ode.set_integrator(name, **kw)
        return self

    def set_initial_value(self, y, t=0.0):
        self._ode.set_initial_value(y, t)
        return self

    def integrate(self, t):
        r = self._ode.integrate(t)
        self.calls.append((float(t), float(self._ode.t), bool(self._ode.successful())))
        return r

    def successful(self):
        return self._ode.successful()

    @property
    def y(self):
        return self._ode.y

    @property
    def t(self):
        return self._ode.t


@contextlib.contextmanager
def recording_ode(**override):
    old = evolve_mf.ode
    RecordingOde.instances = []
    RecordingOde.override = override
    evolve_mf.ode = RecordingOde
    try:
        yield RecordingOde
    finally:
        evolve_mf.ode = old
        RecordingOde.override = {}


# ------------------------------------------------------------------ tokens describing real objects for the driver
def ifmr_tokens(im):
    """describe a real IFMR object for the model driver (thresholds, WD polynomial, BH predictor)"""
    import functools
    from common import h, hl
    wd = im._WD_spline
    if isinstance(wd, np.polynomial.Polynomial):
        wc = list(map(float, wd.coef))
    elif isinstance(wd, functools.partial):          # linear WD: slope*m**1 + scale
        kw = wd.keywords
        if kw["exponent"] != 1:
            raise ValueError("unsupported WD predictor")
        wc = [float(kw["scale"]), float(kw["slope"])]
    else:
        raise ValueError("unsupported WD predictor")
    bh = im._BH_spline
    if isinstance(bh, functools.partial):
        kw = bh.keywords
        if "exponent" in kw:
            spec = f"line {h(kw['exponent'])} {h(kw['slope'])} {h(kw['scale'])}"
        else:
            flat = []
            mb = kw["m_breaks"]
            for i in range(len(kw["exponents"])):
                flat += [mb[i], mb[i + 1], kw["exponents"][i], kw["slopes"][i], kw["scales"][i]]
            spec = f"broken {hl(flat)}"
    else:
        x, y = bh.get_knots(), bh.get_coeffs()
        flat = []
        for a, b in zip(x, y):
            flat += [float(a), float(b)]
        spec = f"table {hl(flat)}"
    return f"{h(im.WD_mi[1])} {h(im.BH_mi[0])} {h(im._NS_mass)} {hl(wc)} {spec}"


def bins_flat(b):
    out = []
    for l, u in zip(np.atleast_1d(b.lower), np.atleast_1d(b.upper)):
        out += [float(l), float(u)]
    return out


DOC_DEFAULTS = {"NS_ret": 0.1, "BH_ret_int": 1.0, "BH_ret_dyn": 1.0, "Nmin": 0.1, "md": 1.2, "tcc": 0.0}


def msto_row(feh):
    """the lifetime coefficients of the tabulated metallicity nearest to FeH (the documented rule)"""
    return MSTO[int(np.argmin(np.abs(MSTO[:, 0] - feh))), 1:]


def sev_cfg_tokens(f, cfg=None):
    """what the model needs, taken from the *configuration* (retention fractions, metallicity) and from sub-objects whose
    own correctness is another property's business (bins: C13, IFMR: C09/C10) — never from derived private attributes
    of the object under test"""
    from common import h, hl
    cfg = cfg or getattr(f, "_cfg", None)
    kw = (cfg or {}).get("kw", {})
    feh = cfg["FeH"] if cfg else f.FeH
    a0, a1, a2 = map(float, msto_row(feh))
    mb = f.massbins
    frem = {"WD": 1.0, "NS": kw.get("NS_ret", DOC_DEFAULTS["NS_ret"]), "BH": kw.get("BH_ret_int", DOC_DEFAULTS["BH_ret_int"])}
    tms_u = [a0 * math.exp(a1 * float(u) ** a2) for u in mb.bins.MS.upper]
    return (f"{hl(bins_flat(mb.bins.MS))} {hl(tms_u)} {h(a0)} {h(a1)} {h(a2)} {h(DOC_DEFAULTS['Nmin'])} "
            f"{h(frem['WD'])} {h(frem['NS'])} {h(frem['BH'])} "
            f"{hl(bins_flat(mb.bins.WD))} {hl(bins_flat(mb.bins.NS))} {hl(bins_flat(mb.bins.BH))} {ifmr_tokens(f.IFMR)}")


def record_states(cfg_builder, max_states=400):
    """build a real model while recording every (t, y) its derivative function is called with"""
    rec = []
    orig = evolve_mf.EvolvedMF._derivs

    def wrapped(self, t, y):
        if len(rec) < 20000:
            rec.append((float(t), np.array(y, dtype=float)))
        return orig(self, t, y)
    evolve_mf.EvolvedMF._derivs = wrapped
    try:
        obj = cfg_builder()
    finally:
        evolve_mf.EvolvedMF._derivs = orig
    if len(rec) > max_states:
        step = len(rec) / max_states
        rec = [rec[int(i * step)] for i in range(max_states)]
    return obj, rec


@contextlib.contextmanager
def nan_blanks():
    """make MassBins.blanks('empty') return NaN-filled buffers, so rows the loop never writes are visible"""
    orig = MassBins.blanks

    def patched(self, value=0., extra_dims=None, *, packed=True, **kwargs):
        if isinstance(value, str) and value == 'empty' and extra_dims is not None:
            return orig(self, float('nan'), extra_dims, packed=packed, **kwargs)
        return orig(self, value, extra_dims, packed=packed, **kwargs)
    MassBins.blanks = patched
    try:
        yield
    finally:
        MassBins.blanks = orig
