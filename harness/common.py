"""Shared helpers for the ssptools verification harness (run with /venv/bin/python)."""
import json, math, os, random, struct, subprocess, sys, time, pathlib, hashlib, warnings

VERIF = pathlib.Path(__file__).resolve().parent.parent
LEAN = VERIF / "lean"
REPO = pathlib.Path(os.environ.get("VERIF_REPO", "/repo"))
DRIVER = LEAN / ".lake" / "build" / "bin" / "ssp_driver"

if str(REPO) not in sys.path:
    sys.path.insert(0, str(REPO))


# ---------------------------------------------------------------- hex doubles
def h(x):
    return struct.pack('>d', float(x)).hex()


def uh(s):
    if s == 'nan':
        return float('nan')
    if s == 'none':
        return None
    return struct.unpack('>d', bytes.fromhex(s))[0]


def hl(xs):
    xs = list(xs)
    return f"{len(xs)} " + " ".join(h(x) for x in xs) if xs else "0"


def jf(x):
    """float -> JSON-safe representation (hex + repr)"""
    x = float(x)
    return {"hex": h(x), "repr": repr(x)}


def jfl(xs):
    return [jf(x) for x in xs]


def unjf(d):
    return uh(d["hex"]) if isinstance(d, dict) else float(d)


# ---------------------------------------------------------------- driver
class DriverError(Exception):
    pass


def run_driver(lines):
    """Send lines to the compiled Lean model driver; return one output line per input line."""
    if not lines:
        return []
    if not DRIVER.exists():
        raise DriverError(f"driver not built: {DRIVER}")
    inp = "\n".join(lines) + "\n"
    p = subprocess.run([str(DRIVER)], input=inp, capture_output=True, text=True)
    if p.returncode != 0:
        raise DriverError(f"driver exit {p.returncode}: {p.stderr[:500]}")
    out = p.stdout.split("\n")
    if out and out[-1] == "":
        out.pop()
    if len(out) != len(lines):
        raise DriverError(f"driver returned {len(out)} lines for {len(lines)} ops")
    return out


# ---------------------------------------------------------------- comparison
def close(x, y, scale=None, rel=1e-12, abs_=0.0):
    """real-valued comparison |x-y| <= rel*scale (+abs_); NaN pattern must match; inf must match."""
    if x is None or y is None:
        return x is None and y is None
    if math.isnan(x) or math.isnan(y):
        return math.isnan(x) and math.isnan(y)
    if math.isinf(x) or math.isinf(y):
        return x == y
    if scale is None:
        scale = max(abs(x), abs(y))
    return abs(x - y) <= rel * scale + abs_


class Ctx:
    """Collects what one check run did: correspondence cases, sweep evaluations, failures."""

    def __init__(self, prop, tier, seed):
        self.prop, self.tier, self.seed = prop, tier, seed
        self.rng = random.Random(f"{prop}-{seed}")
        self.quick = tier == "quick"
        self.corr = {}          # op -> dict(cases, disagreements:[...], indeterminate, branches{})
        self.sweeps = {}        # name -> dict(evaluations, distinct:set, failures:[...], branches{})
        self.samples = []
        self.notes = []
        self.t0 = time.time()

    def n(self, quick, thorough):
        return quick if self.quick else thorough

    # -- correspondence bookkeeping
    def corr_op(self, op):
        return self.corr.setdefault(op, {"cases": 0, "disagreements": [], "indeterminate": 0,
                                         "branches": {}, "nontrivial": 0})

    def corr_case(self, op, ok, detail=None, branch=None, indeterminate=False, nontrivial=True):
        c = self.corr_op(op)
        c["cases"] += 1
        if nontrivial:
            c["nontrivial"] += 1
        if branch is not None:
            c["branches"][branch] = c["branches"].get(branch, 0) + 1
        if indeterminate:
            c["indeterminate"] += 1
        elif not ok:
            if len(c["disagreements"]) < 20:
                c["disagreements"].append(detail)
            c["ndis"] = c.get("ndis", 0) + 1

    # -- sweep bookkeeping
    def sweep(self, name):
        return self.sweeps.setdefault(name, {"evaluations": 0, "distinct": set(), "failures": [],
                                             "branches": {}, "nfail": 0})

    def sweep_case(self, name, key, ok, failure=None, branch=None):
        s = self.sweep(name)
        s["evaluations"] += 1
        s["distinct"].add(key)
        if branch is not None:
            s["branches"][branch] = s["branches"].get(branch, 0) + 1
        if not ok:
            s["nfail"] += 1
            if len(s["failures"]) < 50:
                s["failures"].append(failure)

    def sample(self, obj):
        if len(self.samples) < 12:
            self.samples.append(obj)

    def all_disagreements(self):
        out = []
        for op, c in self.corr.items():
            for d in c["disagreements"]:
                out.append({"op": op, **(d or {})})
        return out

    def all_failures(self):
        out = []
        for name, s in self.sweeps.items():
            for f in s["failures"]:
                out.append({"sweep": name, **(f or {})})
        return out


class JobTimeout(Exception):
    pass


class time_limit:
    """wall-clock limit for one worker job (SIGALRM; workers are single-threaded forked processes). A tightened dopri5 run on a
    pathological configuration can crawl for an hour: such a job is reported as skipped/timeout instead of stalling the check."""

    def __init__(self, seconds):
        self.seconds = seconds

    def __enter__(self):
        import signal

        def handler(signum, frame):
            raise JobTimeout(f"job exceeded {self.seconds} s")
        self._old = signal.signal(signal.SIGALRM, handler)
        signal.setitimer(signal.ITIMER_REAL, self.seconds)
        return self

    def __exit__(self, *a):
        import signal
        signal.setitimer(signal.ITIMER_REAL, 0)
        signal.signal(signal.SIGALRM, self._old)
        return False


def loguniform(rng, lo, hi):
    return math.exp(rng.uniform(math.log(lo), math.log(hi)))


def quiet():
    warnings.filterwarnings("ignore")
    import logging
    logging.disable(logging.CRITICAL)
    import numpy as np
    np.seterr(all="ignore")
