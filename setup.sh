#!/bin/bash
# Build the framework from files on disk only (offline). Run once after a fresh restore.
set -e
cd "$(dirname "$0")"
export PATH="/opt/veriftools/lean/bin:$PATH"
/venv/bin/python harness/translate.py > /dev/null || { echo "translator reported errors"; /venv/bin/python harness/translate.py; }
cd lean
lake build SspModel ssp_driver 2>&1 | tail -5
test -x .lake/build/bin/ssp_driver
echo "setup ok"
