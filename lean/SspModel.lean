import SspModel.Scalar
import SspModel.Model.Pk
import SspModel.Model.Life
import SspModel.Model.Eject
import SspModel.Model.Kicks
