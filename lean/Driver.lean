import SspModel.Model.Pk
import SspModel.Model.Life
import SspModel.Model.Eject
import SspModel.Model.Kicks
import SspModel.Model.IMF
import SspModel.Model.Bins
import SspModel.Model.Sev
import SspModel.Model.Esc
import SspModel.Model.IFMR
import SspModel.Model.Schedule
import SspModel.Model.Extract
import SspModel.Model.Validate
import SspModel.Model.FeH
import SspModel.Model.Kroupa
import SspModel.Model.Closed
import SspModel.Model.BHPop
/-!
# Line-protocol driver: one op per line in, one line out. Doubles cross as 16-hex-digit bit patterns.
Runs the *same* model terms the theorems are about, at the `Float` instance.
-/
open Model

def hexVal (c : Char) : UInt64 :=
  if c.isDigit then (c.toNat - 48).toUInt64
  else if 'a' ≤ c && c ≤ 'f' then (c.toNat - 87).toUInt64
  else (c.toNat - 55).toUInt64

def parseHex (s : String) : Float := Float.ofBits (s.foldl (fun acc c => acc * 16 + hexVal c) 0)

def hexDigit (n : Nat) : Char := if n < 10 then Char.ofNat (48 + n) else Char.ofNat (87 + n)

def toHex (f : Float) : String :=
  if f != f then "nan" else
  let b := f.toBits.toNat
  String.mk ((List.range 16).map fun i => hexDigit ((b >>> (4 * (15 - i))) % 16))

def optHex : Option Float → String
  | some x => toHex x
  | none => "none"

def fl (xs : List Float) : String := " ".intercalate (xs.map toHex)
def pairsOut (xs : List (Float × Float)) : String :=
  " ".intercalate (xs.map fun (a, b) => toHex a ++ " " ++ toHex b)

def pairs : List Float → List (Float × Float)
  | a :: b :: t => (a, b) :: pairs t
  | _ => []

/-- split a length-prefixed list off the front of the token list -/
def takeList (ws : List String) : List Float × List String :=
  match ws with
  | n :: rest => let k := n.toNat!; ((rest.take k).map parseHex, rest.drop k)
  | [] => ([], [])

/-- `<wdHi> <bhLo> <nsMass> <wd coeffs (len-prefixed, lowest first)> table <len-prefixed flat knots> | line e s c | broken <len-prefixed flat pieces>` -/
def parseIfmr (ws : List String) : IfmrFn Float × List String :=
  match ws with
  | wdHi :: bhLo :: ns :: rest =>
    let (wc, r1) := takeList rest
    match r1 with
    | "table" :: r2 =>
      let (flat, r3) := takeList r2
      let knots := pairs flat
      (⟨parseHex wdHi, parseHex bhLo, parseHex ns, polyEval wc, linInterp knots⟩, r3)
    | "line" :: e :: sl :: sc :: r3 =>
      (⟨parseHex wdHi, parseHex bhLo, parseHex ns, polyEval wc, lineFn (parseHex e) (parseHex sl) (parseHex sc)⟩, r3)
    | "broken" :: r2 =>
      let (flat, r3) := takeList r2
      let rec pcs : List Float → List (Float × Float × Float × Float × Float)
        | lo :: hi :: e :: sl :: sc :: t => (lo, hi, e, sl, sc) :: pcs t
        | _ => []
      let P := pcs flat
      (⟨parseHex wdHi, parseHex bhLo, parseHex ns, polyEval wc, fun m => (brokenFn P m).getD (0.0 / 0.0)⟩, r3)
    | _ => (⟨0, 0, 0, fun _ => 0, fun _ => 0⟩, [])
  | _ => (⟨0, 0, 0, fun _ => 0, fun _ => 0⟩, [])

def clsName : RemClass → String
  | .WD => "WD" | .NS => "NS" | .BH => "BH"

def starBins : List Float → List (StarBin Float)
  | n :: a :: lo :: hi :: t => ⟨n, a, lo, hi⟩ :: starBins t
  | _ => []

/-- exact decomposition of a finite double: (negative?, m, e) with |x| = m·2^e -/
def decodeDouble (f : Float) : Bool × Nat × Int :=
  let b := f.toBits.toNat
  let neg := (b >>> 63) % 2 == 1
  let ex := (b >>> 52) % 2048
  let frac := b % 4503599627370496
  if ex == 0 then (neg, frac, -1074) else (neg, frac + 4503599627370496, (ex : Int) - 1075)

def nameStr (x : Model.FeH.Name) : String :=
  let cents := x.n % 100
  s!"{if x.neg then "-" else "+"}{x.n / 100}.{if cents < 10 then "0" else ""}{cents}"

def step (ws : List String) : String :=
  match ws with
  | ["pkcore", a, k, m1, m2] => toHex (PkCore (parseHex a) (parseHex k) (parseHex m1) (parseHex m2))
  | ["pk", a, k, m1, m2] => optHex (Pk (parseHex a) (parseHex k) (parseHex m1) (parseHex m2))
  | "pklist" :: k :: rest =>
    let (as, r1) := takeList rest
    let (m1s, r2) := takeList r1
    let (m2s, _) := takeList r2
    " ".intercalate ((PkList as (parseHex k) m1s m2s).map optHex)
  | ["tms", a0, a1, a2, m] => toHex (tms (parseHex a0) (parseHex a1) (parseHex a2) (parseHex m))
  | ["mto", a0, a1, a2, t] => optHex (mto (parseHex a0) (parseHex a1) (parseHex a2) (parseHex t))
  | ["dmdt", a0, a1, a2, t] => toHex (dmdtAbs (parseHex a0) (parseHex a1) (parseHex a2) (parseHex t))
  | "argmin" :: x :: rest => toString (argminAbs (rest.map parseHex) (parseHex x))
  | "eject" :: mej :: rest =>
    match dynEjectRev (pairs (rest.map parseHex)) (parseHex mej) with
    | .ok (r, d) => s!"ok {d} {pairsOut r}"
    | .error _ => "err overEject"
  | "target" :: mbh :: mtot :: f :: rest =>
    let (r, d) := targetEjectRev (pairs (rest.map parseHex)) (parseHex mbh) (parseHex mtot) (parseHex f)
    s!"ok {d} {pairsOut r}"
  | "roweject" :: ret :: nmin :: centre0 :: rest =>
    -- rest = <nbins> M N ... then per-bin retention list (length-prefixed; empty = no kicks)
    let (flat, r1) := takeList rest
    let (rets, _) := takeList r1
    let bins := pairs flat
    let table := (bins.zip rets).map fun ((m, n), r) => (m / n, r)
    let fret : Float → Float := fun x => match table.find? (fun p => p.1 == x) with
      | some p => p.2
      | none => 1.0
    let kicks := if rets.isEmpty then none else some (unboundKicks fret)
    match rowEject kicks (parseHex ret) (parseHex nmin) (parseHex centre0) bins with
    | .ok (r, d) => s!"ok {d} {pairsOut r}"
    | .error .kicksOverBudget => "err kicksOverBudget"
    | .error _ => "err overEject"
  | "imfa" :: rest =>
    let (mb, r1) := takeList rest
    let (a, _) := takeList r1
    fl (imfA (mkSegs mb a))
  | "imfeval" :: ext :: n :: m :: rest =>
    let (mb, r1) := takeList rest
    let (a, _) := takeList r1
    match imfEval ext.toNat! (mkSegs mb a) (parseHex n) (parseHex m) with
    | .ok v => toHex v
    | .error _ => "err"
  | "binned" :: ext :: n :: lo :: hi :: rest =>
    let (mb, r1) := takeList rest
    let (a, _) := takeList r1
    match binnedEval1 ext.toNat! (mkSegs mb a) (parseHex n) (parseHex lo) (parseHex hi) with
    | .ok (N, M, al) => s!"{optHex N} {optHex M} {toHex al}"
    | .error _ => "err"
  | "mtot" :: n :: rest =>
    let (mb, r1) := takeList rest
    let (a, _) := takeList r1
    toHex (imfMtot (mkSegs mb a) (parseHex n))
  | ["divide", n, k] => " ".intercalate ((divideBinSizes n.toNat! k.toNat!).map toString)
  | "edges" :: sp :: rest =>
    let (mb, r1) := takeList rest
    let each := r1.map String.toNat!
    fl (msEdges (if sp == "log" then Spacing.log else Spacing.linear) mb each true)
  | "carve" :: wd :: bh :: ns :: rest =>
    let ms := binsOfEdges (rest.map parseHex)
    s!"{pairsOut (carveWD ms (parseHex wd))} | {pairsOut (carveNS ms (parseHex ns))} | {pairsOut (carveBH ms (parseHex bh))}"
  | "index" :: m :: rest =>
    match determineIndex (pairs (rest.map parseHex)) (parseHex m) with
    | .ok i => s!"ok {i}"
    | .error .below => "err below"
    | .error .above => "err above"
  | "turnoff" :: m :: rest =>
    pairsOut (turnedOffBins (pairs (rest.map parseHex)) (if m == "inf" then none else some (parseHex m)))
  | "predict" :: m :: rest =>
    let (f, _) := parseIfmr rest
    s!"{clsName (predictType f (parseHex m))} {toHex (predict f (parseHex m))}"
  | "polyeval" :: x :: rest => toHex (polyEval (rest.map parseHex) (parseHex x))
  | "lininterp" :: x :: rest => toHex (linInterp (pairs (rest.map parseHex)) (parseHex x))
  | "sev" :: t :: rest =>
    let (Ns, r1) := takeList rest
    let (al, r2) := takeList r1
    let (ms, r3) := takeList r2
    let (tmsU, r4) := takeList r3
    match r4 with
    | a0 :: a1 :: a2 :: nmin :: fwd :: fns :: fbh :: r5 =>
      let (wd, r6) := takeList r5
      let (ns, r7) := takeList r6
      let (bh, r8) := takeList r7
      let (f, _) := parseIfmr r8
      let c : SevCfg Float := ⟨pairs ms, tmsU, parseHex a0, parseHex a1, parseHex a2, parseHex nmin,
        parseHex fwd, parseHex fns, parseHex fbh, pairs wd, pairs ns, pairs bh, f⟩
      match derivsSev c (parseHex t) Ns al with
      | .ok o =>
        let i := match o.isev with | some i => toString i | none => "-"
        let r := match o.rem with
          | some (cls, ir, dN, dM) => s!"{clsName cls} {ir} {toHex dN} {toHex dM}"
          | none => "-"
        s!"ok {i} {toHex o.dNs} {o.defined} {r}"
      | .error .below => "err below"
      | .error .above => "err above"
    | _ => "bad-op"
  | "closed" :: t :: rest =>
    -- closed <t> <A list> <alpha list> <cells list> <sev cfg tokens: ms tmsU a0 a1 a2 nmin fwd fns fbh wd ns bh ifmr>
    let (As, r0) := takeList rest
    let (al, r1) := takeList r0
    let (cells, r2) := takeList r1
    let (ms, r3) := takeList r2
    let (tmsU, r4) := takeList r3
    match r4 with
    | a0 :: a1 :: a2 :: nmin :: fwd :: fns :: fbh :: r5 =>
      let (wd, r6) := takeList r5
      let (ns, r7) := takeList r6
      let (bh, r8) := takeList r7
      let (f, _) := parseIfmr r8
      let c : SevCfg Float := ⟨pairs ms, tmsU, parseHex a0, parseHex a1, parseHex a2, parseHex nmin,
        parseHex fwd, parseHex fns, parseHex fbh, pairs wd, pairs ns, pairs bh, f⟩
      let bins : List (ClosedBin Float) := (List.zip (pairs ms) (List.zip al As)).map fun ((l, u), (a, A)) => ⟨l, u, a, A⟩
      let m := mto c.a0 c.a1 c.a2 (parseHex t)
      let stars := bins.map fun b => b.stars c.nmin m
      match m with
      | none => s!"{fl stars} | none"
      | some mt =>
        let r := closedRemnants c bins cells mt
        s!"{fl stars} | {toHex mt} | {pairsOut r.wd} | {pairsOut r.ns} | {pairsOut r.bh} | {toHex r.lost}"
    | _ => "bad-op"
  | "bhderiv" :: t :: nm :: fa :: rest =>
    -- the nested `_derivs_BHs`: bhderiv <t> <nminBH> <finalAge> <Ns> <alpha> <sev cfg tokens>
    let (Ns, r1) := takeList rest
    let (al, r2) := takeList r1
    let (ms, r3) := takeList r2
    let (tmsU, r4) := takeList r3
    match r4 with
    | a0 :: a1 :: a2 :: nmin :: fwd :: fns :: fbh :: r5 =>
      let (wd, r6) := takeList r5
      let (ns, r7) := takeList r6
      let (bh, r8) := takeList r7
      let (f, _) := parseIfmr r8
      let c : SevCfg Float := ⟨pairs ms, tmsU, parseHex a0, parseHex a1, parseHex a2, parseHex nmin,
        parseHex fwd, parseHex fns, parseHex fbh, pairs wd, pairs ns, pairs bh, f⟩
      match derivsBH c (parseHex nm) (parseHex fa) (parseHex t) Ns al with
      | .ok o =>
        let i := match o.isev with | some i => toString i | none => "-"
        let r := match o.rem with
          | some (ir, dN, dM) => s!"{ir} {toHex dN} {toHex dM}"
          | none => "-"
        s!"ok {i} {toHex o.dNs} {o.defined} {r}"
      | .error (.lookup .below) => "err below"
      | .error (.lookup .above) => "err above"
      | .error (.notBH cls) => s!"err notBH {clsName cls}"
    | _ => "bad-op"
  | "finalage" :: a0 :: a1 :: a2 :: bhLo :: off :: _ =>
    let c : SevCfg Float := ⟨[], [], parseHex a0, parseHex a1, parseHex a2, 0, 0, 0, 0, [], [], [],
      ⟨0, parseHex bhLo, 0, fun x => x, fun x => x⟩⟩
    toHex (finalAge c (parseHex off))
  | "losses" :: mto :: rest =>
    -- losses <mto> <A list> <alpha list> <final Ns list> <flat star bins>
    let (As, r0) := takeList rest
    let (al, r1) := takeList r0
    let (fin, r2) := takeList r1
    let (ms, _) := takeList r2
    let bins : List (ClosedBin Float) := (List.zip (pairs ms) (List.zip al As)).map fun ((l, u), (a, A)) => ⟨l, u, a, A⟩
    let (n, m) := losses bins fin (parseHex mto)
    s!"{toHex n} {toHex m}"
  | "esc" :: normM :: t :: tcc :: rate :: md :: rest =>
    let (sf, r1) := takeList rest
    let (rf, _) := takeList r1
    let (dNs, dal, drem) := derivsEsc (normM == "M") (parseHex t) (parseHex tcc) (parseHex rate) (parseHex md)
      (starBins sf) (pairs rf)
    s!"{fl dNs} | {fl dal} | {pairsOut drem}"
  | "grid" :: rest =>
    let (tmsU, r1) := takeList rest
    let (tout, _) := takeList r1
    fl (integrationGrid tmsU tout)
  | "xstar" :: rest =>
    -- flat (n a lo hi)* -> per bin "Ms ms" (nan nan when undefined)
    " ".intercalate ((starBins (rest.map parseHex)).map fun b =>
      match extractStar b.n b.a b.lo b.hi with
      | some (Ms, ms) => toHex Ms ++ " " ++ toHex ms
      | none => "nan nan")
  | "xrem" :: rest =>
    let rec go : List Float → List String
      | lo :: hi :: N :: M :: t => toHex (remMean lo hi N M) :: go t
      | _ => []
    " ".intercalate (go (rest.map parseHex))
  | "views" :: factor :: nmin :: rest =>
    -- flat (cls N M width)* -> indices kept, nms, nmr
    let rec rows : List Float → List (ViewRow Float)
      | c :: N :: M :: w :: t => ⟨c.toUInt64.toNat, N, M, w⟩ :: rows t
      | _ => []
    let v := views (parseHex factor) (parseHex nmin) (rows (rest.map parseHex))
    s!"{viewNms v} {viewNmr v} | {fl (viewM v)} | {fl (viewN v)} | {fl (viewm v)} | {" ".intercalate ((viewTypes v).map toString)}"
  | "validate" :: rate :: nk :: kk :: bk :: wk :: bink :: hasF :: rest =>
    let b (x : String) : Bool := x == "1"
    let (fs, r1) := takeList rest
    match r1 with
    | nout :: r2 =>
      let (breaks, r3) := takeList r2
      match r3 with
      | [nsl, wdHi, bhLo] =>
        let req : Request Float := ⟨if rate == "callable" then none else some (parseHex rate), b nk, b kk, b bk, b wk, b bink,
          if b hasF then some fs else none, nout.toNat!, breaks, nsl.toNat!, parseHex wdHi, parseHex bhLo⟩
        match validate req with
        | .ok _ => "ok"
        | .error _ => "ValueError"
      | _ => "bad-op"
    | _ => "bad-op"
  | "lineValid" :: e :: sl :: sc :: lo :: hi :: [] =>
    toString (lineValid (parseHex e) (parseHex sl) (parseHex sc) (parseHex lo) (if hi == "inf" then none else some (parseHex hi)))
  | ["fmt", x] =>
    let (neg, m, e) := decodeDouble (parseHex x)
    nameStr (Model.FeH.fmtPlus2 neg m e)
  | ["snap", lo, hi, x] =>
    let (neg, m, e) := decodeDouble (parseHex x)
    nameStr (Model.FeH.snapName lo.toInt! hi.toInt! neg m e)
  | ["kmom0", xmin, xmax, a] => toHex (kMom0 (parseHex xmin) (parseHex xmax) (parseHex a))
  | ["kmom1", xmin, xmax, a] => toHex (kMom1 (parseHex xmin) (parseHex xmax) (parseHex a))
  | ["kgetmass", x, sl, xmin, xmax] => toHex (kGetmass (parseHex x) (parseHex sl) (parseHex xmin) (parseHex xmax))
  | "kroupa" :: rest =>
    -- a list, mlim list, then evaluation points -> "norm | C... | eval..."
    let (a, r1) := takeList rest
    let (mlim, r2) := takeList r1
    let (xs, _) := takeList r2
    let cs := (List.range a.length).map (kC a mlim)
    s!"{toHex (kNorm a mlim)} | {fl cs} | {" ".intercalate (xs.map fun x => optHex (kEval a mlim x))}"
  | "kintegral" :: xmin :: xmax :: rest =>
    let (a, r1) := takeList rest
    let (mlim, _) := takeList r1
    (match kIntegral a mlim (parseHex xmin) (parseHex xmax) with
     | .ok (i0, i1) => s!"ok {toHex i0} {toHex i1}"
     | .error .below => "err below"
     | .error .above => "err above"
     | .error .index => "err index")
  | ["mrem", d, mb, mt] => toHex (Mrem (parseHex d) (parseHex mb) (parseHex mt))
  | ["sigmoid", slope, scale, m] => toHex (sigmoidRet (parseHex slope) (parseHex scale) (parseHex m))
  | ["erf", x] => toHex (Scalar.erf (parseHex x))
  | ["maxwellpdf", a, x] => toHex (maxwellPdf (parseHex a) (parseHex x))
  | ["maxwellcdf", a, v] => toHex (maxwellCdf (parseHex a) (parseHex v))
  | ["maxwellret", fb, vesc, vdisp] => toHex (maxwellRet (parseHex fb) (parseHex vesc) (parseHex vdisp))
  | "fbinterp" :: x :: rest => toHex (fallbackInterp (pairs (rest.map parseHex)) (parseHex x))
  | "kicks_sig" :: slope :: scale :: rest =>
    let (r, e) := unboundKicks (sigmoidRet (parseHex slope) (parseHex scale)) (pairs (rest.map parseHex))
    s!"{toHex e} {pairsOut r}"
  | "kicks_const" :: ret :: rest =>
    let (r, e) := unboundKicks (fun _ => parseHex ret) (pairs (rest.map parseHex))
    s!"{toHex e} {pairsOut r}"
  | _ => "bad-op"

partial def loop (h : IO.FS.Stream) (out : IO.FS.Stream) : IO Unit := do
  let line ← h.getLine
  if line.isEmpty then return ()
  let ws := (line.trimAscii.toString.splitOn " ").filter (· ≠ "")
  out.putStrLn (step ws)
  loop h out

def main : IO Unit := do
  let out ← IO.getStdout
  loop (← IO.getStdin) out
  out.flush
