/-!
# Scalar interface

Every model function is written once over `[Scalar α]`.
* `instance : Scalar Float` (here)            — executed by the driver next to the real code.
* `noncomputable instance : Scalar ℝ` (`SspModel/Real.lean`) — what the theorems are about.

Comparisons are `Bool`-valued because `Float` has no lawful `DecidableEq`.
This file imports nothing (no Mathlib), so the driver can be a compiled `lean_exe`.
-/

class Scalar (α : Type) extends Add α, Sub α, Mul α, Div α, Neg α where
  ofNat : Nat → α
  ofScientific : Nat → Bool → Nat → α
  rpow : α → α → α
  exp : α → α
  log : α → α
  sqrt : α → α
  abs : α → α
  erf : α → α
  pi : α
  lt : α → α → Bool
  le : α → α → Bool
  beq : α → α → Bool

namespace ScalarLit
scoped instance (priority := low) instOfNat {α} [Scalar α] {n : Nat} : OfNat α n := ⟨Scalar.ofNat n⟩
scoped instance (priority := low) instOfSci {α} [Scalar α] : OfScientific α := ⟨Scalar.ofScientific⟩
end ScalarLit

namespace FloatErf
/-- erf for the executable instance: the all-positive-terms series
    erf x = (2/√π)·e^{-x²}·Σ_{n≥0} 2ⁿ x^{2n+1} / (1·3·…·(2n+1)), accurate to a few ulp for |x| ≤ 6.5;
    beyond that erf = ±1 to double precision. Compared with `scipy.special.erf` by the harness. -/
def series (x : Float) : Float := Id.run do
  let x2 := x * x
  let mut term := x
  let mut sum := x
  for n in [1:400] do
    term := term * 2.0 * x2 / (2.0 * n.toFloat + 1.0)
    sum := sum + term
    if term < 1e-20 * sum then break
  return sum

def erf (x : Float) : Float :=
  if x != x then x
  else if x < 0.0 then
    let y := -x
    if y > 6.5 then -1.0 else -(1.1283791670955126 * Float.exp (-(y * y)) * series y)
  else if x > 6.5 then 1.0
  else 1.1283791670955126 * Float.exp (-(x * x)) * series x
end FloatErf

instance : Scalar Float where
  ofNat := Float.ofNat
  ofScientific := Float.ofScientific
  rpow := Float.pow
  exp := Float.exp
  log := Float.log
  sqrt := Float.sqrt
  abs := Float.abs
  erf := FloatErf.erf
  pi := 3.141592653589793
  lt := fun a b => a < b
  le := fun a b => a ≤ b
  beq := fun a b => a == b
