import SspModel.Model.Sev
/-!
# IFMR predictors (ssptools/ifmr.py): WD polynomial, BH linear spline / analytic prescriptions
-/
namespace Model
variable {α : Type} [Scalar α]
open Scalar ScalarLit

/-- `np.polynomial.Polynomial(c)(x)` (Horner from the highest coefficient); `c` lowest order first -/
def polyEval (c : List α) (x : α) : α :=
  match c.reverse with
  | [] => 0
  | top :: rest => rest.foldl (fun acc ck => ck + acc * x) top

/-- value of the line through two knots at `x` -/
def linSeg (x0 y0 x1 y1 x : α) : α := y0 + (y1 - y0) * ((x - x0) / (x1 - x0))

/-- `UnivariateSpline(mi, mf, s=0, k=1, ext=0)(x)`: linear interpolation through the knots (strictly increasing
    abscissae), linear extrapolation of the end segments outside -/
def linInterp : List (α × α) → α → α
  | [], _ => 0
  | [(_, y0)], _ => y0
  | [(x0, y0), (x1, y1)], x => linSeg x0 y0 x1 y1 x
  | (x0, y0) :: (x1, y1) :: p :: rest, x =>
    if le x x1 then linSeg x0 y0 x1 y1 x else linInterp ((x1, y1) :: p :: rest) x

/-- `_line(mi, exponent, slope, scale)` -/
def lineFn (exponent slope scale mi : α) : α := (slope * rpow mi exponent) + scale

/-- `_powerlaw_predictor` validation at the two end points (ifmr.py:60-71); `mUpper = none` is `np.inf` -/
def lineValid (exponent slope scale mLower : α) (mUpper : Option α) : Bool :=
  let lo := lineFn exponent slope scale mLower
  let okLo := lt 0 lo && le lo mLower
  let okHi := match mUpper with
    | some u => let v := lineFn exponent slope scale u; lt 0 v && le v u
    | none =>
      -- value at +∞ must lie in (0, ∞]
      if lt 0 exponent then lt 0 slope                  -- slope·∞ + scale = ±∞ (NaN when slope = 0)
      else if beq exponent 0 then lt 0 (slope + scale)  -- ∞^0 = 1
      else lt 0 scale                                   -- ∞^negative = 0
  okLo && okHi && !(lt mLower 0) && (match mUpper with | some u => !(lt u mLower) | none => true)

/-- `_lines` (broken power law): the first piece whose closed range contains `mi`; `none` is NaN -/
def brokenFn : List (α × α × α × α × α) → α → Option α     -- (lo, hi, exponent, slope, scale)
  | [], _ => none
  | (lo, hi, e, s, c) :: rest, mi => if le lo mi && le mi hi then some (lineFn e s c mi) else brokenFn rest mi

end Model
