import SspModel.Model.Sev
import SspModel.Model.Closed
import SspModel.Model.IMF
import SspModel.Model.Esc
/-!
# `InitialBHPopulation` (evolve_mf.py): the BH-only shortcut

* `derivsBH`      — the nested `_derivs_BHs(t, y)` of `from_IMF`: only stars and BHs, `frem = 1`, no deposit after the final age,
                    a `RuntimeError` when the turn-off star does not make a BH.
* `finalAge`      — lifetime of the lightest BH progenitor + 0.1 Msun.
* `losses`        — `Ns_lost`, `Ms_lost` from the initial and final star bins (surviving mass on the *truncated* turn-off bin).
* `fromBHMF`      — direct construction: bins of the mass function itself, `binned_eval` numbers and masses.
-/
namespace Model
variable {α : Type} [Scalar α]
open Scalar ScalarLit

inductive BHErr
  | lookup (e : LookupErr)
  | notBH (c : RemClass)
  deriving Repr, DecidableEq

structure BHOut (α : Type) where
  isev : Option Nat
  dNs : α
  defined : Bool
  rem : Option (Nat × α × α)        -- (BH bin, dNr, dMr)

/-- `_derivs_BHs(t, y)` (evolve_mf.py, nested in `InitialBHPopulation.from_IMF`); `alpha` are the per-bin IMF slopes,
    `nminBH` the hard-coded 0.1 -/
def derivsBH (c : SevCfg α) (nminBH finalAge t : α) (Ns alpha : List α) : Except BHErr (BHOut α) :=
  match c.tmsU.getLast? with
  | none => .ok ⟨none, 0, true, none⟩
  | some tlast =>
    if lt tlast t then
      match firstTurnedOff c.tmsU t 0 with
      | none => .ok ⟨none, 0, true, none⟩
      | some isev =>
        let m1 := (c.ms.getD isev (0, 0)).1
        let mto := mtoFin c.a0 c.a1 c.a2 t
        let Nj := Ns.getD isev 0
        let aj := alpha.getD isev 0
        let fl := sevDNdm nminBH Nj aj m1 mto
        let dNdt := -fl.1 * dmdtAbs c.a0 c.a1 c.a2 t
        let mrem := predict c.ifmr mto
        if le t finalAge && lt 0 mrem then
          match predictType c.ifmr mto with
          | .BH =>
            match determineIndex c.bh mrem with
            | .ok irem => .ok ⟨some isev, dNdt, fl.2, some (irem, -dNdt * 1, -mrem * dNdt * 1)⟩
            | .error e => .error (.lookup e)
          | cls => .error (.notBH cls)
        else .ok ⟨some isev, dNdt, fl.2, none⟩
    else .ok ⟨none, 0, true, none⟩

/-- `final_age = compute_tms(BH_mi.lower + 0.1)` -/
def finalAge (c : SevCfg α) (offset : α) : α := tms c.a0 c.a1 c.a2 (c.ifmr.bhLo + offset)

/-- the derivative entry of BH bin `i` implied by an output of the full model -/
def SevOut.bhEntry (o : SevOut α) (i : Nat) : α × α :=
  match o.rem with
  | some (.BH, j, dN, dM) => if i = j then (dN, dM) else (0, 0)
  | _ => (0, 0)

def BHOut.bhEntry (o : BHOut α) (i : Nat) : α × α :=
  match o.rem with
  | some (j, dN, dM) => if i = j then (dN, dM) else (0, 0)
  | none => (0, 0)

/-! ## loss bookkeeping -/

/-- mass of `n` stars spread with slope `a` over `[l, u]` : `n / Pk(a,1,l,u) * Pk(a,2,l,u)` -/
def massOf (n a l u : α) : α := n / PkCore a 1 l u * PkCore a 2 l u

/-- the same, as the code computes it: a bin too thin for `Pk` (NaN) holds stars of its lower-edge mass -/
def massOfT (n a l u : α) : α :=
  match Pk a 1 l u, Pk a 2 l u with
  | some p1, some p2 => n / p1 * p2
  | _, _ => n * l

/-- upper edges with the bin holding `mto` cut at `mto` (`turned_off_bins`) for a list of closed bins -/
def truncU (b : ClosedBin α) (mto : α) : α := if le b.l mto && lt mto b.u then mto else b.u

/-- (`Ns_lost`, `Ms_lost`) from the initial numbers/masses and the final numbers -/
def losses (bins : List (ClosedBin α)) (final : List α) (mto : α) : α × α :=
  let n0 := bins.map (·.n0)
  let m0 := bins.map fun b => b.A * PkCore b.a 2 b.l b.u
  let ms := (bins.zip final).map fun (b, n) => massOfT n b.a b.l (truncU b mto)
  (sumL n0 - sumL final, sumL m0 - sumL ms)

/-! ## direct construction from a BH mass function -/

/-- `from_BHMF`: numbers, masses (and slopes) of the bins under the normalised segments (`MF.binned_eval(bins)`) -/
def fromBHMF (ext : Nat) (segs : List (Seg α)) (n0 : α) (bins : List (Bin α)) :
    List (Except ImfErr (Option α × Option α × α)) :=
  bins.map fun b => binnedEval1 ext segs n0 b.1 b.2

end Model
