/-!
# Metallicity snapping (ssptools/ifmr.py:180-198, 215, 244, 322, 351; kicks.py:92)

Every double is a dyadic rational `±m·2^e`; the file name is `format(x, '+.2f')`, i.e. the *exact* binary value rounded
half-to-even to two decimals, with the sign of the input (so `-0.0` and small negatives give `-0.00`).
All quantities here are integers: `n` = |x| in hundredths after rounding.
-/
namespace Model.FeH

/-- |x|·100 rounded half-to-even, for |x| = m·2^e -/
def roundHundredths (m : Nat) (e : Int) : Nat :=
  if 0 ≤ e then m * 100 * 2 ^ e.toNat
  else
    let d := 2 ^ (-e).toNat
    let q := (m * 100) / d
    let r := (m * 100) % d
    if 2 * r > d then q + 1 else if 2 * r = d then q + q % 2 else q

/-- value in hundredths as a signed integer, plus the sign character -/
structure Name where
  neg : Bool
  n : Nat
  deriving Repr, DecidableEq

def Name.toInt (x : Name) : Int := if x.neg then -(x.n : Int) else x.n

/-- `format(x, '+.2f')` for x = (−1)^neg · m · 2^e -/
def fmtPlus2 (neg : Bool) (m : Nat) (e : Int) : Name := ⟨neg, roundHundredths m e⟩

/-- `_check_IFMR_FEH_bounds`: clamp to the grid ends, given in hundredths (`lo ≤ 0 ≤ hi`); compares the exact values.
    Returns the (possibly replaced) dyadic value. -/
def clampLt (neg : Bool) (m : Nat) (e : Int) (k : Int) : Bool :=
  -- x < k/100  ⇔  ±m·2^e·100 < k
  let v : Int := if neg then -(m : Int) * 100 else (m : Int) * 100
  if 0 ≤ e then v * 2 ^ e.toNat < k else v < k * 2 ^ (-e).toNat

def clampGt (neg : Bool) (m : Nat) (e : Int) (k : Int) : Bool :=
  let v : Int := if neg then -(m : Int) * 100 else (m : Int) * 100
  if 0 ≤ e then v * 2 ^ e.toNat > k else v > k * 2 ^ (-e).toNat

/-- the name of the file that gets opened for metallicity x on a grid spanning [lo, hi] hundredths.
    (the grid ends are themselves doubles whose two-decimal rounding is the file's own name) -/
def snapName (lo hi : Int) (neg : Bool) (m : Nat) (e : Int) : Name :=
  if clampLt neg m e lo then ⟨decide (lo < 0), lo.natAbs⟩
  else if clampGt neg m e hi then ⟨decide (hi < 0), hi.natAbs⟩
  else fmtPlus2 neg m e

/-- a file exists iff its hundredths value is on the grid and, for zero, that spelling of zero is present -/
def fileExists (grid : List Int) (plusZero minusZero : Bool) (x : Name) : Bool :=
  if x.n = 0 then (if x.neg then minusZero else plusZero) else grid.contains x.toInt

end Model.FeH
