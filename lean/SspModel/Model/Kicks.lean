import SspModel.Scalar
/-!
# Natal kicks (ssptools/kicks.py)
-/
namespace Model
variable {α : Type} [Scalar α]
open Scalar ScalarLit

/-- kicks.py:135  `erf(np.exp(slope * (m - scale)))` -/
def sigmoidRet (slope scale m : α) : α := erf (exp (slope * (m - scale)))

/-- kicks.py:58-61 `_maxwellian(x, a)` -/
def maxwellPdf (a x : α) : α :=
  sqrt (2 / pi) * (rpow x 2 * exp ((-1 * rpow x 2) / (2 * rpow a 2))) / rpow a 3

/-- closed-form CDF of the Maxwellian speed distribution with scale `a`
    (= ∫₀ᵛ maxwellPdf, proved in `Props/C15`) -/
def maxwellCdf (a v : α) : α :=
  erf (v / (sqrt 2 * a)) - sqrt (2 / pi) * (v / a) * exp (-(rpow v 2) / (2 * rpow a 2))

/-- kicks.py:63-79 retention given the fallback fraction `fb` of this mass -/
def maxwellRet (fb vesc vdisp : α) : α :=
  if le 1 fb then 1 else maxwellCdf (vdisp * (1 - fb)) vesc

/-- number of leading abscissae strictly below `x` (`np.searchsorted(xs, x)`, side='left', on a sorted list) -/
def searchLeft : List (α × α) → α → Nat
  | [], _ => 0
  | (x0, _) :: r, x => if lt x0 x then searchLeft r x + 1 else 0

/-- `interp1d(xs, ys, kind="linear", bounds_error=False, fill_value=(0.0, 1.0))` on the table sorted by
    abscissa (scipy sorts it the same way): below → 0, above → 1, otherwise the segment chosen by
    `searchsorted` clipped to `[1, n-1]`. -/
def fallbackInterp (tab : List (α × α)) (x : α) : α :=
  match tab with
  | [] => 0
  | (x0, _) :: _ =>
    let n := tab.length
    let (xl, _) := tab.getD (n - 1) (0, 0)
    if lt x x0 then 0
    else if lt xl x then 1
    else
      let i := max 1 (min (searchLeft tab x) (n - 1))
      let (xa, ya) := tab.getD (i - 1) (0, 0)
      let (xb, yb) := tab.getD i (0, 0)
      (yb - ya) / (xb - xa) * (x - xa) + ya

/-- kicks.py:138-162 `_unbound_natal_kicks`: per-bin loop (accumulator = `natal_ejecta`);
    returns the new arrays and the ejecta -/
def unboundKicksAux (fret : α → α) : List (α × α) → α → List (α × α) × α
  | [], acc => ([], acc)
  | (m, n) :: rest, acc =>
    if lt n (1e-1 : α) then
      let (r, e) := unboundKicksAux fret rest acc
      ((m, n) :: r, e)
    else
      let ret := fret (m / n)
      let (r, e) := unboundKicksAux fret rest (acc + m * (1 - ret))
      ((m * ret, n * ret) :: r, e)

def unboundKicks (fret : α → α) (bins : List (α × α)) : List (α × α) × α :=
  unboundKicksAux fret bins 0

end Model
