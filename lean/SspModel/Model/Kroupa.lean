import SspModel.Scalar
/-!
# Legacy `Kroupa` piecewise power-law PDF (ssptools/Kroupa.py)

`a` are the exponents (density ∝ x^(−a_i) on piece i), `mlim` the n+1 limits.
-/
namespace Model
variable {α : Type} [Scalar α]
open Scalar ScalarLit

/-- zeroth moment of x^(−a) over [xmin, xmax] (Kroupa.py:158-163) -/
def kMom0 (xmin xmax a : α) : α :=
  if beq a 1 then log xmax - log xmin else (rpow xmax (1 - a) - rpow xmin (1 - a)) / (1 - a)

/-- first moment (Kroupa.py:165-170) -/
def kMom1 (xmin xmax a : α) : α :=
  if beq a 2 then log xmax - log xmin else (rpow xmax (2 - a) - rpow xmin (2 - a)) / (2 - a)

/-- Π_{j=1}^{k} (mlim[j+1]/mlim[j])^(−a[j]) -/
def kProd (a mlim : List α) : Nat → α
  | 0 => 1
  | k + 1 => kProd a mlim k * rpow (mlim.getD (k + 2) 0 / mlim.getD (k + 1) 0) (-(a.getD (k + 1) 0))

/-- continuity constants (Kroupa.py:47-53) -/
def kC (a mlim : List α) (i : Nat) : α :=
  if i == 0 then rpow (1 / mlim.getD 1 0) (-(a.getD 0 0))
  else rpow (1 / mlim.getD i 0) (-(a.getD i 0)) * kProd a mlim (i - 1)

def kSum (a mlim : List α) : Nat → α
  | 0 => 0
  | n + 1 => kSum a mlim n + kMom0 (mlim.getD n 0) (mlim.getD (n + 1) 0) (a.getD n 0) * kC a mlim n

/-- normalisation (Kroupa.py:56-59) -/
def kNorm (a mlim : List α) : α := 1 / kSum a mlim a.length

/-- index of the piece with mlim[i] ≤ x < mlim[i+1] (Kroupa.py:72-75) -/
def kPiece (mlim : List α) (x : α) : Nat → Nat → Option Nat
  | 0, _ => none
  | n + 1, i => if le (mlim.getD i 0) x && lt x (mlim.getD (i + 1) 0) then some i else kPiece mlim x n (i + 1)

/-- `Kroupa.eval(x)`; `none` outside [mlim₀, mlim_n) (the source returns an empty array) -/
def kEval (a mlim : List α) (x : α) : Option α :=
  match kPiece mlim x a.length 0 with
  | some i => some (kNorm a mlim * kC a mlim i * rpow x (-(a.getD i 0)))
  | none => none

/-- `Kroupa._getmass(x, slope, xmin, xmax)`: inverse-CDF sampler of one piece -/
def kGetmass (x slope xmin xmax : α) : α :=
  if beq slope 1 then xmin * exp (x * (log xmax - log xmin))
  else
    let A := (1 / (1 - slope)) * (rpow xmax (1 - slope) - rpow xmin (1 - slope))
    rpow ((1 - slope) * x * A + rpow xmin (1 - slope)) (1 / (1 - slope))

/-- index of the last element satisfying `p` (`np.where(cond)[0][-1]`) -/
def lastIdxAux (p : α → Bool) : List α → Nat → Option Nat → Option Nat
  | [], _, acc => acc
  | x :: t, i, acc => lastIdxAux p t (i + 1) (if p x then some i else acc)

/-- index of the first element satisfying `p` (`np.where(cond)[0][0]`) -/
def firstIdxAux (p : α → Bool) : List α → Nat → Option Nat
  | [], _ => none
  | x :: t, i => if p x then some i else firstIdxAux p t (i + 1)

inductive KErr | below | above | index deriving Repr, DecidableEq

def maxS' (x y : α) : α := if lt x y then y else x     -- np.max((x, y))
def minS' (x y : α) : α := if lt y x then y else x     -- np.min((x, y))

/-- one pass of the loop body of `integral()` for piece `i` -/
def kIntStep (a mlim : List α) (xmin xmax : α) (acc : α × α) (i : Nat) : α × α :=
  let lo := maxS' (mlim.getD i 0) xmin
  let hi := minS' (mlim.getD (i + 1) 0) xmax
  let ai := a.getD i 0
  (acc.1 + kNorm a mlim * kC a mlim i * kMom0 lo hi ai, acc.2 + kNorm a mlim * kC a mlim i * kMom1 lo hi ai)

/-- `Kroupa.integral(xmin, xmax)` (Kroupa.py:79-131): piece selection and accumulation -/
def kIntegral (a mlim : List α) (xmin xmax : α) : Except KErr (α × α) :=
  if lt xmin (mlim.getD 0 0) then .error .below
  else if lt (mlim.getD (mlim.length - 1) 0) xmax then .error .above
  else
    let imin := lastIdxAux (fun m => le 1 (xmin / m)) mlim 0 none
    let imax := if beq xmax (mlim.getD (mlim.length - 1) 0) then some (mlim.length - 1)
                else firstIdxAux (fun m => lt (xmax / m) 1) mlim 0
    match imin, imax with
    | some i0, some i1 =>
      if i0 == i1 then
        .ok (kNorm a mlim * kC a mlim i0 * kMom0 xmin xmax (a.getD i0 0), kNorm a mlim * kC a mlim i0 * kMom1 xmin xmax (a.getD i0 0))
      else .ok ((List.range' i0 (i1 - i0)).foldl (kIntStep a mlim xmin xmax) (0, 0))
    | _, _ => .error .index

end Model
