import SspModel.Scalar
/-!
# Legacy `Kroupa` piecewise power-law PDF (ssptools/Kroupa.py)

`a` are the exponents (density ∝ x^(−a_i) on piece i), `mlim` the n+1 limits.
-/
namespace Model
variable {α : Type} [Scalar α]
open Scalar ScalarLit

/-- zeroth moment of x^(−a) over [xmin, xmax] (Kroupa.py:158-163) -/
def kMom0 (xmin xmax a : α) : α :=
  if beq a 1 then log xmax - log xmin else (rpow xmax (1 - a) - rpow xmin (1 - a)) / (1 - a)

/-- first moment (Kroupa.py:165-170) -/
def kMom1 (xmin xmax a : α) : α :=
  if beq a 2 then log xmax - log xmin else (rpow xmax (2 - a) - rpow xmin (2 - a)) / (2 - a)

/-- Π_{j=1}^{k} (mlim[j+1]/mlim[j])^(−a[j]) -/
def kProd (a mlim : List α) : Nat → α
  | 0 => 1
  | k + 1 => kProd a mlim k * rpow (mlim.getD (k + 2) 0 / mlim.getD (k + 1) 0) (-(a.getD (k + 1) 0))

/-- continuity constants (Kroupa.py:47-53) -/
def kC (a mlim : List α) (i : Nat) : α :=
  if i == 0 then rpow (1 / mlim.getD 1 0) (-(a.getD 0 0))
  else rpow (1 / mlim.getD i 0) (-(a.getD i 0)) * kProd a mlim (i - 1)

def kSum (a mlim : List α) : Nat → α
  | 0 => 0
  | n + 1 => kSum a mlim n + kMom0 (mlim.getD n 0) (mlim.getD (n + 1) 0) (a.getD n 0) * kC a mlim n

/-- normalisation (Kroupa.py:56-59) -/
def kNorm (a mlim : List α) : α := 1 / kSum a mlim a.length

/-- index of the piece with mlim[i] ≤ x < mlim[i+1] (Kroupa.py:72-75) -/
def kPiece (mlim : List α) (x : α) : Nat → Nat → Option Nat
  | 0, _ => none
  | n + 1, i => if le (mlim.getD i 0) x && lt x (mlim.getD (i + 1) 0) then some i else kPiece mlim x n (i + 1)

/-- `Kroupa.eval(x)`; `none` outside [mlim₀, mlim_n) (the source returns an empty array) -/
def kEval (a mlim : List α) (x : α) : Option α :=
  match kPiece mlim x a.length 0 with
  | some i => some (kNorm a mlim * kC a mlim i * rpow x (-(a.getD i 0)))
  | none => none

/-- `Kroupa._getmass(x, slope, xmin, xmax)`: inverse-CDF sampler of one piece -/
def kGetmass (x slope xmin xmax : α) : α :=
  if beq slope 1 then xmin * exp (x * (log xmax - log xmin))
  else
    let A := (1 / (1 - slope)) * (rpow xmax (1 - slope) - rpow xmin (1 - slope))
    rpow ((1 - slope) * x * A + rpow xmin (1 - slope)) (1 / (1 - slope))

end Model
