import SspModel.Model.Pk
import SspModel.Model.Life
import SspModel.Model.Bins
/-!
# `EvolvedMF._derivs_sev` (ssptools/evolve_mf.py:521-582) and the IFMR decision logic (ifmr.py:603-638)
-/
namespace Model
variable {α : Type} [Scalar α]
open Scalar ScalarLit

inductive RemClass | WD | NS | BH deriving Repr, DecidableEq

/-- what the derivative needs from the IFMR object: the two progenitor thresholds, the NS mass and the two predictors -/
structure IfmrFn (α : Type) where
  wdHi : α          -- WD_mi.upper
  bhLo : α          -- BH_mi.lower
  nsMass : α
  wdFn : α → α
  bhFn : α → α

/-- `IFMR.predict_type` (ifmr.py:606-612) -/
def predictType (f : IfmrFn α) (m : α) : RemClass :=
  if le f.bhLo m then .BH else if lt f.wdHi m && le m f.bhLo then .NS else .WD

/-- `IFMR.predict` (ifmr.py:619-625): the same three conditions -/
def predict (f : IfmrFn α) (m : α) : α :=
  if le f.bhLo m then f.bhFn m else if lt f.wdHi m && le m f.bhLo then f.nsMass else f.wdFn m

/-- the part of the configuration `_derivs_sev` reads -/
structure SevCfg (α : Type) where
  ms : List (Bin α)            -- stellar bins
  tmsU : List α                -- lifetime of every upper edge
  a0 : α
  a1 : α
  a2 : α
  nmin : α
  fWD : α
  fNS : α
  fBH : α
  wd : List (Bin α)
  ns : List (Bin α)
  bh : List (Bin α)
  ifmr : IfmrFn α

def SevCfg.frem (c : SevCfg α) : RemClass → α
  | .WD => c.fWD | .NS => c.fNS | .BH => c.fBH
def SevCfg.remBins (c : SevCfg α) : RemClass → List (Bin α)
  | .WD => c.wd | .NS => c.ns | .BH => c.bh

/-- index of the first bin whose upper-edge lifetime is below `t` (`np.where(t > tms_u)[0][0]`) -/
def firstTurnedOff : List α → α → Nat → Option Nat
  | [], _, _ => none
  | x :: xs, t, i => if lt x t then some i else firstTurnedOff xs t (i + 1)

/-- what one evaluation of `_derivs_sev` produces: the single star entry and the single remnant entry -/
structure SevOut (α : Type) where
  isev : Option Nat            -- star bin that loses stars (none: before the first turn-off)
  dNs : α                      -- dNs[isev]
  defined : Bool               -- false when Pk of the truncated bin is NaN (too thin)
  rem : Option (RemClass × Nat × α × α)   -- (class, bin, dNr, dMr)

/-- dN/dm at the turn-off mass of the turn-off bin (evolve_mf.py:540-553); the flag is false when `Pk` is NaN -/
def sevDNdm (nmin Nj aj m1 mto : α) : α × Bool :=
  if lt m1 mto && lt nmin Nj then
    match Pk aj 1 m1 mto with
    | some p => ((Nj / p) * rpow mto aj, true)
    | none => (0, false)
  else (0, true)

/-- `_derivs_sev(t, y)`; only `Ns` and `alpha` of the state matter. `Except` carries the remnant-lookup ValueError. -/
def derivsSev (c : SevCfg α) (t : α) (Ns alpha : List α) : Except LookupErr (SevOut α) :=
  match c.tmsU.getLast? with
  | none => .ok ⟨none, 0, true, none⟩
  | some tlast =>
    if lt tlast t then
      match firstTurnedOff c.tmsU t 0 with
      | none => .ok ⟨none, 0, true, none⟩
      | some isev =>
        let m1 := (c.ms.getD isev (0, 0)).1
        let mto := mtoFin c.a0 c.a1 c.a2 t
        let Nj := Ns.getD isev 0
        let aj := alpha.getD isev 0
        let fl := sevDNdm c.nmin Nj aj m1 mto
        let dfn := fl.2
        let dNdt := -fl.1 * dmdtAbs c.a0 c.a1 c.a2 t
        let mrem := predict c.ifmr mto
        let cls := predictType c.ifmr mto
        if lt dNdt 0 && lt 0 mrem then
          match determineIndex (c.remBins cls) mrem with
          | .ok irem => .ok ⟨some isev, dNdt, dfn, some (cls, irem, -dNdt * c.frem cls, -mrem * dNdt * c.frem cls)⟩
          | .error e => .error e
        else .ok ⟨some isev, dNdt, dfn, none⟩
    else .ok ⟨none, 0, true, none⟩

end Model
