import SspModel.Model.Pk
/-!
# `masses.PowerLawIMF` (ssptools/masses.py:74-303)

A segment is `(lo, hi, a)`. The constants are computed on the segment list in **reverse** order (top
segment first): `q` is the running product Π_{j>i} mb_j^(a_j − a_{j−1}) of the source's formula, the last
constant is `(Σ_i Pk_i · q_i)^(-1)` and `A_i = A_last · q_i` (the source obtains the same numbers by its
downward recursion `A_{i-1} = A_i · mb_i^(a_i − a_{i−1})`; over ℝ identical, in floats equal up to
re-association, which the correspondence tolerates at 1e-12).
-/
namespace Model
variable {α : Type} [Scalar α]
open Scalar ScalarLit

abbrev Seg (α : Type) := α × α × α      -- (lo, hi, a)

/-- segments from break masses and slopes (in increasing mass order) -/
def mkSegs : List α → List α → List (Seg α)
  | lo :: hi :: mb, a :: as => (lo, hi, a) :: mkSegs (hi :: mb) as
  | _, _ => []

/-- running products, on the reversed segment list, starting from `q` for the top segment -/
def imfQs : List (Seg α) → α → List α
  | [], _ => []
  | [_], q => [q]
  | (lo, _, a) :: (lo', hi', a') :: rest, q => q :: imfQs ((lo', hi', a') :: rest) (q * rpow lo (a - a'))

/-- Σ_i Pk(a_i,1,lo_i,hi_i)·q_i -/
def imfS : List (Seg α) → List α → α
  | (lo, hi, a) :: segs, q :: qs => PkCore a 1 lo hi * q + imfS segs qs
  | _, _ => 0

/-- normalisation constants `_A_comps`, in increasing mass order -/
def imfA (segs : List (Seg α)) : List α :=
  let rev := segs.reverse
  let qs := imfQs rev 1
  let alast := rpow (imfS rev qs) (-1)
  (qs.map fun q => alast * q).reverse

/-- index of the first true entry (np.select picks the first matching condition) -/
def firstTrue : List Bool → Option Nat
  | [] => none
  | b :: bs => if b then some 0 else (firstTrue bs).map (· + 1)

/-- the list of conditions `__call__` builds (masses.py:189-205) for one mass -/
def evalBounds (ext : Nat) (segs : List (Seg α)) (m : α) : List Bool :=
  let nc := segs.length
  if ext == 0 then
    if nc == 1 then [true]
    else (List.range nc).zipWith (fun i (s : Seg α) =>
      if i == 0 then le m s.2.1
      else if i == nc - 1 then le s.1 m
      else le s.1 m && le m s.2.1) segs
  else segs.map fun s => le s.1 m && le m s.2.1

inductive ImfErr | outside deriving Repr, DecidableEq

/-- `PowerLawIMF.__call__(m, N=n)` -/
def imfEval (ext : Nat) (segs : List (Seg α)) (n : α) (m : α) : Except ImfErr α :=
  match firstTrue (evalBounds ext segs m) with
  | some i =>
    let (_, _, a) := segs.getD i (0, 0, 0)
    .ok (n * ((imfA segs).getD i 0 * rpow m a))
  | none => if ext == 2 then .error .outside else .ok (n * 0)

/-- the masks of `binned_eval` (masses.py:266-283) for one bin -/
def binMasks (ext : Nat) (segs : List (Seg α)) (lo hi : α) : List Bool :=
  let nc := segs.length
  if ext == 0 then
    if nc == 1 then [true]
    else (List.range nc).zipWith (fun i (s : Seg α) =>
      if i == 0 then le hi s.2.1
      else if i == nc - 1 then le s.1 hi
      else le s.1 lo && le hi s.2.1) segs
  else segs.map fun s => le s.1 lo && le hi s.2.1

/-- `binned_eval` for one bin: `(N_bin, M_bin, alpha_bin)`; `none` entries are Pk's NaN -/
def binnedEval1 (ext : Nat) (segs : List (Seg α)) (n : α) (lo hi : α) :
    Except ImfErr (Option α × Option α × α) :=
  match firstTrue (binMasks ext segs lo hi) with
  | some i =>
    let (_, _, a) := segs.getD i (0, 0, 0)
    let A := n * (imfA segs).getD i 0
    .ok ((Pk a 1 lo hi).map (A * ·), (Pk a 2 lo hi).map (A * ·), a)
  | none =>
    if ext == 2 then .error .outside
    else .ok ((Pk 0 1 lo hi).map ((n * 0) * ·), (Pk 0 2 lo hi).map ((n * 0) * ·), 0)

/-- exact first moment of the IMF: Σ_i N·A_i·Pk(a_i, 2, lo_i, hi_i) (the source uses `scipy.quad`) -/
def imfMtot (segs : List (Seg α)) (n : α) : α :=
  let rec go : List (Seg α) → List α → α
    | (lo, hi, a) :: s, A :: As => n * A * PkCore a 2 lo hi + go s As
    | _, _ => 0
  go segs (imfA segs)

/-- `from_M0`: the N0 giving total mass M0 -/
def imfN0ofM0 (segs : List (Seg α)) (M0 : α) : α := M0 / (imfMtot segs 1 / 1)

end Model
