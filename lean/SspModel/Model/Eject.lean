import SspModel.Scalar
/-!
# Dynamical BH ejection (ssptools/evolve_mf.py:695-768, 846-873, 1061-1139, 1211-1247)

Bins are listed **heaviest first** (the reverse of the numpy arrays); a bin is `(M, N)`.
The `Bool` returned next to the bins is the *definedness* flag: `false` when the float code
divides 0 by 0 (a NaN in numpy; over ℝ the totalised `0/0 = 0` would hide it).
-/
namespace Model
variable {α : Type} [Scalar α]
open Scalar ScalarLit

inductive EjErr | overEject | kicksOverBudget | targetUnreachable
  deriving Repr, DecidableEq

/-- the `while` body of `_dyn_eject_BH` (evolve_mf.py:743-766) -/
def dynEjectLoop : List (α × α) → α → Except EjErr (List (α × α) × Bool)
  | [], _ => .error .overEject                       -- `j < 0` → ValueError
  | (m, n) :: rest, mej =>
    if lt m mej then                                   -- whole bin removed
      match dynEjectLoop rest (mej - m) with
      | .ok (r, d) => .ok ((0, 0) :: r, d)
      | .error e => .error e
    else                                               -- partial removal, then `break`
      .ok ((m - mej, n - mej / (m / n)) :: rest, !(beq m 0))

/-- `_dyn_eject_BH(Mr, Nr, M_eject=mej)`; the loop is entered only while something is left to eject
    (`while M_eject > 0`) -/
def dynEjectRev (bins : List (α × α)) (mej : α) : Except EjErr (List (α × α) × Bool) :=
  if lt 0 mej then dynEjectLoop bins mej else .ok (bins, true)

/-- evolve_mf.py:1103-1105 -/
def Mrem (dfbh Mb Mt : α) : α := (rpow Mt 2 * dfbh) / ((Mt * (1 + dfbh)) - Mb)

/-- the `while` of `EvolvedMFWithBH._dyn_eject_BH` (evolve_mf.py:1112-1137);
    the Python index wraps to `-1` after the last bin, where it reads the already-zeroed heaviest bin and
    changes nothing — modelled by returning `[]` unchanged. -/
def targetEjectRev : List (α × α) → α → α → α → (List (α × α) × Bool)
  | [], _, _, _ => ([], true)
  | (m, n) :: rest, MBH, Mtot, f =>
    if lt f (MBH / Mtot) then
      if le f ((MBH - m) / (Mtot - m)) then
        let (r, d) := targetEjectRev rest (MBH - m) (Mtot - m) f
        ((0, 0) :: r, d)
      else
        let req := Mrem (MBH / Mtot - f) MBH Mtot
        ((m - req, n - req / (m / n)) :: rest, !(beq m 0))
    else ((m, n) :: rest, true)

def sumFst : List (α × α) → α
  | [] => 0
  | (m, _) :: t => m + sumFst t

/-- individual mass of the lightest BHs: the lightest bin's mean mass, or its centre `centre0` while that bin is empty -/
def lightestMass (centre0 : α) (bins : List (α × α)) : α :=
  let (m0, n0) := bins.headD (0, 0)
  if lt 0 n0 then m0 / n0 else centre0

/-- the BH part of one output row of `EvolvedMF._evolve` (evolve_mf.py:846-873).
    `bins` are listed lightest first, as the arrays are; `centre0` is the centre of the lightest BH bin.
    `kicks` is passed in (it lives in `Model/Kicks`) as a function returning the new bins and the ejecta. -/
def rowEject (kicks : Option (List (α × α) → List (α × α) × α)) (ret nmin centre0 : α) (bins : List (α × α)) :
    Except EjErr (List (α × α) × Bool) :=
  let formed := sumFst bins
  let mEject := formed * (1 - ret)
  let mRet := formed - mEject
  let q := mRet / lightestMass centre0 bins
  if le 0 q && lt q nmin then
    .ok (bins.map fun _ => (0, 0), true)         -- "kicking basically all": zero every bin
  else
    let (bins', kicked) := match kicks with
      | some k => k bins
      | none => (bins, 0)
    let mEject' := mEject - kicked
    if lt mEject' 0 then .error .kicksOverBudget
    else
      match dynEjectRev bins'.reverse mEject' with
      | .ok (r, d) => .ok (r.reverse, d)
      | .error e => .error e

end Model
