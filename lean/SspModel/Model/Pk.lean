import SspModel.Scalar
/-!
# `masses.Pk` (ssptools/masses.py:20-61)

`PkCore` is the closed form with the separate logarithmic branch (selected by `-a == k`, as the
source does); `Pk` adds the float-resolution check that replaces small results by NaN (`none`).
`PkList` is the element-wise array form (equal-shaped arrays, scalar `k`).
-/
namespace Model
variable {α : Type} [Scalar α]
open Scalar ScalarLit

/-- `np.finfo(float).resolution` -/
def resolution : α := 1e-15

/-- masses.py:53-56 -/
def PkCore (a k m1 m2 : α) : α :=
  if beq (-a) k then log (m2 / m1) else (rpow m2 (a + k) - rpow m1 (a + k)) / (a + k)

/-- masses.py:59  `res[res < resolution] = nan` -/
def Pk (a k m1 m2 : α) : Option α :=
  let r := PkCore a k m1 m2
  if lt r (resolution : α) then none else some r

/-- element-wise array form, `a`, `m1`, `m2` equal-shaped, `k` scalar (the two forms the package uses) -/
def PkList (as : List α) (k : α) (m1s m2s : List α) : List (Option α) :=
  match as, m1s, m2s with
  | a :: as, m1 :: m1s, m2 :: m2s => Pk a k m1 m2 :: PkList as k m1s m2s
  | _, _, _ => []

/-- definedness of the arithmetic in `PkCore` read as real arithmetic: positive edges (so `rpow`, `log`
    and `/` mean what numpy means) -/
def PkDefined (m1 m2 : α) : Bool := lt 0 m1 && lt 0 m2

end Model
