import SspModel.Scalar
/-!
# `masses.MassBins` (ssptools/masses.py:311-855): bin construction, lookup, truncation, packing
-/
namespace Model
variable {α : Type} [Scalar α]
open Scalar ScalarLit

/-- `_divide_bin_sizes(N, Nsec)` -/
def divideBinSizes (N Nsec : Nat) : List Nat :=
  List.replicate (N % Nsec) (N / Nsec + 1) ++ List.replicate (Nsec - N % Nsec) (N / Nsec)

/-- `np.linspace(lo, hi, n + 1)`: `i*step + lo`, last point set to `hi` exactly -/
def linspace (lo hi : α) (n : Nat) : List α :=
  let step := (hi - lo) / ofNat n
  (List.range n).map (fun i => ofNat i * step + lo) ++ [hi]

def log10 (x : α) : α := log x / log 10

/-- `np.geomspace(lo, hi, n + 1)` for positive ends: `10 ** linspace(log10 lo, log10 hi)`, both ends set exactly -/
def geomspace (lo hi : α) (n : Nat) : List α :=
  let l0 := log10 lo
  let step := (log10 hi - l0) / ofNat n
  (List.range n).map (fun i => if i == 0 then lo else rpow 10 (ofNat i * step + l0)) ++ [hi]

inductive Spacing | log | linear deriving Repr, DecidableEq

/-- all stellar bin edges: per segment `each[i] + 1` points, the duplicated break dropped (masses.py:434-461) -/
def msEdges (sp : Spacing) : List α → List Nat → Bool → List α
  | lo :: hi :: mb, n :: each, first =>
    let pts := match sp with
      | .log => geomspace lo hi n
      | .linear => linspace lo hi n
    (if first then pts else pts.drop 1) ++ msEdges sp (hi :: mb) each false
  | _, _, _ => []

abbrev Bin (α : Type) := α × α     -- (lower, upper)

def binsOfEdges : List α → List (Bin α)
  | a :: b :: t => (a, b) :: binsOfEdges (b :: t)
  | _ => []

/-- replace the upper edge of the last bin -/
def setLastUpper : List (Bin α) → α → List (Bin α)
  | [], _ => []
  | [(l, _)], u => [(l, u)]
  | b :: t, u => b :: setLastUpper t u

def setFirstLower : List (Bin α) → α → List (Bin α)
  | [], _ => []
  | (_, u) :: t, l => (l, u) :: t

/-- remnant bins carved from the stellar bins (masses.py:519-548) -/
def carveWD (ms : List (Bin α)) (wdMax : α) : List (Bin α) := setLastUpper (ms.filter fun b => le b.1 wdMax) wdMax
def carveBH (ms : List (Bin α)) (bhMin : α) : List (Bin α) := setFirstLower (ms.filter fun b => lt bhMin b.2) bhMin
def carveNS (ms : List (Bin α)) (nsMass : α) : List (Bin α) := ms.filter fun b => le b.1 nsMass && lt nsMass b.2

inductive LookupErr | below | above deriving Repr, DecidableEq

/-- index of the last bin whose lower edge is ≤ m (`np.flatnonzero(lower <= mass)[-1]`) -/
def lastLowerLe : List (Bin α) → α → Nat → Option Nat → Option Nat
  | [], _, _, acc => acc
  | (l, _) :: t, m, i, acc => lastLowerLe t m (i + 1) (if le l m then some i else acc)

/-- `determine_index(mass, bins)` (masses.py:807-820) -/
def determineIndex (bins : List (Bin α)) (m : α) : Except LookupErr Nat :=
  match lastLowerLe bins m 0 none with
  | none => .error .below
  | some i =>
    if i + 1 ≥ bins.length then
      match bins.getLast? with
      | some (_, u) => if le u m then .error .above else .ok i
      | none => .ok i
    else .ok i

def setUpperAt : List (Bin α) → Nat → α → List (Bin α)
  | [], _, _ => []
  | (l, _) :: t, 0, u => (l, u) :: t
  | b :: t, i + 1, u => b :: setUpperAt t i u

/-- `turned_off_bins(mto)`: only the upper edge of the bin containing `mto` changes; out of range → unchanged.
    `mto = none` is the infinite turn-off mass. -/
def turnedOffBins (ms : List (Bin α)) (mto : Option α) : List (Bin α) :=
  match mto with
  | none => ms
  | some m =>
    match determineIndex ms m with
    | .ok i => setUpperAt ms i m
    | .error _ => ms

/-- `pack_values`: concatenation in the documented order -/
def pack (parts : List (List α)) : List α := parts.flatten

/-- `unpack_values`: slices by the blueprint (cumulative sizes) -/
def unpack : List Nat → List α → List (List α)
  | [], _ => []
  | n :: sizes, y => y.take n :: unpack sizes (y.drop n)

/-- blueprint sizes `[nMS, nMS, nWD, nNS, nBH, nWD, nNS, nBH]` -/
def blueprint (nMS nWD nNS nBH : Nat) : List Nat := [nMS, nMS, nWD, nNS, nBH, nWD, nNS, nBH]

end Model
