import SspModel.Scalar
/-!
# The integration/extraction loop of `_evolve` (ssptools/evolve_mf.py:363-368, 806-908)

The ODE integrator is a parameter `flow t₀ t₁ y`; `extract t i y` is everything the loop does with a copy of the
solver state at a requested age (row `i` carries its own per-age target). Rows start uninitialised (`none`).
-/
namespace Model
variable {α : Type} [Scalar α]
open Scalar ScalarLit

/-- insertion into a sorted list (`np.sort` on the merged times) -/
def insertSorted (x : α) : List α → List α
  | [] => [x]
  | y :: ys => if le x y then x :: y :: ys else y :: insertSorted x ys

def sortL : List α → List α
  | [] => []
  | x :: xs => insertSorted x (sortL xs)

def maxL : List α → α → α
  | [], m => m
  | x :: xs, m => maxL xs (if lt m x then x else m)

/-- `self.t = np.sort(np.r_[tms_u[tms_u < max(tout)], tout])` -/
def integrationGrid (tmsU tout : List α) : List α :=
  match tout with
  | [] => []
  | t0 :: ts =>
    let tEnd := maxL ts t0
    sortL ((tmsU.filter fun x => lt x tEnd) ++ tout)

variable {Y Row : Type}

/-- rows written at grid time `ti`: every requested age equal to `ti` gets its own row -/
def writeRows (extract : α → Nat → Y → Row) (tout : List α) (ti : α) (y : Y)
    (rows : Nat → Option Row) : Nat → Option Row :=
  fun i => if i < tout.length && beq (tout.getD i 0) ti then some (extract ti i y) else rows i

/-- the `for ti in self.t` loop -/
def runSchedule (flow : α → α → Y → Y) (extract : α → Nat → Y → Row) (tout : List α) :
    List α → α → Y → (Nat → Option Row) → (Nat → Option Row)
  | [], _, _, rows => rows
  | ti :: rest, tcur, y, rows =>
    let y' := flow tcur ti y                 -- sol.integrate(ti)
    runSchedule flow extract tout rest ti y' (writeRows extract tout ti y' rows)

/-- convergence flag: scipy's success state is sticky (reset only by `set_initial_value`), read once after the loop -/
def convergedFlag (segmentOk : List Bool) : Bool := segmentOk.all id

/-- the time the solver actually stands at after each `integrate` call, given per-segment success bits and where a
    failed segment stopped (`reached`) -/
def solverTimes : List (α × Bool × α) → List α        -- (requested, ok, reached-if-failed)
  | [] => []
  | (treq, ok, treached) :: rest => (if ok then treq else treached) :: solverTimes rest

end Model
