import SspModel.Scalar
/-!
# Lifetime / turn-off (ssptools/evolve_mf.py:462-477, 556-559, 1463-1472, 1510-1513)
-/
namespace Model
variable {α : Type} [Scalar α]
open Scalar ScalarLit

/-- `a[0] * np.exp(a[1] * mi ** a[2])` -/
def tms (a0 a1 a2 mi : α) : α := a0 * exp (a1 * rpow mi a2)

/-- `(np.log(t / a0) / a1) ** (1 / a2)` — the finite branch -/
def mtoFin (a0 a1 a2 t : α) : α := rpow (log (t / a0) / a1) (1 / a2)

/-- `compute_mto`: `none` stands for `np.inf` (ages up to the shortest lifetime `a0`) -/
def mto (a0 a1 a2 t : α) : Option α := if lt a0 t then some (mtoFin a0 a1 a2 t) else none

/-- the hand-derived sweep speed without the `abs` -/
def dmdtRaw (a0 a1 a2 t : α) : α := (1 / (a1 * a2 * t)) * rpow (log (t / a0) / a1) (1 / a2 - 1)

/-- `abs((1.0 / (a[1] * a[2] * t)) * (np.log(t / a[0]) / a[1]) ** (1 / a[2] - 1))` -/
def dmdtAbs (a0 a1 a2 t : α) : α := abs (dmdtRaw a0 a1 a2 t)

/-- `np.argmin(np.abs(grid - FeH))` : first index of the minimal distance -/
def argminAbs (grid : List α) (x : α) : Nat :=
  let rec go : List α → Nat → Nat → α → Nat
    | [], _, best, _ => best
    | g :: gs, i, best, bestd =>
      let d := abs (g - x)
      if lt d bestd then go gs (i + 1) i d else go gs (i + 1) best bestd
  match grid with
  | [] => 0
  | g :: gs => go gs 1 0 (abs (g - x))

end Model
