import SspModel.Model.Pk
/-!
# `EvolvedMF._derivs_esc` (ssptools/evolve_mf.py:584-693)

Star bins are `(Ns, alpha, lo, hi)` with `lo, hi` the turn-off-truncated edges; remnant bins of all three classes are
one list of `(Nr, Mr)` (the routine treats every class alike). Output: `(dNs, dalpha, [(dNr, dMr)])`.
-/
namespace Model
variable {α : Type} [Scalar α]
open Scalar ScalarLit

structure StarBin (α : Type) where
  n : α
  a : α
  lo : α
  hi : α

/-- the four moments of a truncated bin; `none` when any of them is NaN (bin thinner than the resolution) -/
def StarBin.moments (b : StarBin α) : Option (α × α × α × α) :=
  match Pk b.a 1 b.lo b.hi, Pk b.a (15e-1) b.lo b.hi, Pk b.a 2 b.lo b.hi, Pk b.a (25e-1) b.lo b.hi with
  | some p1, some p15, some p2, some p25 => some (p1, p15, p2, p25)
  | _, _, _, _ => none

def sumL : List α → α
  | [] => 0
  | x :: xs => x + sumL xs

/-- mass of a star bin, `Ns * (P2/P1)`; 0 contribution when not finite (`Ms[finite_mask]`) -/
def StarBin.mass (b : StarBin α) : α :=
  match b.moments with
  | some (p1, _, p2, _) => b.n * (p2 / p1)
  | none => 0

/-- before core collapse: every bin loses the same fraction (evolve_mf.py:615-636) -/
def escPre (normM : Bool) (rate : α) (stars : List (StarBin α)) (rems : List (α × α)) :
    List α × List α × List (α × α) :=
  let Msum := sumL (stars.map StarBin.mass) + sumL (rems.map (·.2))
  let Nsum := sumL (stars.map (·.n)) + sumL (rems.map (·.1))
  let D := if normM then Msum else Nsum
  (stars.map (fun b => rate * b.n / D),
   stars.map (fun _ => 0),
   rems.map (fun (N, M) =>
     if lt 0 N then
       (rate * N / D, if normM then rate * M / D else (M / N) * rate * N / D)
     else (0, 0)))

def StarBin.depl (md : α) (b : StarBin α) : Bool :=
  match b.moments with
  | some (p1, _, p2, _) => lt (p2 / p1) md
  | none => false

/-- Is_j = Ns (1 − md^(−1/2) P15/P1) on depleted bins, else 0 -/
def StarBin.Is (md : α) (b : StarBin α) : α :=
  match b.moments with
  | some (p1, p15, p2, _) => if lt (p2 / p1) md then b.n * (1 - rpow md (-(5e-1)) * (p15 / p1)) else 0
  | none => 0

/-- Js_j = Ms (1 − md^(−1/2) P25/P2) on depleted bins, else 0 -/
def StarBin.Js (md : α) (b : StarBin α) : α :=
  match b.moments with
  | some (p1, _, p2, p25) => if lt (p2 / p1) md then (b.n * (p2 / p1)) * (1 - rpow md (-(5e-1)) * (p25 / p2)) else 0
  | none => 0

def remI (md : α) (r : α × α) : α :=
  if lt 0 r.1 then (if lt (r.2 / r.1) md then r.1 * (1 - sqrt ((r.2 / r.1) / md)) else 0) else 0
def remJ (md : α) (r : α × α) : α :=
  if lt 0 r.1 then (if lt (r.2 / r.1) md then r.2 * (1 - sqrt ((r.2 / r.1) / md)) else 0) else 0

/-- the secant slope rule (evolve_mf.py:680-684) -/
def StarBin.dalphaUnit (md : α) (b : StarBin α) : α :=
  (rpow (b.lo / md) (5e-1) - rpow (b.hi / md) (5e-1)) / log (b.hi / b.lo)

/-- normalisation constant B -/
def escB (normM : Bool) (rate md : α) (stars : List (StarBin α)) (rems : List (α × α)) : α :=
  if normM then rate / (sumL (stars.map (StarBin.Js md)) + sumL (rems.map (remJ md)))
  else rate / (sumL (stars.map (StarBin.Is md)) + sumL (rems.map (remI md)))

/-- after core collapse: Lamers+13 depletion (evolve_mf.py:638-693). The updates are masked as in the source: star entries only on
    `depl_mask`, remnant entries only where `Nr > 0` (this matters when the normalisation is zero and `B` is not finite) -/
def escPost (normM : Bool) (rate md : α) (stars : List (StarBin α)) (rems : List (α × α)) :
    List α × List α × List (α × α) :=
  let B := escB normM rate md stars rems
  (stars.map (fun b => if b.depl md then B * b.Is md else 0),
   stars.map (fun b => if b.depl md then B * b.dalphaUnit md else 0),
   rems.map (fun r => if lt 0 r.1 then (B * remI md r, B * remJ md r) else (0, 0)))

/-- `_derivs_esc` -/
def derivsEsc (normM : Bool) (t tcc rate md : α) (stars : List (StarBin α)) (rems : List (α × α)) :
    List α × List α × List (α × α) :=
  if lt t tcc then escPre normM rate stars rems else escPost normM rate md stars rems

end Model
