/-!
# Purity of the public constructors (C16): argument objects and what a call may do to them

An argument object is identified by a name; the store maps names to a version counter (bumped by every in-place write).
Which parameters a function writes to is *data*: the table `Generated.mutations`, produced from the source by
`translate.py`'s alias analysis on every run.
-/
namespace Model.Purity

structure Site where
  func : String
  object : String     -- parameter name
  documented : Bool   -- the function is documented as modifying this argument in place
  deriving Repr, DecidableEq

abbrev Store := String → Nat

/-- one call: function name and the binding of its parameter names to argument objects -/
structure Call where
  func : String
  bind : String → String

/-- effect of a call on the store: every site of that function bumps the version of the object bound to its parameter -/
def effect (sites : List Site) (s : Store) (c : Call) : Store :=
  sites.foldl (fun st site => if site.func = c.func then fun o => if o = c.bind site.object then st o + 1 else st o else st) s

def run (sites : List Site) (s : Store) (calls : List Call) : Store := calls.foldl (effect sites) s

/-- functions that are documented in-place routines -/
def documentedFuncs (sites : List Site) : List String := (sites.filter (·.documented)).map (·.func)

end Model.Purity
