import SspModel.Model.Pk
import SspModel.Model.Bins
import SspModel.Model.Sev
import SspModel.Model.Schedule
/-!
# Closed-form no-escape population (the specification of C01)

For a star bin `[l, u)` with IMF density `A·m^α` inside it and turn-off mass `mto`:
* stars left: `A·Pk(α,1,l,min(u,mto))`, but the code's ODE stops draining a bin once `Nmin` stars are left, so the exact
  solution is `max(closed, min(Nmin, N₀))`; the progenitors between `l` and `m*` (`A·Pk(α,1,l,m*) = Nmin`) are never deposited;
* remnants: progenitors between `max(mto, m*)` and `u`, split at every progenitor mass where the remnant class or the remnant
  bin changes (cell boundaries are supplied: IFMR knots / a fine grid; inside a cell the IFMR is treated as linear, which is exact
  for the tabulated BH splines), each piece deposited with its class's retention fraction.
-/
namespace Model
variable {α : Type} [Scalar α]
open Scalar ScalarLit

structure ClosedBin (α : Type) where
  l : α
  u : α
  a : α      -- slope
  A : α      -- density normalisation N·A_i of the IMF segment containing the bin

def minS (x y : α) : α := if lt y x then y else x
def maxS (x y : α) : α := if lt x y then y else x

/-- initial number in the bin -/
def ClosedBin.n0 (b : ClosedBin α) : α := b.A * PkCore b.a 1 b.l b.u

/-- the mass `m*` above the lower edge at which exactly `nmin` stars are left: inverse of `A·Pk(α,1,l,·)` -/
def ClosedBin.mStar (b : ClosedBin α) (nmin : α) : α :=
  if le b.n0 nmin then b.u
  else if beq (-b.a) 1 then b.l * exp (nmin / b.A)
  else rpow (rpow b.l (b.a + 1) + (b.a + 1) * nmin / b.A) (1 / (b.a + 1))

/-- stars left in the bin when the turn-off mass is `mto` (`none` = infinite) -/
def ClosedBin.stars (b : ClosedBin α) (nmin : α) (mto : Option α) : α :=
  match mto with
  | none => b.n0
  | some m =>
    if le b.u m then b.n0
    else
      let closed := if lt b.l m then b.A * PkCore b.a 1 b.l m else 0
      maxS closed (minS nmin b.n0)

/-- one linear piece of progenitors `[p, q]` whose remnant mass runs linearly from `yp` to `yq`: (number, remnant mass) -/
def pieceNM (b : ClosedBin α) (p q yp yq : α) : α × α :=
  let n := b.A * PkCore b.a 1 p q
  let s := (yq - yp) / (q - p)
  (n, yp * n + s * (b.A * PkCore b.a 2 p q - p * n))

/-- bisection for the progenitor mass in `[lo, hi]` at which `g` crosses the level `e` (`up`: `g lo < e < g hi`) -/
def bisect (g : α → α) (e : α) (up : Bool) : Nat → α → α → α
  | 0, lo, hi => (5e-1) * (lo + hi)
  | n + 1, lo, hi =>
    let mid := (5e-1) * (lo + hi)
    if (lt (g mid) e) == up then bisect g e up n mid hi else bisect g e up n lo mid

/-- progenitor masses in `[p, q]` at which the remnant mass `g` (monotone inside a cell) crosses one of the `edges` -/
def crossings (g : α → α) (p q yp yq : α) (edges : List α) : List α :=
  edges.filterMap fun e =>
    if lt yp e && lt e yq then some (bisect g e true 60 p q)
    else if lt yq e && lt e yp then some (bisect g e false 60 p q)
    else none

/-- add `(dN, dM)` to bin `i` of a list of `(N, M)` -/
def addAt : List (α × α) → Nat → α × α → List (α × α)
  | [], _, _ => []
  | (n, m) :: t, 0, (dn, dm) => (n + dn, m + dm) :: t
  | x :: t, i + 1, d => x :: addAt t i d

structure RemAcc (α : Type) where
  wd : List (α × α)
  ns : List (α × α)
  bh : List (α × α)
  lost : α          -- remnants whose mass falls in no bin of their class (counted, never silently dropped)

def RemAcc.add (acc : RemAcc α) (c : SevCfg α) (cls : RemClass) (y : α) (d : α × α) : RemAcc α :=
  match determineIndex (c.remBins cls) y with
  | .ok i =>
    match cls with
    | .WD => { acc with wd := addAt acc.wd i d }
    | .NS => { acc with ns := addAt acc.ns i d }
    | .BH => { acc with bh := addAt acc.bh i d }
  | .error _ => { acc with lost := acc.lost + d.1 }

/-- the remnant-mass branch of a given class, evaluated without re-deciding the class (continuous up to the cell's end points) -/
def predictAs (f : IfmrFn α) : RemClass → α → α
  | .WD, m => f.wdFn m
  | .NS, _ => f.nsMass
  | .BH, m => f.bhFn m

/-- deposit the progenitors of one cell `[p, q]` (inside one star bin, above the turn-off, one remnant class, remnant mass
    continuous and monotone inside): cut where the remnant mass crosses a remnant-bin edge, each piece with the remnant mass
    taken linear between its ends. End points are evaluated just inside the cell (IFMRs may jump at a cell boundary). -/
def depositCell (c : SevCfg α) (b : ClosedBin α) (acc : RemAcc α) (p q : α) : RemAcc α :=
  let mid := (5e-1) * (p + q)
  let cls := predictType c.ifmr mid
  let g := predictAs c.ifmr cls
  let d := (q - p) * (1e-12)
  let gi (x : α) : α := if le x p then g (p + d) else if le q x then g (q - d) else g x
  let edges := (c.remBins cls).map (·.1) ++ (match (c.remBins cls).getLast? with | some e => [e.2] | none => [])
  let cuts := sortL (crossings gi p q (gi p) (gi q) edges)
  let pts := p :: cuts ++ [q]
  let rec go : List α → RemAcc α → RemAcc α
    | x0 :: x1 :: t, a =>
      let (n, m) := pieceNM b x0 x1 (gi x0) (gi x1)
      let ymid := gi ((5e-1) * (x0 + x1))
      let f := c.frem cls
      go (x1 :: t) (if lt 0 ymid && lt x0 x1 then a.add c cls ymid (f * n, f * m) else a)
    | _, a => a
  go pts acc

/-- closed-form remnant population at turn-off mass `mto`: every star bin's progenitors between `max(mto, m*)` and `u`,
    cut at the supplied cell boundaries `cells` (sorted) -/
def closedRemnants (c : SevCfg α) (bins : List (ClosedBin α)) (cells : List α) (mto : α) : RemAcc α :=
  let zero (l : List (Bin α)) : List (α × α) := l.map fun _ => (0, 0)
  bins.foldl (fun acc b =>
    let lo := maxS (maxS mto (b.mStar c.nmin)) b.l
    if lt lo b.u then
      let inner := cells.filter fun x => lt lo x && lt x b.u
      let pts := lo :: inner ++ [b.u]
      let rec go : List α → RemAcc α → RemAcc α
        | x0 :: x1 :: t, a => go (x1 :: t) (depositCell c b a x0 x1)
        | _, a => a
      go pts acc
    else acc) ⟨zero c.wd, zero c.ns, zero c.bh, 0⟩

end Model
