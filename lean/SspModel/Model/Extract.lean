import SspModel.Model.Pk
import SspModel.Model.Bins
/-!
# Per-row extraction and summary views (ssptools/evolve_mf.py:826-903, 228-283)
-/
namespace Model
variable {α : Type} [Scalar α]
open Scalar ScalarLit

/-- stars of one bin: `As = Ns / Pk(α,1)`, `Ms = As * Pk(α,2)`, `ms = Ms / Ns`. A (truncated) bin too thin for either moment
    (`Ms` is NaN) holds stars of its lower-edge mass: `Ms = Ns·lo` (evolve_mf.py, "thin" rule). Always defined. -/
def extractStar (n a lo hi : α) : Option (α × α) :=
  match Pk a 1 lo hi, Pk a 2 lo hi with
  | some p1, some p2 => let Ms := (n / p1) * p2; some (Ms, Ms / n)
  | _, _ => let Ms := n * lo; some (Ms, Ms / n)

/-- remnant mean mass with the bin-centre fallback for unpopulated bins (evolve_mf.py:893-899) -/
def remMean (lo hi N M : α) : α := if lt 0 N then M / N else (5e-1) * (lo + hi)

/-- the filter of the summary views: more than `10·Nmin` objects at the last requested age -/
def populated (factor nmin N : α) : Bool := lt (factor * nmin) N

structure ViewRow (α : Type) where
  cls : Nat          -- 0 MS, 1 WD, 2 NS, 3 BH
  N : α
  M : α
  width : α

/-- the filtered views `M, N, m, types, bin_widths` as one list of rows (stars first, then WD, NS, BH in bin order) -/
def views (factor nmin : α) (rows : List (ViewRow α)) : List (ViewRow α) :=
  rows.filter fun r => populated factor nmin r.N

def viewM (v : List (ViewRow α)) : List α := v.map (·.M)
def viewN (v : List (ViewRow α)) : List α := v.map (·.N)
def viewm (v : List (ViewRow α)) : List α := v.map fun r => r.M / r.N
def viewTypes (v : List (ViewRow α)) : List Nat := v.map (·.cls)
def viewNms (v : List (ViewRow α)) : Nat := (v.filter fun r => r.cls == 0).length
def viewNmr (v : List (ViewRow α)) : Nat := (v.filter fun r => r.cls != 0).length

end Model
