import SspModel.Scalar
/-!
# Argument validation of the constructors (decision logic), in the order the source performs it
(ssptools/evolve_mf.py:307-312, 376-394, 984-990; masses.py:138-147, 456-458; ifmr.py:557-558, 581-582, 597-601)
-/
namespace Model
variable {α : Type} [Scalar α]
open Scalar ScalarLit

inductive VErr | valueError deriving Repr, DecidableEq

structure Request (α : Type) where
  /-- `some r`: constant rate; `none`: callable -/
  rate : Option α
  normKnown : Bool          -- esc_norm ∈ {'N','M'}
  kickKnown : Bool          -- kick_method ∈ {maxwellian,f12,fryer2012,sigmoid} (case-insensitive)
  bhMethodKnown : Bool
  wdMethodKnown : Bool
  binningKnown : Bool
  /-- `EvolvedMFWithBH`: targets (none for the standard model) -/
  fBH : Option (List α)
  nout : Nat
  breaks : List α
  nslopes : Nat
  wdHi : α                  -- WD_mi.upper
  bhLo : α                  -- BH_mi.lower

def increasing : List α → Bool
  | a :: b :: t => lt a b && increasing (b :: t)
  | _ => true

/-- IMF construction (`PowerLawIMF.__init__`) -/
def validateIMF (r : Request α) : Except VErr Unit :=
  if r.breaks.length != r.nslopes + 1 then .error .valueError
  else if r.breaks.length < 2 then .error .valueError
  else if !(increasing r.breaks) then .error .valueError
  else .ok ()

/-- `EvolvedMFWithBH.__init__` prelude -/
def validateTargets (r : Request α) : Except VErr Unit :=
  match r.fBH with
  | none => .ok ()
  | some fs =>
    if fs.length != r.nout then .error .valueError
    else if fs.any (fun f => lt f 0) then .error .valueError
    else .ok ()

def positiveRate (r : Request α) : Bool :=
  match r.rate with
  | some x => lt 0 x
  | none => false

/-- `EvolvedMF.__init__` up to the evolution, in source order: rate sign, normalisation, IFMR (methods, range overlap),
    MassBins (binning method), kick method -/
def validateModel (r : Request α) : Except VErr Unit :=
  if positiveRate r then .error .valueError
  else if !r.normKnown then .error .valueError
  else if !r.bhMethodKnown then .error .valueError
  else if !r.wdMethodKnown then .error .valueError
  else if lt r.bhLo r.wdHi then .error .valueError
  else if !r.binningKnown then .error .valueError
  else if !r.kickKnown then .error .valueError
  else .ok ()

def validate (r : Request α) : Except VErr Unit :=
  validateIMF r >>= fun _ => validateTargets r >>= fun _ => validateModel r

end Model
