def hello := "world"
