/-!
# Packed IFMR tables: decoder and Bool checker evaluated by `decide +kernel` on every generated table

One table = one `Nat`: rows are 80-bit digits, least significant first:
`mi·10` (16 bits) | `mf·10⁵` (32 bits) | stellar type (8 bits) | `fbac·10⁵` (24 bits).
No imports: generated table modules depend only on this file.
-/
namespace Tab

def B : Nat := 2 ^ 80

structure Row where
  mi : Nat   -- initial mass · 10
  mf : Nat   -- final mass · 1e5
  ty : Nat   -- stellar type (14 = BH)
  fb : Nat   -- fallback fraction · 1e5
  deriving Repr

def decodeRow (r : Nat) : Row :=
  ⟨r % 65536, (r / 65536) % 4294967296, (r / 281474976710656) % 256, r / 72057594037927936⟩

def rows : Nat → Nat → List Row
  | 0, _ => []
  | n + 1, p => decodeRow (p % B) :: rows n (p / B)

/-- per-row facts: a BH row has 0 < mf ≤ mi; every fallback fraction is ≤ 1 -/
def rowOK (r : Row) : Bool := (r.ty != 14 || (decide (0 < r.mf) && decide (r.mf ≤ r.mi * 10000))) && decide (r.fb ≤ 100000)

/-- the checker: `prevBH` is the initial mass (·10) of the previous BH row; BH rows must be strictly increasing in it -/
def check : Nat → Nat → Nat → Bool
  | 0, _, _ => true
  | n + 1, p, prevBH =>
    let r := decodeRow (p % B)
    (if r.ty == 14 then decide (prevBH < r.mi) else true) && rowOK r &&
      check n (p / B) (if r.ty == 14 then r.mi else prevBH)

end Tab
