import SspModel.Lemmas.Eject
import SspModel.Lemmas.Bridge.Sched
import SspModel.Lemmas.Bridge.Eject
/-!
# C07 — dynamical BH retention removes exactly the requested mass, heaviest first

`dynEjectRev` works on the bins listed heaviest first; `rowEject` is the per-row logic of `EvolvedMF._evolve`
(budget, "retain almost nothing" shortcut, natal kicks counted toward the ejected share).
-/
namespace Model.C07
open Model Scalar

/-- bins with non-negative contents -/
def NonNeg (l : List (ℝ × ℝ)) : Prop := ∀ b ∈ l, 0 ≤ b.1 ∧ 0 ≤ b.2

/-- what natal kicks are assumed to do (proved for the real bookkeeping in C15): they report exactly the mass
    they removed and leave nothing negative -/
def KicksLaw (kicks : Option (List (ℝ × ℝ) → List (ℝ × ℝ) × ℝ)) (bins : List (ℝ × ℝ)) : Prop :=
  ∀ k, kicks = some k → sumFst (k bins).1 = sumFst bins - (k bins).2 ∧ NonNeg (k bins).1

def kicked (kicks : Option (List (ℝ × ℝ) → List (ℝ × ℝ) × ℝ)) (bins : List (ℝ × ℝ)) : ℝ :=
  match kicks with | some k => (k bins).2 | none => 0

/-- the "kicking basically all" shortcut: fewer than `nmin` lightest-bin BHs would remain -/
def Shortcut (ret nmin centre0 : ℝ) (bins : List (ℝ × ℝ)) : Prop :=
  let q := (sumFst bins - sumFst bins * (1 - ret)) / lightestMass centre0 bins
  0 ≤ q ∧ q < nmin

theorem lightestMass_real (centre0 : ℝ) (bins : List (ℝ × ℝ)) :
    lightestMass centre0 bins =
      if 0 < (bins.headD (0, 0)).2 then (bins.headD (0, 0)).1 / (bins.headD (0, 0)).2 else centre0 := by
  unfold lightestMass
  simp only [Scalar.lt, real_zero, decide_eq_true_eq]

structure Statement : Prop where
  /-- shape obligations on the extraction loop of both `_evolve` methods (see `Lemmas/Bridge/Sched.lean`) -/
  source_row_copy : ∀ x : ℝ, Generated.sched_row_owns_copy x = 1 ∧ Generated.schedbh_row_owns_copy x = 1
  /-- one step of the model's loop, and its entry condition and initial budget, are the source's own expressions -/
  source_step : ∀ (m n mej : ℝ) (rest : List (ℝ × ℝ)), dynEjectLoop ((m, n) :: rest) mej =
      if Generated.eject_whole m mej then
        (match dynEjectLoop rest (Generated.eject_budget m mej) with
         | .ok (r, d) => .ok ((Generated.eject_zeroM m, Generated.eject_zeroN n) :: r, d)
         | .error e => .error e)
      else .ok ((Generated.eject_partM m n mej, Generated.eject_partN m n mej) :: rest, !(Scalar.beq m 0))
  source_entry : ∀ (bins : List (ℝ × ℝ)) (mej : ℝ),
    dynEjectRev bins mej = if Generated.eject_cond mej then dynEjectLoop bins mej else .ok (bins, true)
  source_budget : ∀ Mtot ret : ℝ, Generated.eject_initial Mtot ret = Mtot * (1 - ret)
  /-- whenever the routine returns, exactly `mej` has been removed (nothing when `mej ≤ 0`) -/
  mass : ∀ (l r : List (ℝ × ℝ)) (mej : ℝ) (d : Bool), dynEjectRev l mej = .ok (r, d) →
    sumFst r = sumFst l - max mej 0
  /-- heaviest first: bins above the cut emptied, bins below untouched, at most one bin partly depleted … -/
  shape : ∀ (l r : List (ℝ × ℝ)) (mej : ℝ) (d : Bool), 0 < mej → dynEjectRev l mej = .ok (r, d) →
    ∃ (pre : List (ℝ × ℝ)) (b : ℝ × ℝ) (post : List (ℝ × ℝ)) (x : ℝ),
      l = pre ++ b :: post ∧
      r = pre.map (fun _ => ((0:ℝ), (0:ℝ))) ++ (b.1 - x, b.2 - x / (b.1 / b.2)) :: post ∧
      0 ≤ x ∧ x ≤ b.1 ∧
      /- … with its mean mass preserved -/
      (b.1 ≠ 0 → b.2 ≠ 0 → x ≠ b.1 → (b.1 - x) / (b.2 - x / (b.1 / b.2)) = b.1 / b.2)
  /-- nothing to eject: arrays unchanged, no NaN, whatever the bins hold (empty bins anywhere) -/
  nothing : ∀ (l : List (ℝ × ℝ)) (mej : ℝ), mej ≤ 0 → dynEjectRev l mej = .ok (l, true)
  /-- no count or mass becomes negative, and the result is defined (no 0/0) -/
  nonneg_defined : ∀ (l r : List (ℝ × ℝ)) (mej : ℝ) (d : Bool), NonNeg l → dynEjectRev l mej = .ok (r, d) →
    NonNeg r ∧ d = true
  /-- asking to eject more than exists raises, anything up to the total succeeds -/
  over : ∀ (l : List (ℝ × ℝ)) (mej : ℝ), NonNeg l → sumFst l < mej → dynEjectRev l mej = .error .overEject
  feasible : ∀ (l : List (ℝ × ℝ)) (mej : ℝ), mej ≤ sumFst l → ∃ r d, dynEjectRev l mej = .ok (r, d)
  /-- row level: whenever a row is produced, either the "retain almost nothing" shortcut zeroed every bin, or the
      remaining BH mass = retention × formed (kicked mass counting toward the ejected share), nothing negative,
      nothing undefined -/
  row_ok : ∀ (kicks : Option (List (ℝ × ℝ) → List (ℝ × ℝ) × ℝ)) (ret nmin centre0 : ℝ) (bins r : List (ℝ × ℝ)) (d : Bool),
    0 ≤ ret → ret ≤ 1 → NonNeg bins → KicksLaw kicks bins →
    rowEject kicks ret nmin centre0 bins = .ok (r, d) →
      (Shortcut ret nmin centre0 bins ∧ r = bins.map (fun _ => (0, 0)) ∧ d = true) ∨
      (¬ Shortcut ret nmin centre0 bins ∧ kicked kicks bins ≤ sumFst bins * (1 - ret) ∧
        sumFst r = ret * sumFst bins ∧ NonNeg r ∧ d = true)
  /-- the only error a row can raise is "kicks exceed the ejection budget", and it is raised exactly then -/
  row_err : ∀ (kicks : Option (List (ℝ × ℝ) → List (ℝ × ℝ) × ℝ)) (ret nmin centre0 : ℝ) (bins : List (ℝ × ℝ)),
    0 ≤ ret → ret ≤ 1 → NonNeg bins → KicksLaw kicks bins → ¬ Shortcut ret nmin centre0 bins →
    ((∃ e, rowEject kicks ret nmin centre0 bins = .error e) ↔ sumFst bins * (1 - ret) < kicked kicks bins) ∧
    (∀ e, rowEject kicks ret nmin centre0 bins = .error e → e = .kicksOverBudget)

theorem mass (l r : List (ℝ × ℝ)) (mej : ℝ) (d : Bool) (h : dynEjectRev l mej = .ok (r, d)) :
    sumFst r = sumFst l - max mej 0 := by
  rw [dynEjectRev_real] at h
  split at h
  · rename_i hpos
    rw [dynEjectLoop_mass l mej r d h, max_eq_left hpos.le]
  · rename_i hle
    cases h
    rw [max_eq_right (le_of_not_gt hle)]; ring

theorem shape (l r : List (ℝ × ℝ)) (mej : ℝ) (d : Bool) (hpos : 0 < mej) (h : dynEjectRev l mej = .ok (r, d)) :
    ∃ (pre : List (ℝ × ℝ)) (b : ℝ × ℝ) (post : List (ℝ × ℝ)) (x : ℝ),
      l = pre ++ b :: post ∧
      r = pre.map (fun _ => ((0:ℝ), (0:ℝ))) ++ (b.1 - x, b.2 - x / (b.1 / b.2)) :: post ∧
      0 ≤ x ∧ x ≤ b.1 ∧
      (b.1 ≠ 0 → b.2 ≠ 0 → x ≠ b.1 → (b.1 - x) / (b.2 - x / (b.1 / b.2)) = b.1 / b.2) := by
  rw [dynEjectRev_real, if_pos hpos] at h
  obtain ⟨pre, b, post, x, hl, hr, _, hxb, hx0⟩ := dynEjectLoop_shape l mej hpos.le r d h
  exact ⟨pre, b, post, x, hl, hr, hx0, hxb, fun h1 h2 h3 => partial_mean b.1 b.2 x h1 h2 h3⟩

theorem nothing (l : List (ℝ × ℝ)) (mej : ℝ) (h : mej ≤ 0) : dynEjectRev l mej = .ok (l, true) := by
  rw [dynEjectRev_real, if_neg (not_lt.2 h)]

theorem nonneg_defined (l r : List (ℝ × ℝ)) (mej : ℝ) (d : Bool) (hl : NonNeg l)
    (h : dynEjectRev l mej = .ok (r, d)) : NonNeg r ∧ d = true := by
  rw [dynEjectRev_real] at h
  split at h
  · rename_i hpos
    exact ⟨dynEjectLoop_nonneg l mej hpos.le hl r d h, dynEjectLoop_defined l mej hpos r d h⟩
  · cases h; exact ⟨hl, rfl⟩

theorem over (l : List (ℝ × ℝ)) (mej : ℝ) (hl : NonNeg l) (h : sumFst l < mej) :
    dynEjectRev l mej = .error .overEject := by
  have hs := sumFst_nonneg l (fun b hb => (hl b hb).1)
  rw [dynEjectRev_real, if_pos (by linarith)]
  exact dynEjectLoop_over l mej (fun b hb => (hl b hb).1) h

theorem feasible (l : List (ℝ × ℝ)) (mej : ℝ) (h : mej ≤ sumFst l) : ∃ r d, dynEjectRev l mej = .ok (r, d) := by
  rw [dynEjectRev_real]
  by_cases hpos : 0 < mej
  · rw [if_pos hpos]; exact dynEjectLoop_ok l mej hpos h
  · rw [if_neg hpos]; exact ⟨_, _, rfl⟩

theorem nonNeg_reverse {l : List (ℝ × ℝ)} (h : NonNeg l) : NonNeg l.reverse :=
  fun b hb => h b (List.mem_reverse.1 hb)

theorem row_ok (kicks : Option (List (ℝ × ℝ) → List (ℝ × ℝ) × ℝ)) (ret nmin centre0 : ℝ) (bins r : List (ℝ × ℝ)) (d : Bool)
    (h0 : 0 ≤ ret) (h1 : ret ≤ 1) (hb : NonNeg bins) (hk : KicksLaw kicks bins)
    (h : rowEject kicks ret nmin centre0 bins = .ok (r, d)) :
      (Shortcut ret nmin centre0 bins ∧ r = bins.map (fun _ => (0, 0)) ∧ d = true) ∨
      (¬ Shortcut ret nmin centre0 bins ∧ kicked kicks bins ≤ sumFst bins * (1 - ret) ∧
        sumFst r = ret * sumFst bins ∧ NonNeg r ∧ d = true) := by
  unfold rowEject at h
  simp only [Scalar.le, Scalar.lt, real_zero, real_one, Bool.and_eq_true, decide_eq_true_eq] at h
  split at h
  · rename_i hs
    left
    cases h
    exact ⟨hs, rfl, rfl⟩
  · rename_i hs
    right
    have hform := sumFst_nonneg bins (fun b hb' => (hb b hb').1)
    cases kicks with
    | none =>
      simp only at h
      split at h
      · cases h
      · rename_i hlt
        split at h
        · rename_i r' d' hr
          cases h
          obtain ⟨hnn, hd⟩ := nonneg_defined _ _ _ _ (nonNeg_reverse hb) hr
          have hm := mass _ _ _ _ hr
          refine ⟨hs, by simp only [kicked]; nlinarith, ?_, nonNeg_reverse hnn, hd⟩
          rw [sumFst_reverse, hm, sumFst_reverse, max_eq_left (by linarith)]; ring
        · cases h
    | some k =>
      obtain ⟨hsum, hknn⟩ := hk k rfl
      simp only at h
      split at h
      · cases h
      · rename_i hlt
        split at h
        · rename_i r' d' hr
          cases h
          obtain ⟨hnn, hd⟩ := nonneg_defined _ _ _ _ (nonNeg_reverse hknn) hr
          have hm := mass _ _ _ _ hr
          refine ⟨hs, by simp only [kicked]; linarith, ?_, nonNeg_reverse hnn, hd⟩
          rw [sumFst_reverse, hm, sumFst_reverse, hsum, max_eq_left (by linarith)]; ring
        · cases h

theorem row_err (kicks : Option (List (ℝ × ℝ) → List (ℝ × ℝ) × ℝ)) (ret nmin centre0 : ℝ) (bins : List (ℝ × ℝ))
    (h0 : 0 ≤ ret) (h1 : ret ≤ 1) (hb : NonNeg bins) (hk : KicksLaw kicks bins) (hs : ¬ Shortcut ret nmin centre0 bins) :
    ((∃ e, rowEject kicks ret nmin centre0 bins = .error e) ↔ sumFst bins * (1 - ret) < kicked kicks bins) ∧
    (∀ e, rowEject kicks ret nmin centre0 bins = .error e → e = .kicksOverBudget) := by
  have hform := sumFst_nonneg bins (fun b hb' => (hb b hb').1)
  have key : ∀ e, rowEject kicks ret nmin centre0 bins = .error e →
      e = .kicksOverBudget ∧ sumFst bins * (1 - ret) < kicked kicks bins := by
    intro e h
    unfold rowEject at h
    simp only [Scalar.le, Scalar.lt, real_zero, real_one, Bool.and_eq_true, decide_eq_true_eq] at h
    split at h
    · cases h
    · cases kicks with
      | none =>
        simp only at h
        split at h
        · rename_i hlt; cases h; exact ⟨rfl, by simp only [kicked]; linarith⟩
        · rename_i hlt
          split at h
          · cases h
          · rename_i e' he
            exfalso
            obtain ⟨r, d, hr⟩ := feasible bins.reverse (sumFst bins * (1 - ret) - 0) (by rw [sumFst_reverse]; nlinarith)
            rw [hr] at he; cases he
      | some k =>
        obtain ⟨hsum, hknn⟩ := hk k rfl
        simp only at h
        split at h
        · rename_i hlt; cases h; exact ⟨rfl, by simp only [kicked]; linarith⟩
        · rename_i hlt
          split at h
          · cases h
          · rename_i e' he
            exfalso
            obtain ⟨r, d, hr⟩ := feasible (k bins).1.reverse (sumFst bins * (1 - ret) - (k bins).2)
              (by rw [sumFst_reverse, hsum]; nlinarith)
            rw [hr] at he; cases he
  refine ⟨⟨fun ⟨e, he⟩ => (key e he).2, fun hlt => ?_⟩, fun e he => (key e he).1⟩
  cases hres : rowEject kicks ret nmin centre0 bins with
  | error e => exact ⟨e, rfl⟩
  | ok v =>
    obtain ⟨r, d⟩ := v
    rcases row_ok kicks ret nmin centre0 bins r d h0 h1 hb hk hres with ⟨hsc, _⟩ | ⟨_, hle, _⟩
    · exact absurd hsc hs
    · linarith

/-- **C07** over exact reals (for the loop as repaired by the `fix:` commit: `while M_eject > 0`) -/
theorem C07_holds : Statement where
  source_row_copy := fun x => ⟨(Bridge.gen_sched_shape x).2.2.2.1, (Bridge.gen_sched_shape x).2.2.2.2.2.2.2.1⟩
  source_step := Bridge.gen_dynEjectLoop_cons
  source_entry := Bridge.gen_dynEjectRev
  source_budget := Bridge.gen_eject_initial
  mass := mass
  shape := shape
  nothing := nothing
  nonneg_defined := nonneg_defined
  over := over
  feasible := feasible
  row_ok := row_ok
  row_err := row_err

/-- non-vacuity: three bins, the heaviest one empty; ejecting 30 leaves 120 and a defined result -/
example : dynEjectRev [((0:ℝ), (0:ℝ)), (100, 5), (50, 5)] 30 = .ok ([(0, 0), (70, 5 - 30 / (100 / 5)), (50, 5)], true) := by
  rw [dynEjectRev_real, if_pos (by norm_num), dynEjectLoop_cons, if_pos (by norm_num), dynEjectLoop_cons,
    if_neg (by norm_num)]
  norm_num
example : NonNeg [((0:ℝ), (0:ℝ)), (100, 5), (50, 5)] := by
  intro b hb; simp at hb; rcases hb with rfl | rfl | rfl <;> norm_num

end Model.C07
