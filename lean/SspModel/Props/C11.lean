import SspModel.Lemmas.IMF
import SspModel.Lemmas.Bridge.IMF
import SspModel.Props.C12
/-!
# C11 — the IMF is continuous, normalised, and binned consistently

Segments are `(lo, hi, a)`; `Chain segs` says consecutive segments share their break mass.
-/
namespace Model.C11
open Model

/-- consecutive segments share the break: hi_i = lo_{i+1} -/
def Chain : List (Seg ℝ) → Prop
  | [] => True
  | [_] => True
  | s :: s' :: rest => s.2.1 = s'.1 ∧ Chain (s' :: rest)

/-- ∫ over all segments of N·A_i·m^{a_i} -/
noncomputable def totalIntegral : List (Seg ℝ) → List ℝ → ℝ → ℝ
  | (lo, hi, a) :: segs, A :: As, n => (∫ x in lo..hi, n * (A * x ^ a)) + totalIntegral segs As n
  | _, _, _ => 0

theorem totalIntegral_eq (segs : List (Seg ℝ)) (As : List ℝ) (n : ℝ) (hs : SegsPos segs) :
    totalIntegral segs As n = n * imfS segs As := by
  induction segs generalizing As with
  | nil => simp [totalIntegral, imfS]
  | cons s rest ih =>
    obtain ⟨lo, hi, a⟩ := s
    cases As with
    | nil => simp [totalIntegral, imfS]
    | cons A As =>
      have hseg := hs (lo, hi, a) List.mem_cons_self
      rw [totalIntegral, imfS_cons, ih As (fun s h => hs s (List.mem_cons_of_mem _ h))]
      rw [PkCore_eq_integral a 1 lo hi hseg.1 hseg.2.le]
      have e : a + 1 - 1 = a := by ring
      rw [e]
      simp only [intervalIntegral.integral_const_mul]
      ring

/-- first-match semantics of `np.select` -/
theorem firstTrue_spec (l : List Bool) (i : Nat) :
    firstTrue l = some i ↔ (l.getD i false = true ∧ ∀ j < i, l.getD j false = false) := by
  induction l generalizing i with
  | nil => simp [firstTrue]
  | cons b bs ih =>
    cases b with
    | true =>
      simp only [firstTrue, if_true]
      constructor
      · intro h; cases h; simp
      · rintro ⟨_, h2⟩
        cases i with
        | zero => rfl
        | succ i => have := h2 0 (Nat.succ_pos _); simp at this
    | false =>
      simp only [firstTrue, Bool.false_eq_true, if_false, Option.map_eq_some_iff]
      constructor
      · rintro ⟨k, hk, rfl⟩
        obtain ⟨h1, h2⟩ := (ih k).1 hk
        refine ⟨by simpa using h1, ?_⟩
        intro j hj
        cases j with
        | zero => simp
        | succ j => simpa using h2 j (by omega)
      · rintro ⟨h1, h2⟩
        cases i with
        | zero => simp at h1
        | succ i =>
          refine ⟨i, (ih i).2 ⟨by simpa using h1, fun j hj => ?_⟩, rfl⟩
          simpa using h2 (j + 1) (by omega)

theorem firstTrue_none (l : List Bool) : firstTrue l = none ↔ ∀ b ∈ l, b = false := by
  induction l with
  | nil => simp [firstTrue]
  | cons b bs ih => cases b <;> simp [firstTrue, ih]

theorem chain_le_getLast (e : ℝ) (es : List ℝ) (hc : (e :: es).IsChain (· ≤ ·)) :
    e ≤ (e :: es).getLast (by simp) := by
  induction es generalizing e with
  | nil => simp
  | cons e2 es ih =>
    simp only [List.isChain_cons_cons] at hc
    have := ih e2 hc.2
    rw [List.getLast_cons_cons]
    exact le_trans hc.1 this

/-- telescoping of the moment integral over a chain of edges (break-aligned bins) -/
theorem PkCore_telescope (a k : ℝ) (e0 : ℝ) (es : List ℝ) (h0 : 0 < e0)
    (hinc : (e0 :: es).IsChain (· ≤ ·)) :
    ((e0 :: es).zipWith (fun l u => PkCore a k l u) es).sum = PkCore a k e0 ((e0 :: es).getLast (by simp)) := by
  induction es generalizing e0 with
  | nil => simp [PkCore_self a k e0 h0]
  | cons e1 es ih =>
    simp only [List.isChain_cons_cons] at hinc
    have h1 : 0 < e1 := lt_of_lt_of_le h0 hinc.1
    have := ih e1 h1 hinc.2
    simp only [List.zipWith_cons_cons, List.sum_cons, this, List.getLast_cons_cons]
    exact PkCore_add a k e0 e1 _ h0 hinc.1 (chain_le_getLast e1 es hinc.2)

structure Statement : Prop where
  /-- the conditions handed to `np.select` by `__call__` and `binned_eval`, and the continuity recursion, are the source's own -/
  source_call : ∀ (ext : Nat) (segs : List (Seg ℝ)) (m : ℝ), evalBounds ext segs m =
      (let nc := segs.length
       if ext == 0 then
         if nc == 1 then [true]
         else (List.range nc).zipWith (fun i (s : Seg ℝ) =>
           if i == 0 then Generated.call_first m s.2.1
           else if i == nc - 1 then Generated.call_last m s.1
           else Generated.call_mid m s.1 s.2.1) segs
       else segs.map fun s => Generated.call_in m s.1 s.2.1)
  source_binned : ∀ (ext : Nat) (segs : List (Seg ℝ)) (lo hi : ℝ), binMasks ext segs lo hi =
      (let nc := segs.length
       if ext == 0 then
         if nc == 1 then [true]
         else (List.range nc).zipWith (fun i (s : Seg ℝ) =>
           if i == 0 then Generated.bin_first lo hi s.2.1
           else if i == nc - 1 then Generated.bin_last lo hi s.1
           else Generated.bin_mid lo hi s.1 s.2.1) segs
       else segs.map fun s => Generated.bin_in lo hi s.1 s.2.1)
  source_recursion : ∀ (lo hi a lo' hi' a' q : ℝ) (rest : List (Seg ℝ)),
    imfQs ((lo, hi, a) :: (lo', hi', a') :: rest) q = q :: imfQs ((lo', hi', a') :: rest) (Generated.imf_A_step q lo a a')
  /-- integrates to N0 over its mass range, any number of segments, slopes incl. −1 -/
  normalised : ∀ (segs : List (Seg ℝ)) (n : ℝ), SegsPos segs → segs ≠ [] →
    totalIntegral segs (imfA segs) n = n
  /-- continuous at every break (stated along the reversed lists the constants are built on) -/
  continuous : ∀ (segs : List (Seg ℝ)) (i : Nat), SegsPos segs → i + 1 < segs.length →
    let rev := segs.reverse
    let Ar := (imfA segs).reverse
    let up := rev.getD i (0, 0, 0)        -- upper segment
    let dn := rev.getD (i + 1) (0, 0, 0)  -- the segment just below it
    Ar.getD (i + 1) 0 * up.1 ^ dn.2.2 = Ar.getD i 0 * up.1 ^ up.2.2
  /-- outside-range modes -/
  ext_zeros : ∀ (segs : List (Seg ℝ)) (n m : ℝ), (∀ s ∈ segs, ¬ (s.1 ≤ m ∧ m ≤ s.2.1)) →
    imfEval 1 segs n m = .ok (n * 0)
  ext_raise : ∀ (segs : List (Seg ℝ)) (n m : ℝ), (∀ s ∈ segs, ¬ (s.1 ≤ m ∧ m ≤ s.2.1)) →
    imfEval 2 segs n m = .error .outside
  /-- inside the range the first segment containing m is used (so a break takes the lower segment) -/
  inside : ∀ (ext : Nat) (segs : List (Seg ℝ)) (n m : ℝ) (i : Nat), ext ≠ 0 →
    firstTrue (evalBounds ext segs m) = some i →
    imfEval ext segs n m = .ok (n * ((imfA segs).getD i 0 * m ^ (segs.getD i (0, 0, 0)).2.2))
  /-- from_M0 yields exactly that total mass (for the exact first moment) -/
  from_M0 : ∀ (segs : List (Seg ℝ)) (M0 : ℝ), imfMtot segs 1 ≠ 0 → imfMtot segs (imfN0ofM0 segs M0) = M0
  /-- a bin inside one segment gets (∫N(m), ∫m N(m), the segment's slope) -/
  binned_exact : ∀ (ext : Nat) (segs : List (Seg ℝ)) (n lo hi : ℝ) (i : Nat), 0 < lo → lo < hi →
    firstTrue (binMasks ext segs lo hi) = some i →
    let a := (segs.getD i (0, 0, 0)).2.2
    let A := n * (imfA segs).getD i 0
    binnedEval1 ext segs n lo hi = .ok ((Pk a 1 lo hi).map (A * ·), (Pk a 2 lo hi).map (A * ·), a) ∧
    A * PkCore a 1 lo hi = ∫ x in lo..hi, A * x ^ a ∧
    A * PkCore a 2 lo hi = ∫ x in lo..hi, A * (x * x ^ a)
  /-- break-aligned bins tile a segment: their moments add up to the segment's -/
  aligned_sum : ∀ (a k e0 : ℝ) (es : List ℝ), 0 < e0 → (e0 :: es).IsChain (· ≤ ·) →
    ((e0 :: es).zipWith (fun l u => PkCore a k l u) es).sum = PkCore a k e0 ((e0 :: es).getLast (by simp))

theorem imfMtot_linear (segs : List (Seg ℝ)) (n : ℝ) : imfMtot segs n = n * imfMtot segs 1 := by
  unfold imfMtot
  generalize imfA segs = As
  induction segs generalizing As with
  | nil => simp [imfMtot.go]
  | cons s rest ih =>
    obtain ⟨lo, hi, a⟩ := s
    cases As with
    | nil => simp [imfMtot.go]
    | cons A As =>
      simp only [imfMtot.go, real_one, real_two]
      rw [ih As]
      ring

theorem C11_partial : Statement where
  source_call := Bridge.gen_evalBounds
  source_binned := Bridge.gen_binMasks
  source_recursion := Bridge.gen_imfQs_step
  normalised := fun segs n hs hne => by
    rw [totalIntegral_eq segs _ n hs, imfA_normalised segs hs hne, mul_one]
  continuous := fun segs i hs hi => by
    intro rev Ar up dn
    have hrevpos : SegsPos rev := fun s h => hs s (List.mem_reverse.1 h)
    have hAr : Ar = (imfQs rev (1:ℝ)).map (fun q => (imfS rev (imfQs rev (1:ℝ))) ^ (-1:ℝ) * q) := by
      simp only [Ar, rev, imfA, List.reverse_reverse, real_one, real_rpow]
    have hlen : i + 1 < rev.length := by simpa [rev] using hi
    have hstep := imfQs_step rev (1:ℝ) i hlen
    have hlq : (imfQs rev (1:ℝ)).length = rev.length := imfQs_length rev _
    have hup : 0 < up.1 := by
      have : up ∈ rev := by
        simp only [up, List.getD_eq_getElem?_getD]
        rw [List.getElem?_eq_getElem (by omega)]; simp
      exact (hrevpos up this).1
    have g1 : Ar.getD (i + 1) 0 = (imfS rev (imfQs rev (1:ℝ))) ^ (-1:ℝ) * (imfQs rev (1:ℝ)).getD (i + 1) 0 := by
      rw [hAr]; simp only [List.getD_eq_getElem?_getD, List.getElem?_map]
      rw [List.getElem?_eq_getElem (by omega)]; simp
    have g0 : Ar.getD i 0 = (imfS rev (imfQs rev (1:ℝ))) ^ (-1:ℝ) * (imfQs rev (1:ℝ)).getD i 0 := by
      rw [hAr]; simp only [List.getD_eq_getElem?_getD, List.getElem?_map]
      rw [List.getElem?_eq_getElem (by omega)]; simp
    rw [g1, g0, hstep]
    have : up.1 ^ (up.2.2 - dn.2.2) * up.1 ^ dn.2.2 = up.1 ^ up.2.2 := by
      rw [← Real.rpow_add hup]; congr 1; ring
    calc _ = (imfS rev (imfQs rev (1:ℝ))) ^ (-1:ℝ) * (imfQs rev (1:ℝ)).getD i 0 * (up.1 ^ (up.2.2 - dn.2.2) * up.1 ^ dn.2.2) := by
            simp only [up, dn]; ring
      _ = _ := by rw [this]
  ext_zeros := fun segs n m h => by
    unfold imfEval
    have : firstTrue (evalBounds 1 segs m) = none := by
      rw [firstTrue_none]
      intro b hb
      have hb' : b ∈ segs.map (fun s => Scalar.le s.1 m && Scalar.le m s.2.1) := by simpa [evalBounds] using hb
      rw [List.mem_map] at hb'
      obtain ⟨s, hs, rfl⟩ := hb'
      have := h s hs
      simp only [Scalar.le, Bool.and_eq_false_iff, decide_eq_false_iff_not]
      by_cases h1 : s.1 ≤ m
      · right; intro h2; exact this ⟨h1, h2⟩
      · left; exact h1
    rw [this]; simp
  ext_raise := fun segs n m h => by
    unfold imfEval
    have : firstTrue (evalBounds 2 segs m) = none := by
      rw [firstTrue_none]
      intro b hb
      have hb' : b ∈ segs.map (fun s => Scalar.le s.1 m && Scalar.le m s.2.1) := by simpa [evalBounds] using hb
      rw [List.mem_map] at hb'
      obtain ⟨s, hs, rfl⟩ := hb'
      have := h s hs
      simp only [Scalar.le, Bool.and_eq_false_iff, decide_eq_false_iff_not]
      by_cases h1 : s.1 ≤ m
      · right; intro h2; exact this ⟨h1, h2⟩
      · left; exact h1
    rw [this]; simp
  inside := fun ext segs n m i _ h => by
    unfold imfEval
    rw [h]
    simp only [real_zero, real_rpow]
  from_M0 := fun segs M0 h => by
    rw [imfMtot_linear, imfN0ofM0]
    simp only [real_one, div_one]
    field_simp
  binned_exact := fun ext segs n lo hi i hlo hlt h => by
    intro a A
    refine ⟨?_, ?_, ?_⟩
    · unfold binnedEval1
      rw [h]
      simp only [real_zero, a, A, real_one, real_two]
    · rw [PkCore_eq_integral a 1 lo hi hlo hlt.le, ← intervalIntegral.integral_const_mul]
      congr 1; funext x; congr 2; ring
    · rw [PkCore_eq_integral a 2 lo hi hlo hlt.le, ← intervalIntegral.integral_const_mul]
      apply intervalIntegral.integral_congr
      intro x hx
      have hx0 : 0 < x := by
        rw [Set.uIcc_of_le hlt.le] at hx; exact lt_of_lt_of_le hlo hx.1
      simp only
      have : a + 2 - 1 = 1 + a := by ring
      rw [this, Real.rpow_add hx0, Real.rpow_one]
  aligned_sum := fun a k e0 es h0 hc => PkCore_telescope a k e0 es h0 hc

/-- the documented promise "bins need not align with breaks and still sum to N" is false:
    a bin across a break gets no stars under the default `zeros` mode (known finding C11-straddle) -/
theorem binned_straddle_witness (n : ℝ) :
    ∃ M, binnedEval1 1 [((0.1:ℝ), (0.5:ℝ), (-1.3:ℝ)), (0.5, 1, -2.3)] n 0.4 0.6 = .ok (some 0, M, 0) := by
  have hmask : firstTrue (binMasks 1 [((0.1:ℝ), (0.5:ℝ), (-1.3:ℝ)), (0.5, 1, -2.3)] 0.4 0.6) = none := by
    rw [firstTrue_none]
    intro b hb
    have hb' : b = (Scalar.le (0.1:ℝ) 0.4 && Scalar.le (0.6:ℝ) 0.5) ∨ b = (Scalar.le (0.5:ℝ) 0.4 && Scalar.le (0.6:ℝ) 1) := by
      simpa [binMasks] using hb
    rcases hb' with rfl | rfl
    · have : ¬ ((0.6:ℝ) ≤ 0.5) := by norm_num
      simp [Scalar.le, this]
    · have : ¬ ((0.5:ℝ) ≤ 0.4) := by norm_num
      simp [Scalar.le, this]
  have hP : Pk (0:ℝ) 1 0.4 0.6 = some (PkCore 0 1 0.4 0.6) := by
    apply C12.Pk_some_of_ge
    rw [resolution_real, PkCore_real]
    norm_num
  unfold binnedEval1
  rw [hmask]
  simp only [real_zero, real_one, mul_zero, zero_mul, hP, Option.map_some]
  refine ⟨Option.map (fun _ => (0:ℝ)) (Pk (0:ℝ) 2 0.4 0.6), ?_⟩
  have h12 : ((1:Nat) == 2) = false := by decide
  simp [h12]

/-- non-vacuity: a three-segment Kroupa-like IMF satisfies the hypotheses -/
example : SegsPos [((0.1:ℝ), (0.5:ℝ), (-0.5:ℝ)), (0.5, 1, -1.3), (1, 100, -2.5)] := by
  intro s hs; simp at hs; rcases hs with rfl | rfl | rfl <;> norm_num

end Model.C11
