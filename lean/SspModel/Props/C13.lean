import SspModel.Real
import SspModel.Lemmas.Bridge.Bins
import SspModel.Model.Bins
import Mathlib.Analysis.SpecialFunctions.Pow.Real
import Mathlib.Analysis.SpecialFunctions.Log.Basic
import Mathlib.Algebra.BigOperators.Group.List.Basic
import Mathlib.Tactic.Linarith
import Mathlib.Tactic.FieldSimp
import Mathlib.Tactic.Ring
/-!
# C13 — mass bins tile the mass range; lookup and packing are exact inverses
-/
namespace Model.C13
open Model

/-! ## bin counts -/
theorem divide_length (N k : Nat) (hk : 0 < k) : (divideBinSizes N k).length = k := by
  have : N % k < k := Nat.mod_lt _ hk
  simp [divideBinSizes]; omega

theorem divide_sum (N k : Nat) (hk : 0 < k) : (divideBinSizes N k).sum = N := by
  have hr : N % k < k := Nat.mod_lt _ hk
  simp only [divideBinSizes, List.sum_append, List.sum_replicate, smul_eq_mul]
  have h1 : (k - N % k) * (N / k) + N % k * (N / k) = k * (N / k) := by
    rw [← Nat.add_mul, Nat.sub_add_cancel hr.le]
  have h2 := Nat.div_add_mod N k
  calc N % k * (N / k + 1) + (k - N % k) * (N / k)
      = ((k - N % k) * (N / k) + N % k * (N / k)) + N % k := by ring
    _ = N := by rw [h1]; omega

/-- every count is ⌊N/k⌋ or ⌈N/k⌉ ("as equally as possible") -/
theorem divide_balanced (N k : Nat) : ∀ x ∈ divideBinSizes N k, x = N / k ∨ x = N / k + 1 := by
  intro x hx
  simp only [divideBinSizes, List.mem_append, List.mem_replicate] at hx
  rcases hx with ⟨_, rfl⟩ | ⟨_, rfl⟩ <;> simp

/-! ## spacing -/
theorem linspace_real (lo hi : ℝ) (n : Nat) :
    linspace lo hi n = (List.range n).map (fun (i : Nat) => (i:ℝ) * ((hi - lo) / n) + lo) ++ [hi] := by
  simp only [linspace, Scalar.ofNat]

theorem linspace_length (lo hi : ℝ) (n : Nat) : (linspace lo hi n).length = n + 1 := by
  simp [linspace_real]

theorem linspace_head (lo hi : ℝ) (n : Nat) : (linspace lo hi n).head? = some (if n = 0 then hi else lo) := by
  rw [linspace_real]
  cases n with
  | zero => simp
  | succ n => simp [List.range_succ_eq_map]

theorem linspace_getLast (lo hi : ℝ) (n : Nat) : (linspace lo hi n).getLast? = some hi := by
  rw [linspace_real]; simp

theorem linspace_strict (lo hi : ℝ) (n : Nat) (h : lo < hi) : (linspace lo hi n).Pairwise (· < ·) := by
  rw [linspace_real]
  cases n with
  | zero => simp
  | succ n =>
    have hn : (0:ℝ) < ((n + 1 : Nat) : ℝ) := by positivity
    have hs : 0 < (hi - lo) / ((n + 1 : Nat) : ℝ) := div_pos (by linarith) hn
    rw [List.pairwise_append]
    refine ⟨?_, by simp, ?_⟩
    · rw [List.pairwise_map]
      refine (List.pairwise_lt_range (n := n + 1)).imp ?_
      intro a b hab
      have : (a:ℝ) < b := by exact_mod_cast hab
      nlinarith
    · intro x hx y hy
      rw [List.mem_singleton] at hy
      rw [hy]
      simp only [List.mem_map, List.mem_range] at hx
      obtain ⟨i, hilt, rfl⟩ := hx
      have hi2 : (i:ℝ) < ((n + 1 : Nat) : ℝ) := by exact_mod_cast hilt
      have : (i:ℝ) * ((hi - lo) / ((n + 1 : Nat) : ℝ)) < ((n + 1 : Nat) : ℝ) * ((hi - lo) / ((n + 1 : Nat) : ℝ)) :=
        mul_lt_mul_of_pos_right hi2 hs
      have e : ((n + 1 : Nat) : ℝ) * ((hi - lo) / ((n + 1 : Nat) : ℝ)) = hi - lo := by field_simp
      linarith

theorem ten_pow_log10 (x : ℝ) (hx : 0 < x) : (10:ℝ) ^ (Real.log x / Real.log 10) = x := by
  have h10 : (0:ℝ) < 10 := by norm_num
  have hl : Real.log 10 ≠ 0 := by
    have : (0:ℝ) < Real.log 10 := Real.log_pos (by norm_num)
    exact this.ne'
  rw [Real.rpow_def_of_pos h10]
  have : Real.log 10 * (Real.log x / Real.log 10) = Real.log x := by field_simp
  rw [this, Real.exp_log hx]

/-- the geometric points as a clean function of the index -/
noncomputable def gpt (lo hi : ℝ) (n : Nat) (i : Nat) : ℝ :=
  (10:ℝ) ^ ((i:ℝ) * ((Real.log hi / Real.log 10 - Real.log lo / Real.log 10) / n) + Real.log lo / Real.log 10)

theorem geomspace_real (lo hi : ℝ) (n : Nat) (hlo : 0 < lo) :
    geomspace lo hi n = (List.range n).map (gpt lo hi n) ++ [hi] := by
  simp only [geomspace, log10, Scalar.ofNat, real_log, real_rpow]
  congr 1
  apply List.map_congr_left
  intro i _
  by_cases h0 : i = 0
  · subst h0
    simp only [gpt, Nat.cast_zero, zero_mul, zero_add, beq_self_eq_true, if_true]
    have : (@OfNat.ofNat ℝ 10 ScalarLit.instOfNat) = (10:ℝ) := by simp only [real_ofNat]; try norm_num
    rw [this, ten_pow_log10 lo hlo]
  · have : (i == 0) = false := by simpa using h0
    simp only [this, Bool.false_eq_true, if_false, gpt]

theorem geomspace_length (lo hi : ℝ) (n : Nat) : (geomspace lo hi n).length = n + 1 := by
  simp [geomspace]

theorem geomspace_getLast (lo hi : ℝ) (n : Nat) : (geomspace lo hi n).getLast? = some hi := by
  simp [geomspace]

theorem geomspace_head (lo hi : ℝ) (n : Nat) : (geomspace lo hi n).head? = some (if n = 0 then hi else lo) := by
  cases n with
  | zero => simp [geomspace]
  | succ n => simp [geomspace, List.range_succ_eq_map]

theorem geomspace_strict (lo hi : ℝ) (n : Nat) (hlo : 0 < lo) (h : lo < hi) :
    (geomspace lo hi n).Pairwise (· < ·) := by
  rw [geomspace_real lo hi n hlo]
  cases n with
  | zero => simp
  | succ n =>
    have hhi : 0 < hi := lt_trans hlo h
    have hl10 : (0:ℝ) < Real.log 10 := Real.log_pos (by norm_num)
    have hn : (0:ℝ) < ((n + 1 : Nat) : ℝ) := by positivity
    have hdl : 0 < Real.log hi / Real.log 10 - Real.log lo / Real.log 10 := by
      have := Real.log_lt_log hlo h
      have := div_lt_div_of_pos_right this hl10
      linarith
    have hs : 0 < (Real.log hi / Real.log 10 - Real.log lo / Real.log 10) / ((n + 1 : Nat) : ℝ) := div_pos hdl hn
    have hmono : ∀ a b : ℝ, a < b → (10:ℝ) ^ a < (10:ℝ) ^ b :=
      fun a b hab => Real.rpow_lt_rpow_of_exponent_lt (by norm_num) hab
    rw [List.pairwise_append]
    refine ⟨?_, by simp, ?_⟩
    · rw [List.pairwise_map]
      refine (List.pairwise_lt_range (n := n + 1)).imp ?_
      intro a b hab
      have : (a:ℝ) < b := by exact_mod_cast hab
      apply hmono
      nlinarith
    · intro x hx y hy
      rw [List.mem_singleton] at hy
      rw [hy]
      simp only [List.mem_map, List.mem_range] at hx
      obtain ⟨i, hilt, rfl⟩ := hx
      have hi2 : (i:ℝ) < ((n + 1 : Nat) : ℝ) := by exact_mod_cast hilt
      have h1 : (i:ℝ) * ((Real.log hi / Real.log 10 - Real.log lo / Real.log 10) / ((n + 1 : Nat) : ℝ))
          < ((n + 1 : Nat) : ℝ) * ((Real.log hi / Real.log 10 - Real.log lo / Real.log 10) / ((n + 1 : Nat) : ℝ)) :=
        mul_lt_mul_of_pos_right hi2 hs
      have e : ((n + 1 : Nat) : ℝ) * ((Real.log hi / Real.log 10 - Real.log lo / Real.log 10) / ((n + 1 : Nat) : ℝ))
          = Real.log hi / Real.log 10 - Real.log lo / Real.log 10 := by field_simp
      have h2 : gpt lo hi (n + 1) i < (10:ℝ) ^ (Real.log hi / Real.log 10) := by
        unfold gpt; apply hmono; linarith
      rwa [ten_pow_log10 hi hhi] at h2

/-! ## lookup -/
theorem lastLowerLe_spec (bins : List (Bin ℝ)) (m : ℝ) (i : Nat) (acc : Option Nat) :
    (∀ b ∈ bins, ¬ b.1 ≤ m) ∧ lastLowerLe bins m i acc = acc ∨
    ∃ j, j < bins.length ∧ lastLowerLe bins m i acc = some (i + j) ∧ (bins.getD j (0, 0)).1 ≤ m ∧
      ∀ k, j < k → k < bins.length → ¬ (bins.getD k (0, 0)).1 ≤ m := by
  induction bins generalizing i acc with
  | nil => left; simp [lastLowerLe]
  | cons b t ih =>
    obtain ⟨l, u⟩ := b
    simp only [lastLowerLe, Scalar.le]
    rcases ih (i + 1) (if decide (l ≤ m) = true then some i else acc) with ⟨hno, heq⟩ | ⟨j, hj, heq, hle, hlast⟩
    · by_cases hl : l ≤ m
      · right
        refine ⟨0, by simp, ?_, by simpa using hl, ?_⟩
        · rw [heq]; simp [hl]
        · intro k hk hk2
          cases k with
          | zero => omega
          | succ k =>
            have : (t.getD k (0, 0)) ∈ t := by
              simp only [List.length_cons] at hk2
              rw [List.getD_eq_getElem?_getD, List.getElem?_eq_getElem (by omega)]; simp
            simpa using hno _ this
      · left
        refine ⟨?_, ?_⟩
        · intro b hb
          rcases List.mem_cons.1 hb with rfl | hb
          · exact hl
          · exact hno b hb
        · rw [heq]; simp [hl]
    · right
      refine ⟨j + 1, by simpa using hj, ?_, by simpa using hle, ?_⟩
      · rw [heq]; congr 1; omega
      · intro k hk hk2
        cases k with
        | zero => omega
        | succ k => simpa using hlast k (by omega) (by simpa using hk2)

/-- whatever `determine_index` returns is the last bin whose lower edge is ≤ m, and m is below the last upper edge -/
theorem determineIndex_sound (bins : List (Bin ℝ)) (m : ℝ) (i : Nat) (h : determineIndex bins m = .ok i) :
    i < bins.length ∧ (bins.getD i (0, 0)).1 ≤ m ∧
    (∀ k, i < k → k < bins.length → m < (bins.getD k (0, 0)).1) ∧
    (i + 1 = bins.length → m < (bins.getD i (0, 0)).2) := by
  unfold determineIndex at h
  rcases lastLowerLe_spec bins m 0 none with ⟨_, heq⟩ | ⟨j, hj, heq, hle, hlast⟩
  · rw [heq] at h; cases h
  · rw [heq] at h
    simp only [Nat.zero_add] at h
    have hres : i = j := by
      split at h
      · split at h
        · split at h
          · cases h
          · cases h; rfl
        · cases h; rfl
      · cases h; rfl
    subst hres
    refine ⟨hj, hle, fun k hk hk2 => lt_of_not_ge (hlast k hk hk2), ?_⟩
    intro hlastbin
    rw [if_pos (by omega)] at h
    have hgl : bins.getLast? = some (bins.getD i (0, 0)) := by
      rw [List.getLast?_eq_getElem?, List.getD_eq_getElem?_getD]
      have : bins.length - 1 = i := by omega
      rw [this, List.getElem?_eq_getElem hj]; simp
    rw [hgl] at h
    simp only [Scalar.le] at h
    split at h
    · cases h
    · rename_i hnot; simpa using hnot

/-- errors: below the first lower edge / at or above the last upper edge -/
theorem determineIndex_below (bins : List (Bin ℝ)) (m : ℝ) (h : ∀ b ∈ bins, m < b.1) :
    determineIndex bins m = .error .below := by
  unfold determineIndex
  rcases lastLowerLe_spec bins m 0 none with ⟨_, heq⟩ | ⟨j, hj, _, hle, _⟩
  · rw [heq]
  · exfalso
    have : (bins.getD j (0, 0)) ∈ bins := by
      rw [List.getD_eq_getElem?_getD, List.getElem?_eq_getElem hj]; simp
    have := h _ this
    linarith

/-! ## turn-off truncation -/
theorem setUpperAt_getD (ms : List (Bin ℝ)) (i : Nat) (u : ℝ) (k : Nat) :
    (setUpperAt ms i u).getD k (0, 0) =
      if k = i ∧ i < ms.length then ((ms.getD k (0, 0)).1, u) else ms.getD k (0, 0) := by
  induction ms generalizing i k with
  | nil => simp [setUpperAt]
  | cons b t ih =>
    obtain ⟨l, u'⟩ := b
    cases i with
    | zero =>
      cases k with
      | zero => simp [setUpperAt]
      | succ k => simp [setUpperAt]
    | succ i =>
      cases k with
      | zero => simp [setUpperAt]
      | succ k =>
        simp only [setUpperAt, List.getD_cons_succ, List.length_cons]
        rw [ih i k]
        simp

theorem setUpperAt_length (ms : List (Bin ℝ)) (i : Nat) (u : ℝ) : (setUpperAt ms i u).length = ms.length := by
  induction ms generalizing i with
  | nil => simp [setUpperAt]
  | cons b t ih => obtain ⟨l, u'⟩ := b; cases i <;> simp [setUpperAt, ih]

/-- truncating at a turn-off mass changes only the upper edge of the bin containing it -/
theorem turnedOff_only_one_edge (ms : List (Bin ℝ)) (mto : ℝ) :
    (turnedOffBins ms (some mto)).length = ms.length ∧
    ((turnedOffBins ms (some mto)) = ms ∨
     ∃ i, determineIndex ms mto = .ok i ∧ ∀ k, (turnedOffBins ms (some mto)).getD k (0, 0) =
        if k = i then ((ms.getD k (0, 0)).1, mto) else ms.getD k (0, 0)) := by
  have key : turnedOffBins ms (some mto) = match determineIndex ms mto with
      | .ok i => setUpperAt ms i mto
      | .error _ => ms := rfl
  cases h : determineIndex ms mto with
  | error e =>
    have : turnedOffBins ms (some mto) = ms := by rw [key, h]
    rw [this]; exact ⟨rfl, Or.inl rfl⟩
  | ok i =>
    have hto : turnedOffBins ms (some mto) = setUpperAt ms i mto := by rw [key, h]
    rw [hto]
    refine ⟨setUpperAt_length ms i mto, Or.inr ⟨i, rfl, fun k => ?_⟩⟩
    rw [setUpperAt_getD]
    have hi := (determineIndex_sound ms mto i h).1
    by_cases hk : k = i <;> simp [hk, hi]

theorem turnedOff_infinite (ms : List (Bin ℝ)) : turnedOffBins ms none = ms := rfl

/-! ## packing -/
theorem unpack_pack (parts : List (List ℝ)) : unpack (parts.map List.length) (pack parts) = parts := by
  induction parts with
  | nil => simp [unpack, pack]
  | cons p t ih =>
    simp only [List.map_cons, unpack, pack, List.flatten_cons, List.take_left', List.drop_left']
    simp only [pack] at ih
    rw [ih]

theorem pack_unpack (sizes : List Nat) (y : List ℝ) (h : sizes.sum = y.length) : pack (unpack sizes y) = y := by
  induction sizes generalizing y with
  | nil => simp at h; simp [unpack, pack, List.length_eq_zero_iff.1 h.symm]
  | cons n t ih =>
    simp only [unpack, pack, List.flatten_cons]
    simp only [List.sum_cons] at h
    have : t.sum = (y.drop n).length := by simp; omega
    have := ih (y.drop n) this
    simp only [pack] at this
    rw [this, List.take_append_drop]

theorem unpack_lengths (sizes : List Nat) (y : List ℝ) (h : sizes.sum = y.length) :
    (unpack sizes y).map List.length = sizes := by
  induction sizes generalizing y with
  | nil => simp [unpack]
  | cons n t ih =>
    simp only [List.sum_cons] at h
    simp only [unpack, List.map_cons, List.length_take]
    rw [ih (y.drop n) (by simp; omega)]
    congr 1; omega

/-! ## tiling and the carving of remnant bins -/

/-- consecutive bins share their edge and every bin is proper -/
def Tiles : List (Bin ℝ) → Prop
  | [] => True
  | [b] => b.1 < b.2
  | b :: b' :: t => b.1 < b.2 ∧ b.2 = b'.1 ∧ Tiles (b' :: t)

theorem Tiles.head_lt {b : Bin ℝ} {t : List (Bin ℝ)} (h : Tiles (b :: t)) : b.1 < b.2 := by
  cases t with
  | nil => exact h
  | cons b' t => exact h.1

theorem Tiles.tail {b : Bin ℝ} {t : List (Bin ℝ)} (h : Tiles (b :: t)) : Tiles t := by
  cases t with
  | nil => trivial
  | cons b' t => exact h.2.2

/-- strictly increasing edges give a tiling -/
theorem binsOfEdges_tiles (es : List ℝ) (h : es.Pairwise (· < ·)) : Tiles (binsOfEdges es) := by
  induction es with
  | nil => trivial
  | cons a t ih =>
    cases t with
    | nil => trivial
    | cons b t' =>
      have hab : a < b := (List.pairwise_cons.1 h).1 b List.mem_cons_self
      have ht := ih (List.pairwise_cons.1 h).2
      cases t' with
      | nil => simpa [binsOfEdges, Tiles] using hab
      | cons c t'' =>
        simp only [binsOfEdges] at ht ⊢
        exact ⟨hab, rfl, ht⟩

/-- in a tiling every later lower edge is at least the first upper edge -/
theorem Tiles.lower_ge {b : Bin ℝ} {t : List (Bin ℝ)} (h : Tiles (b :: t)) : ∀ c ∈ t, b.2 ≤ c.1 := by
  induction t generalizing b with
  | nil => intro c hc; cases hc
  | cons b' t ih =>
    intro c hc
    rcases List.mem_cons.1 hc with rfl | hc
    · exact h.2.1.le
    · have := ih h.2.2 c hc
      have hb' := (Tiles.head_lt h.2.2)
      rw [h.2.1]; linarith

/-- **exactly one NS bin**: a mass inside the range of a tiling lies in exactly one half-open bin -/
theorem carveNS_one (bins : List (Bin ℝ)) (m : ℝ) (ht : Tiles bins) (hne : bins ≠ [])
    (hlo : (bins.head hne).1 ≤ m) (hhi : m < (bins.getLast hne).2) : (carveNS bins m).length = 1 := by
  induction bins with
  | nil => exact absurd rfl hne
  | cons b t ih =>
    unfold carveNS
    simp only [List.head_cons] at hlo
    by_cases hin : m < b.2
    · -- this bin holds it, no later one does
      have hlater : t.filter (fun c => Scalar.le c.1 m && Scalar.lt m c.2) = [] := by
        rw [List.filter_eq_nil_iff]
        intro c hc
        have := Tiles.lower_ge ht c hc
        simp only [Scalar.le, Scalar.lt, Bool.and_eq_true, decide_eq_true_eq, not_and, not_lt]
        intro h1; linarith
      simp only [List.filter_cons, Scalar.le, Scalar.lt, hlo, hin, decide_true, Bool.and_self, if_true]
      have := hlater
      simp only [Scalar.le, Scalar.lt] at this
      rw [this]; rfl
    · push Not at hin
      cases t with
      | nil => simp only [List.getLast_singleton] at hhi; linarith
      | cons b' t' =>
        have hne' : (b' :: t') ≠ [] := by simp
        have hrec := ih (Tiles.tail ht) hne' (by simp only [List.head_cons]; rw [← ht.2.1]; exact hin)
          (by simpa [List.getLast_cons hne'] using hhi)
        unfold carveNS at hrec
        have hneg : ¬ ((fun c : Bin ℝ => Scalar.le c.1 m && Scalar.lt m c.2) b = true) := by
          simp only [Scalar.le, Scalar.lt, Bool.and_eq_true, decide_eq_true_eq, not_and, not_lt]
          intro _; exact hin
        rw [List.filter_cons_of_neg (p := fun c : Bin ℝ => Scalar.le c.1 m && Scalar.lt m c.2) hneg]
        exact hrec

/-- bins entirely above `x` are all dropped by the WD filter -/
theorem filter_le_nil (t : List (Bin ℝ)) (x : ℝ) (h : ∀ c ∈ t, x < c.1) :
    t.filter (fun b => Scalar.le b.1 x) = [] := by
  rw [List.filter_eq_nil_iff]
  intro c hc
  simp only [Scalar.le, decide_eq_true_eq, not_le]
  exact h c hc

theorem setLastUpper_cons2 (b f : Bin ℝ) (ft : List (Bin ℝ)) (u : ℝ) :
    setLastUpper (b :: f :: ft) u = b :: setLastUpper (f :: ft) u := by simp [setLastUpper]

theorem setLastUpper_head (l : List (Bin ℝ)) (u : ℝ) : (setLastUpper l u).head?.map (·.1) = l.head?.map (·.1) := by
  cases l with
  | nil => rfl
  | cons b t => cases t with
    | nil => rfl
    | cons f ft => rw [setLastUpper_cons2]; rfl

theorem setLastUpper_getLast (l : List (Bin ℝ)) (u : ℝ) (h : l ≠ []) : (setLastUpper l u).getLast?.map (·.2) = some u := by
  induction l with
  | nil => exact absurd rfl h
  | cons b t ih => cases t with
    | nil => rfl
    | cons f ft =>
      rw [setLastUpper_cons2]
      have := ih (by simp)
      cases hs : setLastUpper (f :: ft) u with
      | nil => rw [hs] at this; simp at this
      | cons g gt => rw [hs] at this; rw [List.getLast?_cons_cons]; exact this

/-- cutting the last upper edge keeps a tiling as long as the cut is above every kept lower edge -/
theorem tiles_setLastUpper (l : List (Bin ℝ)) (u : ℝ) (ht : Tiles l) (hlow : ∀ b ∈ l, b.1 < u) : Tiles (setLastUpper l u) := by
  induction l with
  | nil => trivial
  | cons b t ih => cases t with
    | nil => exact hlow b (by simp)
    | cons f ft =>
      rw [setLastUpper_cons2]
      have hrec := ih (Tiles.tail ht) (fun c hc => hlow c (List.mem_cons_of_mem _ hc))
      have hh := setLastUpper_head (f :: ft) u
      cases hs : setLastUpper (f :: ft) u with
      | nil => rw [hs] at hh; simp at hh
      | cons g gt =>
        rw [hs] at hrec hh
        simp only [List.head?_cons, Option.map_some, Option.some.injEq] at hh
        exact ⟨ht.1, by rw [hh]; exact ht.2.1, hrec⟩

/-- keeping the bins whose lower edge is at most `x` keeps a prefix of a tiling -/
theorem tiles_filter_le (l : List (Bin ℝ)) (x : ℝ) (ht : Tiles l) :
    Tiles (l.filter (fun b => Scalar.le b.1 x)) := by
  induction l with
  | nil => trivial
  | cons b t ih =>
    by_cases hb : b.1 ≤ x
    · have hp : (fun c : Bin ℝ => Scalar.le c.1 x) b = true := by simp only [Scalar.le, decide_eq_true_eq]; exact hb
      rw [List.filter_cons_of_pos (p := fun c : Bin ℝ => Scalar.le c.1 x) hp]
      cases t with
      | nil => exact ht
      | cons f ft =>
        have hrec := ih (Tiles.tail ht)
        by_cases hf : f.1 ≤ x
        · have hpf : (fun c : Bin ℝ => Scalar.le c.1 x) f = true := by simp only [Scalar.le, decide_eq_true_eq]; exact hf
          rw [List.filter_cons_of_pos (p := fun c : Bin ℝ => Scalar.le c.1 x) hpf] at hrec ⊢
          exact ⟨ht.1, ht.2.1, hrec⟩
        · push Not at hf
          have hnil : (f :: ft).filter (fun c => Scalar.le c.1 x) = [] := by
            apply filter_le_nil
            intro c hc
            rcases List.mem_cons.1 hc with rfl | hc
            · exact hf
            · have := Tiles.lower_ge (Tiles.tail ht) c hc
              have := Tiles.head_lt (Tiles.tail ht)
              linarith
          rw [hnil]; exact ht.1
    · have hp : ¬ ((fun c : Bin ℝ => Scalar.le c.1 x) b = true) := by simp only [Scalar.le, decide_eq_true_eq]; exact hb
      rw [List.filter_cons_of_neg (p := fun c : Bin ℝ => Scalar.le c.1 x) hp]
      exact ih (Tiles.tail ht)

/-- **WD bins**: the stellar bins starting at or below the maximum WD mass, the last one cut at that mass, tile
    `[first stellar edge, wdMax]` (no stellar edge exactly at the maximum) -/
theorem carveWD_tiles (b : Bin ℝ) (t : List (Bin ℝ)) (wdMax : ℝ) (ht : Tiles (b :: t)) (hlo : b.1 < wdMax)
    (hedge : ∀ c ∈ b :: t, c.1 ≠ wdMax) :
    Tiles (carveWD (b :: t) wdMax) ∧ (carveWD (b :: t) wdMax).getLast?.map (·.2) = some wdMax ∧
    (carveWD (b :: t) wdMax).head?.map (·.1) = some b.1 := by
  unfold carveWD
  have hp : (fun c : Bin ℝ => Scalar.le c.1 wdMax) b = true := by simp only [Scalar.le, decide_eq_true_eq]; exact hlo.le
  refine ⟨?_, ?_, ?_⟩
  · apply tiles_setLastUpper _ _ (tiles_filter_le _ _ ht)
    intro c hc
    have hm := List.mem_filter.1 hc
    have hle : c.1 ≤ wdMax := by simpa [Scalar.le] using hm.2
    exact lt_of_le_of_ne hle (hedge c hm.1)
  · apply setLastUpper_getLast
    rw [List.filter_cons_of_pos (p := fun c : Bin ℝ => Scalar.le c.1 wdMax) hp]; simp
  · rw [setLastUpper_head, List.filter_cons_of_pos (p := fun c : Bin ℝ => Scalar.le c.1 wdMax) hp]; rfl

/-- in a tiling every later upper edge exceeds the first upper edge -/
theorem Tiles.upper_gt {b : Bin ℝ} {t : List (Bin ℝ)} (h : Tiles (b :: t)) : ∀ c ∈ t, b.2 < c.2 := by
  induction t generalizing b with
  | nil => intro c hc; cases hc
  | cons b' t ih =>
    intro c hc
    have hb' := Tiles.head_lt h.2.2
    rcases List.mem_cons.1 hc with rfl | hc
    · rw [h.2.1]; exact hb'
    · have := ih h.2.2 c hc
      rw [h.2.1]; linarith

/-- keeping the bins whose upper edge exceeds `x` keeps a suffix of a tiling -/
theorem tiles_filter_gt (l : List (Bin ℝ)) (x : ℝ) (ht : Tiles l) : Tiles (l.filter (fun b => Scalar.lt x b.2)) := by
  induction l with
  | nil => trivial
  | cons b t ih =>
    by_cases hb : x < b.2
    · have hall : (b :: t).filter (fun c => Scalar.lt x c.2) = b :: t := by
        rw [List.filter_eq_self]
        intro c hc
        simp only [Scalar.lt, decide_eq_true_eq]
        rcases List.mem_cons.1 hc with rfl | hc
        · exact hb
        · exact lt_trans hb (Tiles.upper_gt ht c hc)
      rw [hall]; exact ht
    · have hp : ¬ ((fun c : Bin ℝ => Scalar.lt x c.2) b = true) := by simp only [Scalar.lt, decide_eq_true_eq]; exact hb
      rw [List.filter_cons_of_neg (p := fun c : Bin ℝ => Scalar.lt x c.2) hp]
      exact ih (Tiles.tail ht)

/-- **BH bins**: the stellar bins ending above the minimum BH mass, the first one starting at that mass, still tile -/
theorem carveBH_tiles (ms : List (Bin ℝ)) (bhMin : ℝ) (ht : Tiles ms) :
    Tiles (carveBH ms bhMin) ∧ ((carveBH ms bhMin).head?.map (·.1) = some bhMin ∨ carveBH ms bhMin = []) := by
  unfold carveBH
  have hf := tiles_filter_gt ms bhMin ht
  cases hF : ms.filter (fun b => Scalar.lt bhMin b.2) with
  | nil => exact ⟨trivial, Or.inr rfl⟩
  | cons f ft =>
    rw [hF] at hf
    have hfm : f ∈ ms.filter (fun b => Scalar.lt bhMin b.2) := by rw [hF]; simp
    have hlt : bhMin < f.2 := by simpa [Scalar.lt] using (List.mem_filter.1 hfm).2
    refine ⟨?_, Or.inl rfl⟩
    obtain ⟨fl, fu⟩ := f
    cases ft with
    | nil => exact hlt
    | cons g gt => exact ⟨hlt, hf.2.1, hf.2.2⟩

structure Statement : Prop where
  /-- the carving masks and the two comparisons of the lookup are the source's own -/
  source_carve : ∀ (ms : List (Bin ℝ)) (x : ℝ),
    carveWD ms x = setLastUpper (ms.filter fun b => Generated.carve_WD_mask b.1 b.2 x) x ∧
    carveBH ms x = setFirstLower (ms.filter fun b => Generated.carve_BH_mask b.1 b.2 x) x ∧
    carveNS ms (14e-1 : ℝ) = (ms.filter fun b => Generated.carve_NS_mask b.1 b.2) ∧
    Generated.carve_WD_edge_is_WDmax x = 1 ∧ Generated.carve_BH_edge_is_BHmin x = 1
  /-- an integer bin count is split over the binning breaks' own number of segments -/
  source_nseg : ∀ x : ℝ, Generated.bins_nseg_is_breaks_minus_one x = 1
  source_lookup : ∀ (l u m : ℝ) (t : List (Bin ℝ)) (i : Nat) (acc : Option Nat),
    lastLowerLe ((l, u) :: t) m i acc = lastLowerLe t m (i + 1) (if Generated.lookup_le l m then some i else acc) ∧
    Generated.lookup_over u m = Scalar.le u m ∧ Generated.lookup_last_bin_test m = 1
  divide : ∀ N k : Nat, 0 < k → (divideBinSizes N k).length = k ∧ (divideBinSizes N k).sum = N
  linear : ∀ (lo hi : ℝ) (n : Nat), lo < hi → (linspace lo hi n).length = n + 1 ∧
    (linspace lo hi n).Pairwise (· < ·) ∧ (linspace lo hi n).getLast? = some hi ∧
    (0 < n → (linspace lo hi n).head? = some lo)
  geometric : ∀ (lo hi : ℝ) (n : Nat), 0 < lo → lo < hi → (geomspace lo hi n).length = n + 1 ∧
    (geomspace lo hi n).Pairwise (· < ·) ∧ (geomspace lo hi n).getLast? = some hi ∧
    (0 < n → (geomspace lo hi n).head? = some lo)
  lookup : ∀ (bins : List (Bin ℝ)) (m : ℝ) (i : Nat), determineIndex bins m = .ok i →
    i < bins.length ∧ (bins.getD i (0, 0)).1 ≤ m ∧
    (∀ k, i < k → k < bins.length → m < (bins.getD k (0, 0)).1) ∧
    (i + 1 = bins.length → m < (bins.getD i (0, 0)).2)
  lookup_below : ∀ (bins : List (Bin ℝ)) (m : ℝ), (∀ b ∈ bins, m < b.1) → determineIndex bins m = .error .below
  truncation : ∀ (ms : List (Bin ℝ)) (mto : ℝ),
    (turnedOffBins ms (some mto)).length = ms.length ∧
    ((turnedOffBins ms (some mto)) = ms ∨
     ∃ i, determineIndex ms mto = .ok i ∧ ∀ k, (turnedOffBins ms (some mto)).getD k (0, 0) =
        if k = i then ((ms.getD k (0, 0)).1, mto) else ms.getD k (0, 0))
  /-- star bins built from strictly increasing edges tile the range -/
  tiles : ∀ es : List ℝ, es.Pairwise (· < ·) → Tiles (binsOfEdges es)
  /-- exactly one NS bin for a NS mass inside the stellar range -/
  one_ns : ∀ (bins : List (Bin ℝ)) (m : ℝ) (hne : bins ≠ []), Tiles bins → (bins.head hne).1 ≤ m → m < (bins.getLast hne).2 →
    (carveNS bins m).length = 1
  /-- WD bins tile `[first stellar edge, maximum WD mass]` -/
  wd_tiles : ∀ (b : Bin ℝ) (t : List (Bin ℝ)) (wdMax : ℝ), Tiles (b :: t) → b.1 < wdMax → (∀ c ∈ b :: t, c.1 ≠ wdMax) →
    Tiles (carveWD (b :: t) wdMax) ∧ (carveWD (b :: t) wdMax).getLast?.map (·.2) = some wdMax ∧
    (carveWD (b :: t) wdMax).head?.map (·.1) = some b.1
  bh_tiles : ∀ (ms : List (Bin ℝ)) (bhMin : ℝ), Tiles ms →
    Tiles (carveBH ms bhMin) ∧ ((carveBH ms bhMin).head?.map (·.1) = some bhMin ∨ carveBH ms bhMin = [])
  unpack_pack : ∀ parts : List (List ℝ), unpack (parts.map List.length) (pack parts) = parts
  pack_unpack : ∀ (sizes : List Nat) (y : List ℝ), sizes.sum = y.length → pack (unpack sizes y) = y

/-- **C13 (partial)**: spacing, lookup, truncation and packing. Proved since the first version: tiling of the star bins,
    exactly one NS bin, WD bins tile up to the maximum WD mass. BH bins tile from the minimum BH mass. Not proved in Lean: where the IFMR bounds come from (C09). -/
theorem C13_partial : Statement where
  source_carve := fun ms x => ⟨Bridge.gen_carveWD ms x, Bridge.gen_carveBH ms x, Bridge.gen_carveNS ms, (Bridge.gen_carve_edges x).1, (Bridge.gen_carve_edges x).2⟩
  source_nseg := Bridge.gen_nseg
  source_lookup := fun l u m t i acc => ⟨Bridge.gen_lastLowerLe_cons l u m t i acc, Bridge.gen_lookup_over u m, Bridge.gen_lookup_last m⟩
  divide := fun N k hk => ⟨divide_length N k hk, divide_sum N k hk⟩
  linear := fun lo hi n h => ⟨linspace_length lo hi n, linspace_strict lo hi n h, linspace_getLast lo hi n,
    fun hn => by rw [linspace_head]; simp [Nat.pos_iff_ne_zero.1 hn]⟩
  geometric := fun lo hi n hlo h => ⟨geomspace_length lo hi n, geomspace_strict lo hi n hlo h, geomspace_getLast lo hi n,
    fun hn => by rw [geomspace_head]; simp [Nat.pos_iff_ne_zero.1 hn]⟩
  lookup := determineIndex_sound
  lookup_below := determineIndex_below
  truncation := turnedOff_only_one_edge
  tiles := binsOfEdges_tiles
  one_ns := fun bins m hne ht h1 h2 => carveNS_one bins m ht hne h1 h2
  wd_tiles := carveWD_tiles
  bh_tiles := carveBH_tiles
  unpack_pack := unpack_pack
  pack_unpack := pack_unpack

example : (divideBinSizes 10 3) = [4, 3, 3] := by decide
example : determineIndex [((1:ℝ), (2:ℝ)), (2, 3)] 2 = .ok 1 := by
  simp [determineIndex, lastLowerLe, Scalar.le]; norm_num

/-- the tiling hypotheses are satisfiable: three edges give two tiling bins, 1.4 lies in exactly one of them -/
example : Tiles (binsOfEdges [(1:ℝ), 2, 3]) := binsOfEdges_tiles _ (by simp; norm_num)
example : (carveNS (binsOfEdges [(1:ℝ), 2, 3]) 1.4).length = 1 :=
  carveNS_one _ _ (binsOfEdges_tiles _ (by simp; norm_num)) (by simp [binsOfEdges]) (by simp [binsOfEdges]; norm_num)
    (by simp [binsOfEdges]; norm_num)

end Model.C13
