import SspModel.Lemmas.Pk
import SspModel.Model.Esc
import SspModel.Props.C12
import SspModel.Lemmas.Conserve
import SspModel.Lemmas.Bridge.Esc
import Mathlib.Algebra.BigOperators.Group.List.Basic
import Mathlib.Analysis.SpecialFunctions.Sqrt
/-!
# C03 — escape removes exactly the requested rate with the documented mass dependence
-/
namespace Model.C03
open Model

theorem sumL_eq (l : List ℝ) : sumL l = l.sum := by
  induction l with
  | nil => simp [sumL]
  | cons x xs ih => simp only [sumL, List.sum_cons, ih]

theorem sum_map_mul_left (l : List ℝ) (c : ℝ) : (l.map (c * ·)).sum = c * l.sum := by
  induction l with
  | nil => simp
  | cons x xs ih => simp only [List.map_cons, List.sum_cons, ih]; ring

theorem sum_map_comp_mul {β : Type} (l : List β) (f : β → ℝ) (c : ℝ) : (l.map (fun x => c * f x)).sum = c * (l.map f).sum := by
  induction l with
  | nil => simp
  | cons x xs ih => simp only [List.map_cons, List.sum_cons, ih]; ring

/-- what `moments = some …` means -/
theorem moments_some (b : StarBin ℝ) (p1 p15 p2 p25 : ℝ) (h : b.moments = some (p1, p15, p2, p25)) :
    Pk b.a 1 b.lo b.hi = some p1 ∧ Pk b.a 1.5 b.lo b.hi = some p15 ∧ Pk b.a 2 b.lo b.hi = some p2 ∧
    Pk b.a 2.5 b.lo b.hi = some p25 ∧ 0 < p1 ∧ 0 < p15 ∧ 0 < p2 ∧ 0 < p25 := by
  unfold StarBin.moments at h
  have e15 : (@OfScientific.ofScientific ℝ ScalarLit.instOfSci 15 true 1) = (1.5:ℝ) := by rw [real_ofSci]; try norm_num
  have e25 : (@OfScientific.ofScientific ℝ ScalarLit.instOfSci 25 true 1) = (2.5:ℝ) := by rw [real_ofSci]; try norm_num
  simp only [real_one, real_two, e15, e25] at h
  split at h
  · rename_i q1 q15 q2 q25 h1 h15 h2 h25
    cases h
    exact ⟨h1, h15, h2, h25, C12.Pk_never_nonpos _ _ _ _ _ h1, C12.Pk_never_nonpos _ _ _ _ _ h15,
      C12.Pk_never_nonpos _ _ _ _ _ h2, C12.Pk_never_nonpos _ _ _ _ _ h25⟩
  · cases h

theorem Pk_some_eq (a k lo hi p : ℝ) (h : Pk a k lo hi = some p) : p = PkCore a k lo hi := by
  unfold Pk at h; simp only at h; split at h
  · cases h
  · cases h; rfl

def RemNonNeg (rems : List (ℝ × ℝ)) : Prop := ∀ r ∈ rems, 0 ≤ r.1

/-! ## before core collapse -/
theorem pre_dNr_sum (rems : List (ℝ × ℝ)) (c : ℝ) (h : RemNonNeg rems) :
    (rems.map (fun r : ℝ × ℝ => if 0 < r.1 then c * r.1 else 0)).sum = c * (rems.map (·.1)).sum := by
  induction rems with
  | nil => simp
  | cons r t ih =>
    have h0 := h r List.mem_cons_self
    have := ih (fun x hx => h x (List.mem_cons_of_mem _ hx))
    simp only [List.map_cons, List.sum_cons, this]
    by_cases hr : 0 < r.1
    · simp [hr]; ring
    · have : r.1 = 0 := le_antisymm (not_lt.1 hr) h0
      simp [hr, this]

/-- the pre-collapse normalisation: total mass ('M') or total number ('N') -/
noncomputable def preD (normM : Bool) (stars : List (StarBin ℝ)) (rems : List (ℝ × ℝ)) : ℝ :=
  if normM then (stars.map StarBin.mass).sum + (rems.map (·.2)).sum
  else (stars.map (·.n)).sum + (rems.map (·.1)).sum

/-- the post-collapse normalisation: sum of the depletion integrals -/
noncomputable def postS (normM : Bool) (md : ℝ) (stars : List (StarBin ℝ)) (rems : List (ℝ × ℝ)) : ℝ :=
  if normM then (stars.map (StarBin.Js md)).sum + (rems.map (remJ md)).sum
  else (stars.map (StarBin.Is md)).sum + (rems.map (remI md)).sum

theorem escPre_real (normM : Bool) (rate : ℝ) (stars : List (StarBin ℝ)) (rems : List (ℝ × ℝ)) :
    let D := preD normM stars rems
    escPre normM rate stars rems =
      (stars.map (fun b => rate * b.n / D), stars.map (fun _ => (0:ℝ)),
       rems.map (fun r => if 0 < r.1 then (rate * r.1 / D, if normM then rate * r.2 / D else (r.2 / r.1) * rate * r.1 / D)
                          else ((0:ℝ), (0:ℝ)))) := by
  intro D
  unfold escPre
  simp only [sumL_eq, Scalar.lt, real_zero, decide_eq_true_eq]
  rfl

/-- every bin loses the same fraction, slopes do not change, remnant mean masses are preserved -/
theorem pre_uniform (normM : Bool) (rate : ℝ) (stars : List (StarBin ℝ)) (rems : List (ℝ × ℝ)) :
    (escPre normM rate stars rems).1 = stars.map (fun b => rate / preD normM stars rems * b.n) ∧
    (escPre normM rate stars rems).2.1 = stars.map (fun _ => (0:ℝ)) ∧
    (escPre normM rate stars rems).2.2 =
      rems.map (fun r => if 0 < r.1 then (rate / preD normM stars rems * r.1, rate / preD normM stars rems * r.2)
                         else ((0:ℝ), (0:ℝ))) := by
  have h := escPre_real normM rate stars rems
  simp only at h
  rw [h]
  refine ⟨?_, rfl, ?_⟩
  · apply List.map_congr_left; intro b _; ring
  · apply List.map_congr_left; intro r _
    by_cases hr : 0 < r.1
    · simp only [hr, if_true]
      cases normM
      · simp only [Bool.false_eq_true, if_false, Prod.mk.injEq]
        refine ⟨by ring, ?_⟩
        field_simp
      · simp only [if_true, Prod.mk.injEq]; exact ⟨by ring, by ring⟩
    · simp [hr]

/-- 'N': the instantaneous loss summed over all star and remnant bins equals the rate -/
theorem pre_N_sum (rate : ℝ) (stars : List (StarBin ℝ)) (rems : List (ℝ × ℝ)) (hr : RemNonNeg rems)
    (hD : preD false stars rems ≠ 0) :
    (escPre false rate stars rems).1.sum + ((escPre false rate stars rems).2.2.map (·.1)).sum = rate := by
  obtain ⟨h1, _, h3⟩ := pre_uniform false rate stars rems
  rw [h1, h3, List.map_map]
  have e1 : (stars.map (fun b => rate / preD false stars rems * b.n)).sum
      = rate / preD false stars rems * (stars.map (·.n)).sum := sum_map_comp_mul _ _ _
  have e2 : (rems.map ((fun x : ℝ × ℝ => x.1) ∘ fun r : ℝ × ℝ =>
        if 0 < r.1 then (rate / preD false stars rems * r.1, rate / preD false stars rems * r.2) else ((0:ℝ), (0:ℝ)))).sum
      = rate / preD false stars rems * (rems.map (·.1)).sum := by
    rw [← pre_dNr_sum rems _ hr]
    congr 1; apply List.map_congr_left; intro r _
    by_cases h : 0 < r.1 <;> simp [h]
  rw [e1, e2, ← mul_add]
  have : (stars.map (·.n)).sum + (rems.map (·.1)).sum = preD false stars rems := by simp [preD]
  rw [this]; field_simp

/-- 'M': the mass lost by the stars (finite bins, at their mean mass) plus by the remnants equals the rate -/
theorem pre_M_sum (rate : ℝ) (stars : List (StarBin ℝ)) (rems : List (ℝ × ℝ))
    (hr : ∀ r ∈ rems, 0 < r.1 ∨ r.2 = 0) (hD : preD true stars rems ≠ 0) :
    (stars.map (fun b => rate / preD true stars rems * b.mass)).sum
      + ((escPre true rate stars rems).2.2.map (·.2)).sum = rate := by
  obtain ⟨_, _, h3⟩ := pre_uniform true rate stars rems
  rw [h3, List.map_map]
  have e1 : (stars.map (fun b => rate / preD true stars rems * b.mass)).sum
      = rate / preD true stars rems * (stars.map StarBin.mass).sum := sum_map_comp_mul _ _ _
  have e2 : (rems.map ((fun x : ℝ × ℝ => x.2) ∘ fun r : ℝ × ℝ =>
        if 0 < r.1 then (rate / preD true stars rems * r.1, rate / preD true stars rems * r.2) else ((0:ℝ), (0:ℝ)))).sum
      = rate / preD true stars rems * (rems.map (·.2)).sum := by
    rw [← sum_map_comp_mul]
    congr 1; apply List.map_congr_left; intro r hrm
    by_cases h : 0 < r.1
    · simp [h]
    · rcases hr r hrm with h' | h'
      · exact absurd h' h
      · simp [h, h']
  rw [e1, e2, ← mul_add]
  have : (stars.map StarBin.mass).sum + (rems.map (·.2)).sum = preD true stars rems := by simp [preD]
  rw [this]; field_simp

/-! ## after core collapse -/
/-- only bins whose mean mass is below the depletion mass lose objects; heavier (or non-finite) bins are untouched -/
theorem post_support_star (md : ℝ) (b : StarBin ℝ) (h : b.depl md = false) : b.Is md = 0 ∧ b.Js md = 0 := by
  unfold StarBin.depl at h
  unfold StarBin.Is StarBin.Js
  cases hm : b.moments with
  | none => simp
  | some v =>
    obtain ⟨p1, p15, p2, p25⟩ := v
    rw [hm] at h
    simp only at h
    simp [h]

theorem post_support_rem (md : ℝ) (r : ℝ × ℝ) (h : ¬ (0 < r.1 ∧ r.2 / r.1 < md)) : remI md r = 0 ∧ remJ md r = 0 := by
  unfold remI remJ
  simp only [Scalar.lt, real_zero]
  by_cases h1 : 0 < r.1
  · have h2 : ¬ r.2 / r.1 < md := fun h2 => h ⟨h1, h2⟩
    simp [h1, h2]
  · simp [h1]

/-- over ℝ the masked updates of the source are `B·Is`, `B·Ir`, `B·Jr` on every bin (the masked-out entries vanish anyway) -/
theorem escPost_real (normM : Bool) (rate md : ℝ) (stars : List (StarBin ℝ)) (rems : List (ℝ × ℝ)) :
    escPost normM rate md stars rems =
      (stars.map (fun b => rate / postS normM md stars rems * b.Is md),
       stars.map (fun b => if b.depl md then rate / postS normM md stars rems * b.dalphaUnit md else 0),
       rems.map (fun r => (rate / postS normM md stars rems * remI md r, rate / postS normM md stars rems * remJ md r))) := by
  have hB : escB normM rate md stars rems = rate / postS normM md stars rems := by
    unfold escB postS
    simp only [sumL_eq]
    cases normM <;> rfl
  unfold escPost
  simp only [hB, real_zero]
  refine Prod.ext ?_ (Prod.ext rfl ?_)
  · apply List.map_congr_left
    intro b _
    by_cases hd : b.depl md = true
    · simp [hd]
    · have h0 := (post_support_star md b (by simpa using hd)).1
      simp [hd, h0]
  · apply List.map_congr_left
    intro r _
    by_cases hr : 0 < r.1
    · have : Scalar.lt 0 r.1 = true := by rw [real_lt]; exact hr
      simp [this]
    · have hz := post_support_rem md r (fun h => hr h.1)
      have : ¬ (Scalar.lt 0 r.1 = true) := by rw [real_lt]; exact hr
      simp [this, hz.1, hz.2]

theorem post_N_sum (rate md : ℝ) (stars : List (StarBin ℝ)) (rems : List (ℝ × ℝ))
    (hS : postS false md stars rems ≠ 0) :
    (escPost false rate md stars rems).1.sum + ((escPost false rate md stars rems).2.2.map (·.1)).sum = rate := by
  rw [escPost_real]
  simp only [List.map_map]
  rw [sum_map_comp_mul]
  have : ((fun x : ℝ × ℝ => x.1) ∘ fun r : ℝ × ℝ =>
      (rate / postS false md stars rems * remI md r, rate / postS false md stars rems * remJ md r))
      = fun r => rate / postS false md stars rems * remI md r := by funext r; rfl
  rw [this, sum_map_comp_mul, ← mul_add]
  have : (stars.map (StarBin.Is md)).sum + (rems.map (remI md)).sum = postS false md stars rems := by simp [postS]
  rw [this]; field_simp

theorem post_M_sum (rate md : ℝ) (stars : List (StarBin ℝ)) (rems : List (ℝ × ℝ))
    (hS : postS true md stars rems ≠ 0) :
    (stars.map (fun b => rate / postS true md stars rems * b.Js md)).sum
      + ((escPost true rate md stars rems).2.2.map (·.2)).sum = rate := by
  rw [escPost_real]
  simp only [List.map_map]
  rw [sum_map_comp_mul]
  have : ((fun x : ℝ × ℝ => x.2) ∘ fun r : ℝ × ℝ =>
      (rate / postS true md stars rems * remI md r, rate / postS true md stars rems * remJ md r))
      = fun r => rate / postS true md stars rems * remJ md r := by funext r; rfl
  rw [this, sum_map_comp_mul, ← mul_add]
  have : (stars.map (StarBin.Js md)).sum + (rems.map (remJ md)).sum = postS true md stars rems := by simp [postS]
  rw [this]; field_simp

/-- remnant mean masses are preserved: dMr = (Mr/Nr)·dNr -/
theorem rem_mean_preserved (md : ℝ) (r : ℝ × ℝ) (h : 0 < r.1) : remJ md r = (r.2 / r.1) * remI md r := by
  unfold remI remJ
  simp only [Scalar.lt, real_zero, h, decide_true, if_true]
  by_cases h2 : r.2 / r.1 < md
  · simp only [h2, decide_true, if_true]; field_simp
  · simp [h2]

/-- each object of mass m escapes at a rate ∝ 1 − √(m/md): `Is` is that weight integrated over the bin's power law -/
theorem Is_eq_integral (md : ℝ) (b : StarBin ℝ) (p1 p15 p2 p25 : ℝ) (hm : b.moments = some (p1, p15, p2, p25))
    (hd : p2 / p1 < md) (hmd : 0 < md) (hlo : 0 < b.lo) (hlt : b.lo < b.hi) :
    b.Is md = ∫ x in b.lo..b.hi, (b.n / p1) * x ^ b.a * (1 - √(x / md)) := by
  obtain ⟨h1, h15, _, _, hp1, _, _, _⟩ := moments_some b p1 p15 p2 p25 hm
  have e1 := Pk_some_eq _ _ _ _ _ h1
  have e15 := Pk_some_eq _ _ _ _ _ h15
  unfold StarBin.Is
  rw [hm]
  have hlt' : Scalar.lt (p2 / p1) md = true := by rw [real_lt]; exact hd
  simp only [hlt', if_true, real_one, real_rpow]
  have e5 : (@OfScientific.ofScientific ℝ ScalarLit.instOfSci 5 true 1) = (0.5:ℝ) := by rw [real_ofSci]; try norm_num
  rw [e5]
  have hI1 := PkCore_eq_integral b.a 1 b.lo b.hi hlo hlt.le
  have hI15 := PkCore_eq_integral b.a 1.5 b.lo b.hi hlo hlt.le
  have ex1 : b.a + 1 - 1 = b.a := by ring
  have ex15 : b.a + 1.5 - 1 = b.a + 0.5 := by ring
  rw [ex1] at hI1; rw [ex15] at hI15
  have hint : ∫ x in b.lo..b.hi, (b.n / p1) * x ^ b.a * (1 - √(x / md))
      = (b.n / p1) * ((∫ x in b.lo..b.hi, x ^ b.a) - md ^ (-(0.5:ℝ)) * ∫ x in b.lo..b.hi, x ^ (b.a + 0.5)) := by
    rw [← intervalIntegral.integral_const_mul, ← intervalIntegral.integral_sub
      (rpow_intervalIntegrable _ _ _ hlo hlt.le) ((rpow_intervalIntegrable _ _ _ hlo hlt.le).const_mul _),
      ← intervalIntegral.integral_const_mul]
    apply intervalIntegral.integral_congr
    intro x hx
    rw [Set.uIcc_of_le hlt.le] at hx
    have hx0 : 0 < x := lt_of_lt_of_le hlo hx.1
    simp only
    have hs : √(x / md) = md ^ (-(0.5:ℝ)) * x ^ (0.5:ℝ) := by
      rw [Real.sqrt_eq_rpow, Real.div_rpow hx0.le hmd.le, Real.rpow_neg hmd.le]
      have : (1/2:ℝ) = 0.5 := by norm_num
      rw [this]; field_simp
    rw [hs, Real.rpow_add hx0]; ring
  rw [hint, ← hI1, ← hI15, ← e1, ← e15]
  field_simp

/-- the slope change is the secant of d ln N(m)/dt = B(1 − √(m/md)) between the two (truncated) bin edges -/
theorem dalpha_is_edge_secant (md B : ℝ) (b : StarBin ℝ) (hlo : 0 < b.lo) (hhi : 0 < b.hi) (hmd : 0 < md) :
    B * b.dalphaUnit md =
      (B * (1 - √(b.hi / md)) - B * (1 - √(b.lo / md))) / (Real.log b.hi - Real.log b.lo) := by
  unfold StarBin.dalphaUnit
  have e5 : (@OfScientific.ofScientific ℝ ScalarLit.instOfSci 5 true 1) = (0.5:ℝ) := by rw [real_ofSci]; try norm_num
  simp only [real_rpow, real_log, e5]
  have h5 : (0.5:ℝ) = 1/2 := by norm_num
  rw [h5, ← Real.sqrt_eq_rpow, ← Real.sqrt_eq_rpow, Real.log_div hhi.ne' hlo.ne']
  ring

/-- with zero rate nothing escapes (both branches) -/
theorem zero_rate (normM : Bool) (t tcc md : ℝ) (stars : List (StarBin ℝ)) (rems : List (ℝ × ℝ)) :
    let out := derivsEsc normM t tcc 0 md stars rems
    (∀ x ∈ out.1, x = 0) ∧ (∀ x ∈ out.2.1, x = 0) ∧ (∀ r ∈ out.2.2, r = (0, 0)) := by
  intro out
  simp only [out, derivsEsc]
  split
  · obtain ⟨h1, h2, h3⟩ := pre_uniform normM 0 stars rems
    rw [h1, h2, h3]
    refine ⟨?_, ?_, ?_⟩
    · intro x hx; simp only [List.mem_map] at hx; obtain ⟨b, _, rfl⟩ := hx; simp
    · intro x hx; simp only [List.mem_map] at hx; obtain ⟨b, _, rfl⟩ := hx; rfl
    · intro r hr; simp only [List.mem_map] at hr; obtain ⟨b, _, rfl⟩ := hr; split <;> simp
  · rw [escPost_real]
    refine ⟨?_, ?_, ?_⟩
    · intro x hx; simp only [List.mem_map] at hx; obtain ⟨b, _, rfl⟩ := hx; simp
    · intro x hx; simp only [List.mem_map] at hx; obtain ⟨b, _, rfl⟩ := hx; split <;> simp
    · intro r hr; simp only [List.mem_map] at hr; obtain ⟨b, _, rfl⟩ := hr; simp

/-- **witness of the known finding `C03-nothing-depletable`**: when no star bin is depleted and no populated remnant bin lies below the
    depletion mass, every entry of the post-collapse derivative is zero — the requested rate is not removed -/
theorem nothing_depletable (normM : Bool) (rate md : ℝ) (stars : List (StarBin ℝ)) (rems : List (ℝ × ℝ))
    (hs : ∀ b ∈ stars, b.depl md = false) (hr : ∀ r ∈ rems, ¬ (0 < r.1 ∧ r.2 / r.1 < md)) :
    (∀ x ∈ (escPost normM rate md stars rems).1, x = 0) ∧ (∀ x ∈ (escPost normM rate md stars rems).2.1, x = 0) ∧
    (∀ r ∈ (escPost normM rate md stars rems).2.2, r = (0, 0)) := by
  rw [escPost_real]
  refine ⟨?_, ?_, ?_⟩
  · intro x hx
    obtain ⟨b, hb, rfl⟩ := List.mem_map.1 hx
    rw [(post_support_star md b (hs b hb)).1, mul_zero]
  · intro x hx
    obtain ⟨b, hb, rfl⟩ := List.mem_map.1 hx
    simp [hs b hb]
  · intro x hx
    obtain ⟨r, hrm, rfl⟩ := List.mem_map.1 hx
    obtain ⟨h1, h2⟩ := post_support_rem md r (hr r hrm)
    rw [h1, h2, mul_zero]

structure Statement : Prop where
  /-- the model's entries are the expressions of `_derivs_esc` in the source now (pre- and post-collapse, both normalisations) -/
  source_pre : ∀ (normM : Bool) (rate : ℝ) (stars : List (StarBin ℝ)) (rems : List (ℝ × ℝ)),
    escPre normM rate stars rems =
      (let D := if normM then sumL (stars.map StarBin.mass) + sumL (rems.map (·.2))
                else sumL (stars.map (·.n)) + sumL (rems.map (·.1))
       (stars.map (fun b => if normM then Generated.esc_preM_dNs rate b.n D else Generated.esc_preN_dNs rate b.n D),
        stars.map (fun _ => (0 : ℝ)),
        rems.map (fun r =>
          if Scalar.lt 0 r.1 then
            (if normM then (Generated.esc_preM_dNr rate r.1 r.2 D, Generated.esc_preM_dMr rate r.1 r.2 D)
             else (Generated.esc_preN_dNr rate r.1 r.2 D, Generated.esc_preN_dMr rate r.1 r.2 D))
          else (0, 0))))
  source_Is : ∀ (md : ℝ) (b : StarBin ℝ), b.Is md = match b.moments with
      | some (p1, p15, p2, _) => if Generated.esc_depl p1 p2 md then Generated.esc_Is b.n md p1 p15 else 0
      | none => 0
  source_Js : ∀ (md : ℝ) (b : StarBin ℝ), (b.Js md = match b.moments with
      | some (p1, _, p2, p25) => if Generated.esc_depl p1 p2 md then Generated.esc_Js_a b.n md p1 p2 p25 else 0
      | none => 0) ∧ (b.Js md = match b.moments with
      | some (p1, _, p2, p25) => if Generated.esc_depl p1 p2 md then Generated.esc_Js_b b.n md p1 p2 p25 else 0
      | none => 0)
  source_rem : ∀ (md : ℝ) (r : ℝ × ℝ), remI md r = (if Scalar.lt 0 r.1 then Generated.esc_Ir r.1 r.2 md else 0) ∧
    remJ md r = (if Scalar.lt 0 r.1 then Generated.esc_Jr r.1 r.2 md else 0)
  source_B : ∀ (normM : Bool) (rate md : ℝ) (stars : List (StarBin ℝ)) (rems : List (ℝ × ℝ)), escB normM rate md stars rems =
      if normM then Generated.esc_B_M rate (sumL (stars.map (StarBin.Js md))) (sumL (rems.map (remJ md)))
      else Generated.esc_B_N rate (sumL (stars.map (StarBin.Is md))) (sumL (rems.map (remI md)))
  source_post : ∀ (B md : ℝ) (b : StarBin ℝ) (r : ℝ × ℝ),
    B * b.Is md = Generated.esc_post_dNs B (b.Is md) ∧ B * b.dalphaUnit md = Generated.esc_post_dalpha B b.lo b.hi md ∧
    B * remI md r = Generated.esc_post_dNr B (remI md r) (remJ md r) ∧ B * remJ md r = Generated.esc_post_dMr B (remI md r) (remJ md r)
  pre_N : ∀ (rate : ℝ) (stars : List (StarBin ℝ)) (rems : List (ℝ × ℝ)), RemNonNeg rems → preD false stars rems ≠ 0 →
    (escPre false rate stars rems).1.sum + ((escPre false rate stars rems).2.2.map (·.1)).sum = rate
  pre_M : ∀ (rate : ℝ) (stars : List (StarBin ℝ)) (rems : List (ℝ × ℝ)), (∀ r ∈ rems, 0 < r.1 ∨ r.2 = 0) →
    preD true stars rems ≠ 0 →
    (stars.map (fun b => rate / preD true stars rems * b.mass)).sum + ((escPre true rate stars rems).2.2.map (·.2)).sum = rate
  pre_uniform : ∀ (normM : Bool) (rate : ℝ) (stars : List (StarBin ℝ)) (rems : List (ℝ × ℝ)),
    (escPre normM rate stars rems).1 = stars.map (fun b => rate / preD normM stars rems * b.n) ∧
    (escPre normM rate stars rems).2.1 = stars.map (fun _ => (0:ℝ)) ∧
    (escPre normM rate stars rems).2.2 =
      rems.map (fun r => if 0 < r.1 then (rate / preD normM stars rems * r.1, rate / preD normM stars rems * r.2)
                         else ((0:ℝ), (0:ℝ)))
  post_N : ∀ (rate md : ℝ) (stars : List (StarBin ℝ)) (rems : List (ℝ × ℝ)), postS false md stars rems ≠ 0 →
    (escPost false rate md stars rems).1.sum + ((escPost false rate md stars rems).2.2.map (·.1)).sum = rate
  post_M : ∀ (rate md : ℝ) (stars : List (StarBin ℝ)) (rems : List (ℝ × ℝ)), postS true md stars rems ≠ 0 →
    (stars.map (fun b => rate / postS true md stars rems * b.Js md)).sum
      + ((escPost true rate md stars rems).2.2.map (·.2)).sum = rate
  support_star : ∀ (md : ℝ) (b : StarBin ℝ), b.depl md = false → b.Is md = 0 ∧ b.Js md = 0
  support_rem : ∀ (md : ℝ) (r : ℝ × ℝ), ¬ (0 < r.1 ∧ r.2 / r.1 < md) → remI md r = 0 ∧ remJ md r = 0
  rem_mean : ∀ (md : ℝ) (r : ℝ × ℝ), 0 < r.1 → remJ md r = (r.2 / r.1) * remI md r
  weight : ∀ (md : ℝ) (b : StarBin ℝ) (p1 p15 p2 p25 : ℝ), b.moments = some (p1, p15, p2, p25) →
    p2 / p1 < md → 0 < md → 0 < b.lo → b.lo < b.hi →
    b.Is md = ∫ x in b.lo..b.hi, (b.n / p1) * x ^ b.a * (1 - √(x / md))
  slopes : ∀ (md B : ℝ) (b : StarBin ℝ), 0 < b.lo → 0 < b.hi → 0 < md →
    B * b.dalphaUnit md = (B * (1 - √(b.hi / md)) - B * (1 - √(b.lo / md))) / (Real.log b.hi - Real.log b.lo)
  /-- integrated over time: a total number whose rate is (stellar-evolution part, zero when every remnant is retained — C02) +
      (escape part, equal to the requested rate by `pre_N`/`post_N`) satisfies `N(t1) = N(t0) + ∫ rate` along an exact solution -/
  integrated : ∀ (Ntot rate : ℝ → ℝ) (t0 t1 : ℝ), t0 ≤ t1 → ContinuousOn rate (Set.Icc t0 t1) →
    (∀ t ∈ Set.Icc t0 t1, HasDerivAt Ntot (0 + rate t) t) → Ntot t1 = Ntot t0 + ∫ t in t0..t1, rate t
  /-- the identities above need a non-zero normalisation; without any depletable bin nothing is removed (known finding) -/
  nothing_depletable : ∀ (normM : Bool) (rate md : ℝ) (stars : List (StarBin ℝ)) (rems : List (ℝ × ℝ)),
    (∀ b ∈ stars, b.depl md = false) → (∀ r ∈ rems, ¬ (0 < r.1 ∧ r.2 / r.1 < md)) →
    (∀ x ∈ (escPost normM rate md stars rems).1, x = 0) ∧ (∀ x ∈ (escPost normM rate md stars rems).2.1, x = 0) ∧
    (∀ r ∈ (escPost normM rate md stars rems).2.2, r = (0, 0))
  zero : ∀ (normM : Bool) (t tcc md : ℝ) (stars : List (StarBin ℝ)) (rems : List (ℝ × ℝ)),
    (∀ x ∈ (derivsEsc normM t tcc 0 md stars rems).1, x = 0) ∧
    (∀ x ∈ (derivsEsc normM t tcc 0 md stars rems).2.1, x = 0) ∧
    (∀ r ∈ (derivsEsc normM t tcc 0 md stars rems).2.2, r = (0, 0))

/-- **C03 (partial)**: exact identities of the derivative. Not an identity of the model (and measured instead): for
    norm 'M' after core collapse the mass change *implied by the evolving slopes* equals the rate only to second order
    in the bins' log-width (the slope rule is a secant). The time-integrated clause is `integrated`, for exact solutions. -/
theorem C03_partial : Statement where
  source_pre := Bridge.gen_escPre
  source_Is := Bridge.gen_Is
  source_Js := fun md b => ⟨Bridge.gen_Js_a md b, Bridge.gen_Js_b md b⟩
  source_rem := fun md r => ⟨Bridge.gen_remI md r, Bridge.gen_remJ md r⟩
  source_B := Bridge.gen_escB
  source_post := Bridge.gen_post_entries
  pre_N := pre_N_sum
  pre_M := pre_M_sum
  pre_uniform := pre_uniform
  nothing_depletable := nothing_depletable
  integrated := fun Ntot rate t0 t1 hle hr h =>
    Conserve.eq_integral_of_rate Ntot rate t0 t1 hle (fun t ht => by simpa using h t ht) hr
  post_N := post_N_sum
  post_M := post_M_sum
  support_star := post_support_star
  support_rem := post_support_rem
  rem_mean := rem_mean_preserved
  weight := Is_eq_integral
  slopes := dalpha_is_edge_secant
  zero := zero_rate

end Model.C03
