import SspModel.Lemmas.Pk
import SspModel.Lemmas.Life
import SspModel.Lemmas.Bridge.Sev
import SspModel.Model.Sev
import SspModel.Lemmas.Conserve
import SspModel.Props.C13
import SspModel.Props.C12
/-!
# C02 — stellar evolution turns stars into remnants without creating or losing any

`derivsSev` returns the single non-zero star entry (`isev`, `dNs`) and the single non-zero remnant entry
(`class`, `bin`, `dNr`, `dMr`) of the derivative; every other entry of the packed derivative (all slopes included)
is zero by construction of the output type — the correspondence compares exactly this support with the real array.
-/
namespace Model.C02
open Model

theorem sevDNdm_nonneg (nmin Nj aj m1 mto : ℝ) (hn : 0 ≤ nmin) (hm : 0 < mto) :
    0 ≤ (sevDNdm nmin Nj aj m1 mto).1 := by
  unfold sevDNdm
  split
  · rename_i hc
    simp only [Bool.and_eq_true, real_lt] at hc
    split
    · rename_i p hp
      have hp0 : 0 < p := C12.Pk_never_nonpos aj 1 m1 mto p (by simpa [real_one] using hp)
      have hN : 0 < Nj := lt_of_le_of_lt hn hc.2
      simp only [real_rpow]
      have := Real.rpow_pos_of_pos hm aj
      positivity
    · simp
  · simp

/-- first-match semantics of `np.where(t > tms_u)[0][0]` -/
theorem firstTurnedOff_spec (xs : List ℝ) (t : ℝ) (k i : Nat) (h : firstTurnedOff xs t k = some i) :
    k ≤ i ∧ i - k < xs.length ∧ xs.getD (i - k) 0 < t ∧ ∀ j, j < i - k → ¬ xs.getD j 0 < t := by
  induction xs generalizing k with
  | nil => simp [firstTurnedOff] at h
  | cons x xs ih =>
    simp only [firstTurnedOff, Scalar.lt] at h
    split at h
    · rename_i hx
      cases h
      simp only [decide_eq_true_eq] at hx
      simp [hx]
    · rename_i hx
      simp only [decide_eq_true_eq] at hx
      obtain ⟨h1, h2, h3, h4⟩ := ih (k + 1) h
      have e : i - k = (i - (k + 1)) + 1 := by omega
      refine ⟨by omega, by rw [e]; simpa using h2, by rw [e]; simpa using h3, ?_⟩
      intro j hj
      cases j with
      | zero => simpa using hx
      | succ j => simpa using h4 j (by omega)

structure SevSpec (c : SevCfg ℝ) (t : ℝ) (o : SevOut ℝ) : Prop where
  /-- per-bin star counts never grow -/
  nonpos : o.dNs ≤ 0
  /-- before any bin has turned off nothing changes -/
  quiet : o.isev = none → o.dNs = 0 ∧ o.rem = none
  /-- stars leave only the first bin whose upper edge has already turned off -/
  which : ∀ i, o.isev = some i → i < c.tmsU.length ∧ c.tmsU.getD i 0 < t ∧ ∀ j, j < i → ¬ c.tmsU.getD j 0 < t
  /-- every star that leaves re-appears as a remnant of the class and bin dictated by the IFMR, scaled by the
      retention fraction, carrying the IFMR remnant mass -/
  balance : ∀ cls i dNr dMr, o.rem = some (cls, i, dNr, dMr) →
    let mto := mtoFin c.a0 c.a1 c.a2 t
    cls = predictType c.ifmr mto ∧
    determineIndex (c.remBins cls) (predict c.ifmr mto) = .ok i ∧
    dNr = c.frem cls * (-o.dNs) ∧ dMr = predict c.ifmr mto * dNr ∧ 0 < predict c.ifmr mto
  /-- nothing is deposited only when nothing leaves or the remnant has no mass -/
  skipped : o.rem = none → o.dNs = 0 ∨ predict c.ifmr (mtoFin c.a0 c.a1 c.a2 t) ≤ 0

theorem sev_spec (c : SevCfg ℝ) (t : ℝ) (Ns alpha : List ℝ) (o : SevOut ℝ) (hn : 0 ≤ c.nmin)
    (hm : c.a0 < t → 0 < mtoFin c.a0 c.a1 c.a2 t) (hlast : ∀ x, c.tmsU.getLast? = some x → c.a0 ≤ x)
    (h : derivsSev c t Ns alpha = .ok o) : SevSpec c t o := by
  unfold derivsSev at h
  split at h
  · cases h; exact ⟨by simp, fun _ => ⟨by simp, rfl⟩, by simp, by simp, fun _ => Or.inl (by simp)⟩
  · rename_i tlast hgl
    simp only [Scalar.lt, real_zero] at h
    split at h
    · rename_i htl
      simp only [decide_eq_true_eq] at htl
      have ht : c.a0 < t := lt_of_le_of_lt (hlast tlast hgl) htl
      have hmto := hm ht
      split at h
      · cases h; exact ⟨by simp, fun _ => ⟨by simp, rfl⟩, by simp, by simp, fun _ => Or.inl (by simp)⟩
      · rename_i isev hfirst
        have hfl := sevDNdm_nonneg c.nmin (Ns.getD isev 0) (alpha.getD isev 0) (c.ms.getD isev (0, 0)).1
          (mtoFin c.a0 c.a1 c.a2 t) hn hmto
        have habs : 0 ≤ dmdtAbs c.a0 c.a1 c.a2 t := by unfold dmdtAbs; rw [real_abs]; exact abs_nonneg _
        have hdN : -(sevDNdm c.nmin (Ns.getD isev 0) (alpha.getD isev 0) (c.ms.getD isev (0, 0)).1
            (mtoFin c.a0 c.a1 c.a2 t)).1 * dmdtAbs c.a0 c.a1 c.a2 t ≤ 0 := by nlinarith
        obtain ⟨_, f2, f3, f4⟩ := firstTurnedOff_spec c.tmsU t 0 isev hfirst
        simp only [Nat.sub_zero] at f2 f3 f4
        split at h
        · rename_i hcond
          simp only [Bool.and_eq_true, decide_eq_true_eq] at hcond
          split at h
          · rename_i irem hidx
            cases h
            refine ⟨hdN, by simp, ?_, ?_, by simp⟩
            · intro i hi; cases hi; exact ⟨f2, f3, f4⟩
            · intro cls i dNr dMr hrem
              cases hrem
              refine ⟨rfl, hidx, by ring, by ring, hcond.2⟩
          · cases h
        · rename_i hcond
          cases h
          refine ⟨hdN, by simp, ?_, by simp, ?_⟩
          · intro i hi; cases hi; exact ⟨f2, f3, f4⟩
          · intro _
            simp only [Bool.and_eq_true, decide_eq_true_eq, not_and_or, not_lt] at hcond
            rcases hcond with h1 | h2
            · left; exact le_antisymm hdN h1
            · right; exact h2
    · cases h; exact ⟨by simp, fun _ => ⟨by simp, rfl⟩, by simp, by simp, fun _ => Or.inl (by simp)⟩

/-- consequences for the packed derivative: objects are conserved (with all remnants retained), mass is never gained -/
theorem sev_conservation (c : SevCfg ℝ) (t : ℝ) (o : SevOut ℝ) (hs : SevSpec c t o)
    (hfrem : ∀ cls, 0 ≤ c.frem cls ∧ c.frem cls ≤ 1)
    (hle : predict c.ifmr (mtoFin c.a0 c.a1 c.a2 t) ≤ mtoFin c.a0 c.a1 c.a2 t) :
    ∀ cls i dNr dMr, o.rem = some (cls, i, dNr, dMr) →
      0 ≤ dNr ∧ dNr ≤ -o.dNs ∧ (c.frem cls = 1 → o.dNs + dNr = 0) ∧
      0 ≤ dMr ∧ dMr ≤ mtoFin c.a0 c.a1 c.a2 t * (-o.dNs) := by
  intro cls i dNr dMr hrem
  obtain ⟨_, _, hN, hM, hpos⟩ := hs.balance cls i dNr dMr hrem
  have hnp := hs.nonpos
  obtain ⟨hf0, hf1⟩ := hfrem cls
  have hdNr0 : 0 ≤ dNr := by rw [hN]; nlinarith
  have hdNr1 : dNr ≤ -o.dNs := by rw [hN]; nlinarith
  refine ⟨hdNr0, hdNr1, fun h1 => by rw [hN, h1]; ring, by rw [hM]; positivity, ?_⟩
  rw [hM]
  calc predict c.ifmr (mtoFin c.a0 c.a1 c.a2 t) * dNr
      ≤ mtoFin c.a0 c.a1 c.a2 t * dNr := mul_le_mul_of_nonneg_right hle hdNr0
    _ ≤ mtoFin c.a0 c.a1 c.a2 t * (-o.dNs) := by
        apply mul_le_mul_of_nonneg_left hdNr1
        linarith [hpos, hle]

/-- the turn-off bin is the bin containing the turn-off mass: upper edge already turned off, lower edge not yet -/
theorem turnoff_bin_contains_mto (a0 a1 a2 t lo hi : ℝ) (h0 : 0 < a0) (h1 : 0 < a1) (h2 : a2 < 0) (ht : a0 < t)
    (hlo : 0 < lo) (hhi : 0 < hi) (hup : tms a0 a1 a2 hi < t) (hdn : ¬ tms a0 a1 a2 lo < t) :
    lo ≤ mtoFin a0 a1 a2 t ∧ mtoFin a0 a1 a2 t < hi := by
  have hmpos := mtoFin_pos a0 a1 a2 t h0 h1 ht
  have hanti := tms_strictAntiOn a0 a1 a2 h0 h1 h2
  have hinv := tms_mto a0 a1 a2 t h0 h1 h2.ne ht
  constructor
  · by_contra hcon
    rw [not_le] at hcon
    have := hanti (Set.mem_Ioi.2 hmpos) (Set.mem_Ioi.2 hlo) hcon
    rw [hinv] at this
    exact hdn this
  · by_contra hcon
    rw [not_lt] at hcon
    rcases eq_or_lt_of_le hcon with heq | hlt
    · rw [heq, hinv] at hup; exact lt_irrefl _ hup
    · have := hanti (Set.mem_Ioi.2 hhi) (Set.mem_Ioi.2 hmpos) hlt
      rw [hinv] at this
      linarith

/-! ## along an exact solution -/

/-- the only two non-zero entries of the number part of the derivative -/
noncomputable def numberRate (o : SevOut ℝ) : ℝ := o.dNs + (match o.rem with | some (_, _, dN, _) => dN | none => 0)
/-- rate of the total mass: the leaving stars carry the turn-off mass, the remnants arrive with the IFMR mass -/
noncomputable def massRate (c : SevCfg ℝ) (t : ℝ) (o : SevOut ℝ) : ℝ :=
  mtoFin c.a0 c.a1 c.a2 t * o.dNs + (match o.rem with | some (_, _, _, dM) => dM | none => 0)

theorem numberRate_zero (c : SevCfg ℝ) (t : ℝ) (o : SevOut ℝ) (hs : SevSpec c t o) (hfull : ∀ cls, c.frem cls = 1)
    (hpos : 0 < predict c.ifmr (mtoFin c.a0 c.a1 c.a2 t)) : numberRate o = 0 := by
  unfold numberRate
  cases hr : o.rem with
  | none =>
    rcases hs.skipped hr with h | h
    · simp [h]
    · linarith
  | some v =>
    obtain ⟨cls, i, dN, dM⟩ := v
    obtain ⟨_, _, hN, _, _⟩ := hs.balance cls i dN dM hr
    simp only
    rw [hN, hfull cls]; ring

theorem massRate_nonpos (c : SevCfg ℝ) (t : ℝ) (o : SevOut ℝ) (hs : SevSpec c t o)
    (hfrem : ∀ cls, 0 ≤ c.frem cls ∧ c.frem cls ≤ 1) (hm : 0 < mtoFin c.a0 c.a1 c.a2 t)
    (hle : predict c.ifmr (mtoFin c.a0 c.a1 c.a2 t) ≤ mtoFin c.a0 c.a1 c.a2 t) : massRate c t o ≤ 0 := by
  unfold massRate
  cases hr : o.rem with
  | none =>
    have := hs.nonpos
    simp only [add_zero]
    nlinarith
  | some v =>
    obtain ⟨cls, i, dN, dM⟩ := v
    have := (sev_conservation c t o hs hfrem hle cls i dN dM hr).2.2.2.2
    simp only
    linarith

/-- **objects are conserved** along an exact solution when every class is fully retained (and remnants have mass) -/
theorem number_conserved (c : SevCfg ℝ) (t0 t1 : ℝ) (Ntot : ℝ → ℝ) (out : ℝ → SevOut ℝ)
    (hspec : ∀ t ∈ Set.Icc t0 t1, SevSpec c t (out t)) (hfull : ∀ cls, c.frem cls = 1)
    (hpos : ∀ t ∈ Set.Icc t0 t1, 0 < predict c.ifmr (mtoFin c.a0 c.a1 c.a2 t))
    (hrate : ∀ t ∈ Set.Icc t0 t1, HasDerivAt Ntot (numberRate (out t)) t) :
    ∀ t ∈ Set.Icc t0 t1, Ntot t = Ntot t0 := by
  apply Conserve.const_of_rate_zero
  intro t ht
  have := hrate t ht
  rwa [numberRate_zero c t (out t) (hspec t ht) hfull (hpos t ht)] at this

/-- **per-bin star counts never grow** along an exact solution -/
theorem stars_never_grow (c : SevCfg ℝ) (t0 t1 : ℝ) (Nj : ℝ → ℝ) (j : Nat) (out : ℝ → SevOut ℝ)
    (hspec : ∀ t ∈ Set.Icc t0 t1, SevSpec c t (out t))
    (hrate : ∀ t ∈ Set.Icc t0 t1, HasDerivAt Nj (if (out t).isev = some j then (out t).dNs else 0) t) :
    AntitoneOn Nj (Set.Icc t0 t1) := by
  apply Conserve.antitone_of_rate_nonpos Nj _ t0 t1 hrate
  intro t ht
  split
  · exact (hspec t ht).nonpos
  · exact le_rfl

/-- **the total mass never increases** along an exact solution -/
theorem mass_never_gained (c : SevCfg ℝ) (t0 t1 : ℝ) (Mtot : ℝ → ℝ) (out : ℝ → SevOut ℝ)
    (hspec : ∀ t ∈ Set.Icc t0 t1, SevSpec c t (out t)) (hfrem : ∀ cls, 0 ≤ c.frem cls ∧ c.frem cls ≤ 1)
    (hm : ∀ t ∈ Set.Icc t0 t1, 0 < mtoFin c.a0 c.a1 c.a2 t)
    (hle : ∀ t ∈ Set.Icc t0 t1, predict c.ifmr (mtoFin c.a0 c.a1 c.a2 t) ≤ mtoFin c.a0 c.a1 c.a2 t)
    (hrate : ∀ t ∈ Set.Icc t0 t1, HasDerivAt Mtot (massRate c t (out t)) t) :
    AntitoneOn Mtot (Set.Icc t0 t1) :=
  Conserve.antitone_of_rate_nonpos Mtot _ t0 t1 hrate
    (fun t ht => massRate_nonpos c t (out t) (hspec t ht) hfrem (hm t ht) (hle t ht))

structure Statement : Prop where
  spec : ∀ (c : SevCfg ℝ) (t : ℝ) (Ns alpha : List ℝ) (o : SevOut ℝ), 0 ≤ c.nmin →
    (c.a0 < t → 0 < mtoFin c.a0 c.a1 c.a2 t) → (∀ x, c.tmsU.getLast? = some x → c.a0 ≤ x) →
    derivsSev c t Ns alpha = .ok o → SevSpec c t o
  conservation : ∀ (c : SevCfg ℝ) (t : ℝ) (o : SevOut ℝ), SevSpec c t o →
    (∀ cls, 0 ≤ c.frem cls ∧ c.frem cls ≤ 1) →
    predict c.ifmr (mtoFin c.a0 c.a1 c.a2 t) ≤ mtoFin c.a0 c.a1 c.a2 t →
    ∀ cls i dNr dMr, o.rem = some (cls, i, dNr, dMr) →
      0 ≤ dNr ∧ dNr ≤ -o.dNs ∧ (c.frem cls = 1 → o.dNs + dNr = 0) ∧
      0 ≤ dMr ∧ dMr ≤ mtoFin c.a0 c.a1 c.a2 t * (-o.dNs)
  contains : ∀ a0 a1 a2 t lo hi : ℝ, 0 < a0 → 0 < a1 → a2 < 0 → a0 < t → 0 < lo → 0 < hi →
    tms a0 a1 a2 hi < t → ¬ tms a0 a1 a2 lo < t → lo ≤ mtoFin a0 a1 a2 t ∧ mtoFin a0 a1 a2 t < hi
  /-- trajectory corollaries, for exact solutions of the ODE -/
  conserved : ∀ (c : SevCfg ℝ) (t0 t1 : ℝ) (Ntot : ℝ → ℝ) (out : ℝ → SevOut ℝ),
    (∀ t ∈ Set.Icc t0 t1, SevSpec c t (out t)) → (∀ cls, c.frem cls = 1) →
    (∀ t ∈ Set.Icc t0 t1, 0 < predict c.ifmr (mtoFin c.a0 c.a1 c.a2 t)) →
    (∀ t ∈ Set.Icc t0 t1, HasDerivAt Ntot (numberRate (out t)) t) → ∀ t ∈ Set.Icc t0 t1, Ntot t = Ntot t0
  never_grow : ∀ (c : SevCfg ℝ) (t0 t1 : ℝ) (Nj : ℝ → ℝ) (j : Nat) (out : ℝ → SevOut ℝ),
    (∀ t ∈ Set.Icc t0 t1, SevSpec c t (out t)) →
    (∀ t ∈ Set.Icc t0 t1, HasDerivAt Nj (if (out t).isev = some j then (out t).dNs else 0) t) → AntitoneOn Nj (Set.Icc t0 t1)
  mass : ∀ (c : SevCfg ℝ) (t0 t1 : ℝ) (Mtot : ℝ → ℝ) (out : ℝ → SevOut ℝ),
    (∀ t ∈ Set.Icc t0 t1, SevSpec c t (out t)) → (∀ cls, 0 ≤ c.frem cls ∧ c.frem cls ≤ 1) →
    (∀ t ∈ Set.Icc t0 t1, 0 < mtoFin c.a0 c.a1 c.a2 t) →
    (∀ t ∈ Set.Icc t0 t1, predict c.ifmr (mtoFin c.a0 c.a1 c.a2 t) ≤ mtoFin c.a0 c.a1 c.a2 t) →
    (∀ t ∈ Set.Icc t0 t1, HasDerivAt Mtot (massRate c t (out t)) t) → AntitoneOn Mtot (Set.Icc t0 t1)
  /-- the model's flux and deposit entries are the expressions of `_derivs_sev` in the source now -/
  source_flux : ∀ nmin Nj aj m1 mto : ℝ, sevDNdm nmin Nj aj m1 mto =
      if Generated.sev_active mto m1 Nj nmin then
        (match Pk aj 1 m1 mto with
         | some p => (Generated.sev_dNdm (Generated.sev_Aj Nj p) mto aj, true)
         | none => (0, false))
      else (0, true)
  source_entries : ∀ dNdm dmdt dNdt mrem frem : ℝ,
    Generated.sev_dNdt dNdm dmdt = -dNdm * dmdt ∧ Generated.sev_dNr dNdt frem = -dNdt * frem ∧
    Generated.sev_dMr mrem dNdt frem = -mrem * dNdt * frem ∧
    Generated.sev_gate mrem dNdt = (Scalar.lt dNdt 0 && Scalar.lt 0 mrem)
  source_frem : ∀ x : ℝ, Generated.sev_frem_is_table_entry x = 1
  /-- the sweep speed in the flux is the source's expression -/
  speed : ∀ a0 a1 a2 t : ℝ, Generated.dmdt_sev a0 a1 a2 t = dmdtAbs a0 a1 a2 t

/-- **C02 (partial)**: instantaneous statements and their trajectory corollaries for *exact* solutions (objects conserved, star bins
    never grow, total mass never gained; that the stars' mass changes at `m_to·dNs` is `C01.star_mass_rate`). dopri5 is outside Lean:
    the same clauses are observed on its output rows. -/
theorem C02_partial : Statement where
  spec := fun c t Ns alpha o hn hm hl h => sev_spec c t Ns alpha o hn hm hl h
  conservation := sev_conservation
  contains := turnoff_bin_contains_mto
  source_flux := Bridge.gen_sevDNdm
  source_entries := Bridge.gen_sev_entries
  source_frem := Bridge.gen_frem_is_table_entry
  conserved := number_conserved
  never_grow := stars_never_grow
  mass := mass_never_gained
  speed := Bridge.gen_dmdt_sev

end Model.C02
