import SspModel.Lemmas.Pk
import SspModel.Lemmas.Life
import SspModel.Model.Closed
import SspModel.Props.C02
import SspModel.Props.C06
import Mathlib.MeasureTheory.Integral.IntervalIntegral.FundThmCalculus
/-!
# C01 — without escape, the evolved population equals its closed-form value

`ClosedBin.stars` / `closedRemnants` (Model/Closed) are the specification. The theorems show that the specification solves
the ODE the code integrates (`derivsSev`), segment by segment; that dopri5 approximates that solution is an assumption
(monitored by the end-to-end correspondence at default and tightened tolerance).
-/
namespace Model.C01
open Model intervalIntegral

/-- d/dm ∫_m^hi x^(α+k−1) = −m^(α+k−1): a moving *lower* edge -/
theorem PkCore_hasDerivAt_lower (α k m hi : ℝ) (hm : 0 < m) (hhi : 0 < hi) :
    HasDerivAt (fun x => PkCore α k x hi) (-(m ^ (α + k - 1))) m := by
  have hfun : (fun x => PkCore α k x hi) =
      fun x => if -α = k then Real.log (hi / x) else (hi ^ (α + k) - x ^ (α + k)) / (α + k) := by
    funext x; rw [PkCore_real]
  rw [hfun]
  by_cases h : -α = k
  · simp only [h, if_true]
    have hk : α + k - 1 = -1 := by linarith
    rw [hk, Real.rpow_neg_one]
    have h1 : HasDerivAt (fun x : ℝ => hi / x) (-hi / m ^ 2) m := by
      have := (hasDerivAt_const m hi).div (hasDerivAt_id m) hm.ne'
      refine this.congr_deriv ?_
      simp
    have h2 := h1.log (by positivity)
    refine h2.congr_deriv ?_
    have hm' := hm.ne'
    have hhi' := hhi.ne'
    field_simp
  · simp only [h, if_false]
    have hne : α + k ≠ 0 := by intro h0; apply h; linarith
    have h1 : HasDerivAt (fun x : ℝ => x ^ (α + k)) ((α + k) * m ^ (α + k - 1)) m :=
      Real.hasDerivAt_rpow_const (Or.inl hm.ne')
    have h2 := ((hasDerivAt_const m (hi ^ (α + k))).sub h1).div_const (α + k)
    refine h2.congr_deriv ?_
    field_simp
    ring

/-- d/dm ∫_lo^m x^(α+k−1) = m^(α+k−1): a moving *upper* edge, any moment -/
theorem PkCore_hasDerivAt_upper_k (α k lo m : ℝ) (hlo : 0 < lo) (hm : 0 < m) :
    HasDerivAt (fun x => PkCore α k lo x) (m ^ (α + k - 1)) m := by
  have hfun : (fun x => PkCore α k lo x) =
      fun x => if -α = k then Real.log (x / lo) else (x ^ (α + k) - lo ^ (α + k)) / (α + k) := by
    funext x; rw [PkCore_real]
  rw [hfun]
  by_cases h : -α = k
  · simp only [h, if_true]
    have hk : α + k - 1 = -1 := by linarith
    rw [hk, Real.rpow_neg_one]
    have h1 : HasDerivAt (fun x : ℝ => x / lo) (1 / lo) m := by
      simpa using (hasDerivAt_id m).div_const lo
    have h2 := h1.log (by positivity)
    refine h2.congr_deriv ?_
    field_simp
  · simp only [h, if_false]
    have hne : α + k ≠ 0 := by intro h0; apply h; linarith
    have h1 : HasDerivAt (fun x : ℝ => x ^ (α + k)) ((α + k) * m ^ (α + k - 1)) m :=
      Real.hasDerivAt_rpow_const (Or.inl hm.ne')
    have h2 := (h1.sub (hasDerivAt_const m (lo ^ (α + k)))).div_const (α + k)
    refine h2.congr_deriv ?_
    rw [sub_zero]
    field_simp

/-- the stellar mass of the draining bin, `A·Pk(α,2,l,m_to(t))`, changes at `m_to·(dN/dt)`: every star that leaves carries the
    turn-off mass (this is the stellar term of `C02.massRate`) -/
theorem star_mass_rate (A al l a0 a1 a2 t : ℝ) (h0 : 0 < a0) (h1 : 0 < a1) (h2 : a2 < 0) (ht : a0 < t) (hl : 0 < l) :
    HasDerivAt (fun s => A * PkCore al 2 l (mtoFin a0 a1 a2 s))
      (mtoFin a0 a1 a2 t * (A * (mtoFin a0 a1 a2 t) ^ al * dmdtRaw a0 a1 a2 t)) t := by
  have hm0 : 0 < mtoFin a0 a1 a2 t := mtoFin_pos a0 a1 a2 t h0 h1 ht
  have hd := mto_hasDerivAt a0 a1 a2 t h0 h1 h2.ne ht
  have hcomp := ((PkCore_hasDerivAt_upper_k al 2 l _ hl hm0).comp t hd).const_mul A
  refine hcomp.congr_deriv ?_
  have e : al + 2 - 1 = al + 1 := by ring
  rw [e, Real.rpow_add_one hm0.ne']
  ring

/-- **the closed-form star count solves the code's ODE while the bin is draining**: with `N(s) = A·Pk(α,1,l,mto s)`,
    `N'(t) = −(N/Pk)·mto^α·|mto'(t)|`, which is exactly `−sevDNdm · dmdtAbs` of `derivsSev` at that state -/
theorem closed_star_solves (A al l a0 a1 a2 t nmin : ℝ) (h0 : 0 < a0) (h1 : 0 < a1) (h2 : a2 < 0) (ht : a0 < t)
    (hl : 0 < l) (hm : l < mtoFin a0 a1 a2 t)
    (hact : nmin < A * PkCore al 1 l (mtoFin a0 a1 a2 t))
    (hres : (resolution : ℝ) ≤ PkCore al 1 l (mtoFin a0 a1 a2 t)) :
    HasDerivAt (fun s => A * PkCore al 1 l (mtoFin a0 a1 a2 s))
      (-(sevDNdm nmin (A * PkCore al 1 l (mtoFin a0 a1 a2 t)) al l (mtoFin a0 a1 a2 t)).1 * dmdtAbs a0 a1 a2 t) t := by
  set m := mtoFin a0 a1 a2 t with hmdef
  have hm0 : 0 < m := lt_trans hl hm
  have hd := mto_hasDerivAt a0 a1 a2 t h0 h1 h2.ne ht
  have hneg := dmdtRaw_neg a0 a1 a2 t h0 h1 h2 ht
  have hcomp := (PkCore_hasDerivAt_upper al l m hl hm0).comp t hd
  have hmul := hcomp.const_mul A
  have hP : 0 < PkCore al 1 l m := PkCore_pos al 1 l m hl hm
  -- what the derivative function computes at this state
  have hsev : (sevDNdm nmin (A * PkCore al 1 l m) al l m).1 = (A * PkCore al 1 l m) / PkCore al 1 l m * m ^ al := by
    unfold sevDNdm
    have c1 : Scalar.lt l m = true := by rw [real_lt]; exact hm
    have c2 : Scalar.lt nmin (A * PkCore al 1 l m) = true := by rw [real_lt]; exact hact
    simp only [c1, c2, Bool.and_self, if_true, real_one]
    rw [C12.Pk_some_of_ge al 1 l m hres]
    simp only [real_rpow]
  rw [hsev]
  have habs : dmdtAbs a0 a1 a2 t = -dmdtRaw a0 a1 a2 t := by
    unfold dmdtAbs; rw [real_abs, abs_of_neg hneg]
  rw [habs]
  refine hmul.congr_deriv ?_
  field_simp

/-- what `sevDNdm` returns for an active bin (turn-off mass inside, more than `nmin` stars, truncated bin above `Pk`'s resolution) -/
theorem sevDNdm_active (nmin Nj al l m : ℝ) (hm : l < m) (hact : nmin < Nj) (hres : (resolution : ℝ) ≤ PkCore al 1 l m) :
    (sevDNdm nmin Nj al l m).1 = Nj / PkCore al 1 l m * m ^ al := by
  unfold sevDNdm
  have c1 : Scalar.lt l m = true := by rw [real_lt]; exact hm
  have c2 : Scalar.lt nmin Nj = true := by rw [real_lt]; exact hact
  simp only [c1, c2, Bool.and_self, if_true, real_one]
  rw [C12.Pk_some_of_ge al 1 l m hres]
  simp only [real_rpow]

/-- **uniqueness while the bin is draining**: any `N` that obeys the code's ODE for the turn-off bin on `[t0, t1]` (more than `nmin`
    stars, truncated bin above `Pk`'s resolution throughout) and starts on the closed form stays on it: `N/Pk(α,1,l,m_to)` is conserved. -/
theorem closed_star_unique (A al l a0 a1 a2 t0 t1 nmin : ℝ) (N : ℝ → ℝ) (h0 : 0 < a0) (h1 : 0 < a1) (h2 : a2 < 0)
    (ht0 : a0 < t0) (hl : 0 < l)
    (hm : ∀ t ∈ Set.Icc t0 t1, l < mtoFin a0 a1 a2 t)
    (hact : ∀ t ∈ Set.Icc t0 t1, nmin < N t)
    (hres : ∀ t ∈ Set.Icc t0 t1, (resolution : ℝ) ≤ PkCore al 1 l (mtoFin a0 a1 a2 t))
    (hode : ∀ t ∈ Set.Icc t0 t1,
      HasDerivAt N (-(sevDNdm nmin (N t) al l (mtoFin a0 a1 a2 t)).1 * dmdtAbs a0 a1 a2 t) t)
    (hinit : N t0 = A * PkCore al 1 l (mtoFin a0 a1 a2 t0)) :
    ∀ t ∈ Set.Icc t0 t1, N t = A * PkCore al 1 l (mtoFin a0 a1 a2 t) := by
  set P : ℝ → ℝ := fun s => PkCore al 1 l (mtoFin a0 a1 a2 s) with hPdef
  have hPpos : ∀ t ∈ Set.Icc t0 t1, 0 < P t := fun t ht => PkCore_pos al 1 l _ hl (hm t ht)
  have hPd : ∀ t ∈ Set.Icc t0 t1, HasDerivAt P ((mtoFin a0 a1 a2 t) ^ al * dmdtRaw a0 a1 a2 t) t := by
    intro t ht
    have hta : a0 < t := lt_of_lt_of_le ht0 ht.1
    have hd := mto_hasDerivAt a0 a1 a2 t h0 h1 h2.ne hta
    exact (PkCore_hasDerivAt_upper al l _ hl (lt_trans hl (hm t ht))).comp t hd
  have hq : ∀ t ∈ Set.Icc t0 t1, HasDerivAt (fun s => N s / P s) 0 t := by
    intro t ht
    have hta : a0 < t := lt_of_lt_of_le ht0 ht.1
    have hneg := dmdtRaw_neg a0 a1 a2 t h0 h1 h2 hta
    have habs : dmdtAbs a0 a1 a2 t = -dmdtRaw a0 a1 a2 t := by
      unfold dmdtAbs; rw [real_abs, abs_of_neg hneg]
    have hN := hode t ht
    rw [sevDNdm_active nmin (N t) al l _ (hm t ht) (hact t ht) (hres t ht), habs] at hN
    have hdiv := hN.div (hPd t ht) (hPpos t ht).ne'
    refine hdiv.congr_deriv ?_
    have hP0 : P t ≠ 0 := (hPpos t ht).ne'
    have hP0' : PkCore al 1 l (mtoFin a0 a1 a2 t) ≠ 0 := hP0
    show _ = (0:ℝ)
    field_simp
    ring
  have hcont : ContinuousOn (fun s => N s / P s) (Set.Icc t0 t1) :=
    fun t ht => (hq t ht).continuousAt.continuousWithinAt
  have hconst := constant_of_has_deriv_right_zero hcont
    (fun t ht => (hq t ⟨ht.1, ht.2.le⟩).hasDerivWithinAt)
  intro t ht
  have e := hconst t ht
  have hP0 : P t ≠ 0 := (hPpos t ht).ne'
  by_cases hle : t0 ≤ t1
  · have ht0mem : t0 ∈ Set.Icc t0 t1 := ⟨le_rfl, hle⟩
    have hP00 : P t0 ≠ 0 := (hPpos t0 ht0mem).ne'
    have e' : N t / P t = N t0 / P t0 := e
    rw [hinit] at e'
    have hA : A * PkCore al 1 l (mtoFin a0 a1 a2 t0) / P t0 = A := by
      show A * P t0 / P t0 = A
      field_simp
    rw [hA, div_eq_iff hP0] at e'
    exact e'
  · exact absurd (le_trans ht.1 ht.2) hle

/-- the mass `m*` at which the bin is frozen: exactly `nmin` stars are left below it -/
theorem mStar_spec (b : ClosedBin ℝ) (nmin : ℝ) (hl : 0 < b.l) (hlu : b.l < b.u) (hA : 0 < b.A) (hn : 0 ≤ nmin) (hact : nmin < b.n0) :
    b.A * PkCore b.a 1 b.l (b.mStar nmin) = nmin := by
  unfold ClosedBin.mStar
  have c0 : Scalar.le b.n0 nmin = false := by rw [real_le_false]; linarith
  simp only [c0, Bool.false_eq_true, if_false, real_one]
  rw [PkCore_real]
  by_cases h : -b.a = 1
  · have c1 : Scalar.beq (-b.a) (1:ℝ) = true := by rw [real_beq]; exact h
    simp only [c1, if_true, real_exp]
    rw [if_pos h]
    have : b.l * Real.exp (nmin / b.A) / b.l = Real.exp (nmin / b.A) := by field_simp
    rw [this, Real.log_exp]; field_simp
  · have c1 : Scalar.beq (-b.a) (1:ℝ) = false := by rw [real_beq_false]; exact h
    have hne : b.a + 1 ≠ 0 := by intro h0; apply h; linarith
    simp only [c1, Bool.false_eq_true, if_false, real_rpow]
    rw [if_neg h]
    have hlp : 0 < b.l ^ (b.a + 1) := Real.rpow_pos_of_pos hl _
    have hup : 0 < b.u ^ (b.a + 1) := Real.rpow_pos_of_pos (lt_trans hl hlu) _
    have hn0 : b.n0 = b.A * ((b.u ^ (b.a + 1) - b.l ^ (b.a + 1)) / (b.a + 1)) := by
      unfold ClosedBin.n0; rw [PkCore_real]; simp only [real_one, h, if_false]
    have hbase : 0 < b.l ^ (b.a + 1) + (b.a + 1) * nmin / b.A := by
      rcases lt_or_gt_of_ne hne with hneg | hpos
      · rw [hn0] at hact
        have hpos' : 0 < -(b.a + 1) := by linarith
        have hdiv : (b.u ^ (b.a + 1) - b.l ^ (b.a + 1)) / (b.a + 1) = (b.l ^ (b.a + 1) - b.u ^ (b.a + 1)) / (-(b.a + 1)) := by
          rw [div_neg, ← neg_div, neg_sub]
        rw [hdiv] at hact
        have h3 : nmin < b.A * (b.l ^ (b.a + 1) / (-(b.a + 1))) := by
          calc nmin < b.A * ((b.l ^ (b.a + 1) - b.u ^ (b.a + 1)) / (-(b.a + 1))) := hact
            _ ≤ b.A * (b.l ^ (b.a + 1) / (-(b.a + 1))) := by
              apply mul_le_mul_of_nonneg_left _ hA.le
              apply div_le_div_of_nonneg_right _ hpos'.le
              linarith
        rw [← mul_div_assoc, lt_div_iff₀ hpos'] at h3
        have h4 : (b.a + 1) * nmin / b.A = -(nmin * (-(b.a + 1)) / b.A) := by ring
        rw [h4]
        have h5 : nmin * (-(b.a + 1)) / b.A < b.l ^ (b.a + 1) := by rw [div_lt_iff₀ hA]; linarith
        linarith
      · have : 0 ≤ (b.a + 1) * nmin / b.A := by positivity
        linarith
    rw [← Real.rpow_mul hbase.le]
    have : 1 / (b.a + 1) * (b.a + 1) = 1 := by field_simp
    rw [this, Real.rpow_one]
    field_simp
    ring

/-- the reported star count differs from the pure IMF integral by at most the `nmin` residue -/
theorem stars_residue (b : ClosedBin ℝ) (nmin m : ℝ) (hn : 0 ≤ nmin) (hlm : b.l < m) (hmu : m < b.u) (hl : 0 < b.l) (hA : 0 ≤ b.A) :
    b.A * PkCore b.a 1 b.l m ≤ b.stars nmin (some m) ∧ b.stars nmin (some m) ≤ b.A * PkCore b.a 1 b.l m + nmin := by
  have hstars : b.stars nmin (some m) = max (b.A * PkCore b.a 1 b.l m) (min nmin b.n0) := by
    unfold ClosedBin.stars
    have c0 : Scalar.le b.u m = false := by rw [real_le_false]; linarith
    have c1 : Scalar.lt b.l m = true := by rw [real_lt]; exact hlm
    simp only [c0, c1, Bool.false_eq_true, if_false, if_true, real_one]
    unfold maxS minS
    simp only [Scalar.lt]
    by_cases h1 : b.n0 < nmin
    · simp only [h1, decide_true, if_true, min_eq_right h1.le]
      by_cases h2 : b.A * PkCore b.a 1 b.l m < b.n0
      · simp only [h2, decide_true, if_true]; rw [max_eq_right h2.le]
      · simp only [h2, decide_false, Bool.false_eq_true, if_false]; rw [max_eq_left (not_lt.1 h2)]
    · simp only [h1, decide_false, Bool.false_eq_true, if_false, min_eq_left (not_lt.1 h1)]
      by_cases h2 : b.A * PkCore b.a 1 b.l m < nmin
      · simp only [h2, decide_true, if_true]; rw [max_eq_right h2.le]
      · simp only [h2, decide_false, Bool.false_eq_true, if_false]; rw [max_eq_left (not_lt.1 h2)]
  rw [hstars]
  have hc : 0 ≤ b.A * PkCore b.a 1 b.l m := mul_nonneg hA (PkCore_pos b.a 1 b.l m hl hlm).le
  refine ⟨le_max_left _ _, max_le (by linarith) ?_⟩
  have : min nmin b.n0 ≤ nmin := min_le_left _ _
  linarith

/-- a linear piece is integrated exactly: number and remnant mass of progenitors in `[p, q]` with remnant mass
    `yp + s·(m − p)` -/
theorem pieceNM_exact (b : ClosedBin ℝ) (p q yp yq : ℝ) (hp : 0 < p) (hpq : p < q) :
    (pieceNM b p q yp yq).1 = ∫ m in p..q, b.A * m ^ b.a ∧
    (pieceNM b p q yp yq).2 = ∫ m in p..q, (b.A * m ^ b.a) * (yp + (yq - yp) / (q - p) * (m - p)) := by
  unfold pieceNM
  simp only [real_one, real_two]
  have hI1 := PkCore_eq_integral b.a 1 p q hp hpq.le
  have hI2 := PkCore_eq_integral b.a 2 p q hp hpq.le
  have e1 : b.a + 1 - 1 = b.a := by ring
  have e2 : b.a + 2 - 1 = b.a + 1 := by ring
  rw [e1] at hI1; rw [e2] at hI2
  have i1 := rpow_intervalIntegrable b.a p q hp hpq.le
  have i2 := rpow_intervalIntegrable (b.a + 1) p q hp hpq.le
  constructor
  · rw [hI1, integral_const_mul]
  · have hsplit : ∀ m ∈ Set.uIcc p q, (b.A * m ^ b.a) * (yp + (yq - yp) / (q - p) * (m - p))
        = (yp - (yq - yp) / (q - p) * p) * b.A * m ^ b.a + (yq - yp) / (q - p) * b.A * m ^ (b.a + 1) := by
      intro m hm
      rw [Set.uIcc_of_le hpq.le] at hm
      have hm0 : 0 < m := lt_of_lt_of_le hp hm.1
      rw [Real.rpow_add_one hm0.ne']; ring
    rw [integral_congr hsplit, integral_add ((i1.const_mul _)) ((i2.const_mul _)), integral_const_mul, integral_const_mul,
      ← hI1, ← hI2]
    ring

/-- remnants appear at the rate stars leave: with the deposit target fixed (one class, one remnant bin),
    `Nr(s) = frem·A·Pk(α,1,mto s,hi)` has derivative `frem·(−N'_stars)` — the balance `derivsSev` implements (C02) -/
theorem deposit_tracks_flux (A al hi frem a0 a1 a2 t : ℝ) (h0 : 0 < a0) (h1 : 0 < a1) (h2 : a2 < 0) (ht : a0 < t) (hhi : 0 < hi) :
    HasDerivAt (fun s => frem * (A * PkCore al 1 (mtoFin a0 a1 a2 s) hi))
      (frem * (A * (mtoFin a0 a1 a2 t) ^ al * dmdtAbs a0 a1 a2 t)) t := by
  have hm0 := mtoFin_pos a0 a1 a2 t h0 h1 ht
  have hd := mto_hasDerivAt a0 a1 a2 t h0 h1 h2.ne ht
  have hneg := dmdtRaw_neg a0 a1 a2 t h0 h1 h2 ht
  have hlow := PkCore_hasDerivAt_lower al 1 (mtoFin a0 a1 a2 t) hi hm0 hhi
  have e : al + 1 - 1 = al := by ring
  rw [e] at hlow
  have hcomp := ((hlow.comp t hd).const_mul A).const_mul frem
  have habs : dmdtAbs a0 a1 a2 t = -dmdtRaw a0 a1 a2 t := by
    unfold dmdtAbs; rw [real_abs, abs_of_neg hneg]
  rw [habs]
  refine hcomp.congr_deriv ?_
  ring

/-- the class-wise branch used by the closed form is what `IFMR.predict` returns for a progenitor of that class -/
theorem predict_eq_predictAs (f : IfmrFn ℝ) (m : ℝ) : predict f m = predictAs f (predictType f m) m := by
  unfold predict predictType predictAs
  split <;> [rfl; (split <;> rfl)]

structure Statement : Prop where
  branch : ∀ (f : IfmrFn ℝ) (m : ℝ), predict f m = predictAs f (predictType f m) m
  star_solves : ∀ (A al l a0 a1 a2 t nmin : ℝ), 0 < a0 → 0 < a1 → a2 < 0 → a0 < t → 0 < l → l < mtoFin a0 a1 a2 t →
    nmin < A * PkCore al 1 l (mtoFin a0 a1 a2 t) → (resolution : ℝ) ≤ PkCore al 1 l (mtoFin a0 a1 a2 t) →
    HasDerivAt (fun s => A * PkCore al 1 l (mtoFin a0 a1 a2 s))
      (-(sevDNdm nmin (A * PkCore al 1 l (mtoFin a0 a1 a2 t)) al l (mtoFin a0 a1 a2 t)).1 * dmdtAbs a0 a1 a2 t) t
  /-- … and it is the only solution that starts on the closed form (no other trajectory satisfies the code's ODE) -/
  star_unique : ∀ (A al l a0 a1 a2 t0 t1 nmin : ℝ) (N : ℝ → ℝ), 0 < a0 → 0 < a1 → a2 < 0 → a0 < t0 → 0 < l →
    (∀ t ∈ Set.Icc t0 t1, l < mtoFin a0 a1 a2 t) → (∀ t ∈ Set.Icc t0 t1, nmin < N t) →
    (∀ t ∈ Set.Icc t0 t1, (resolution : ℝ) ≤ PkCore al 1 l (mtoFin a0 a1 a2 t)) →
    (∀ t ∈ Set.Icc t0 t1, HasDerivAt N (-(sevDNdm nmin (N t) al l (mtoFin a0 a1 a2 t)).1 * dmdtAbs a0 a1 a2 t) t) →
    N t0 = A * PkCore al 1 l (mtoFin a0 a1 a2 t0) →
    ∀ t ∈ Set.Icc t0 t1, N t = A * PkCore al 1 l (mtoFin a0 a1 a2 t)
  /-- the mass of the draining bin changes at `m_to` times its number rate -/
  star_mass : ∀ (A al l a0 a1 a2 t : ℝ), 0 < a0 → 0 < a1 → a2 < 0 → a0 < t → 0 < l →
    HasDerivAt (fun s => A * PkCore al 2 l (mtoFin a0 a1 a2 s))
      (mtoFin a0 a1 a2 t * (A * (mtoFin a0 a1 a2 t) ^ al * dmdtRaw a0 a1 a2 t)) t
  deposit : ∀ (A al hi frem a0 a1 a2 t : ℝ), 0 < a0 → 0 < a1 → a2 < 0 → a0 < t → 0 < hi →
    HasDerivAt (fun s => frem * (A * PkCore al 1 (mtoFin a0 a1 a2 s) hi))
      (frem * (A * (mtoFin a0 a1 a2 t) ^ al * dmdtAbs a0 a1 a2 t)) t
  residue : ∀ (b : ClosedBin ℝ) (nmin m : ℝ), 0 ≤ nmin → b.l < m → m < b.u → 0 < b.l → 0 ≤ b.A →
    b.A * PkCore b.a 1 b.l m ≤ b.stars nmin (some m) ∧ b.stars nmin (some m) ≤ b.A * PkCore b.a 1 b.l m + nmin
  piece : ∀ (b : ClosedBin ℝ) (p q yp yq : ℝ), 0 < p → p < q →
    (pieceNM b p q yp yq).1 = ∫ m in p..q, b.A * m ^ b.a ∧
    (pieceNM b p q yp yq).2 = ∫ m in p..q, (b.A * m ^ b.a) * (yp + (yq - yp) / (q - p) * (m - p))
  /-- integration is broken at every bin's turn-off time, so the turn-off bin is constant on each open segment -/
  grid : ∀ (tmsU tout : List ℝ) (t0 : ℝ) (ts : List ℝ), tout = t0 :: ts →
    ∀ x ∈ tmsU, x < maxL ts t0 → x ∈ integrationGrid tmsU tout

/-- **C01 (partial)**: (i) dopri5 is assumed to approximate the solution (budget measured at default and tightened tolerance);
    (ii) the deposit is proved segment-wise (class and remnant bin fixed); gluing over the finitely many crossing masses is
    done by the executable model (`closedRemnants`) with crossings found by bisection (checked by correspondence, not proved);
    (iii) uniqueness is proved for the draining star bin (`closed_star_unique`), the remnant bins then follow by C02's balance. -/
theorem C01_partial : Statement where
  branch := predict_eq_predictAs
  star_solves := closed_star_solves
  star_unique := closed_star_unique
  star_mass := star_mass_rate
  deposit := deposit_tracks_flux
  residue := stars_residue
  piece := pieceNM_exact
  grid := C06.grid_breaks_at_turnoffs

/-- the hypotheses of `closed_star_solves` are satisfiable: lifetime law `t = e^{1/m}` (a0 = a1 = 1, a2 = −1), age `e²` (turn-off mass 1/2),
    a flat bin from 1/4 with unit density and the 0.1-object threshold -/
example : ∃ (A al l a0 a1 a2 t nmin : ℝ), 0 < a0 ∧ 0 < a1 ∧ a2 < 0 ∧ a0 < t ∧ 0 < l ∧ l < mtoFin a0 a1 a2 t ∧
    nmin < A * PkCore al 1 l (mtoFin a0 a1 a2 t) ∧ (resolution : ℝ) ≤ PkCore al 1 l (mtoFin a0 a1 a2 t) := by
  have hm : mtoFin (1:ℝ) 1 (-1) (Real.exp 2) = 1 / 2 := by
    rw [mtoFin_real]
    simp only [div_one, Real.log_exp]
    rw [show (1:ℝ) / (-1) = -1 by norm_num, Real.rpow_neg_one]; norm_num
  have hP : PkCore (0:ℝ) 1 (1/4) (1/2) = 1 / 4 := by
    rw [PkCore_real]; norm_num
  refine ⟨(1:ℝ), (0:ℝ), (1/4 : ℝ), (1:ℝ), (1:ℝ), (-1 : ℝ), Real.exp 2, (1/10 : ℝ), by norm_num, by norm_num, by norm_num, ?_, by norm_num, ?_, ?_, ?_⟩
  · have := Real.add_one_lt_exp (show (2:ℝ) ≠ 0 by norm_num); linarith
  · rw [hm]; norm_num
  · rw [hm, hP]; norm_num
  · rw [hm, hP, resolution_real]; norm_num

end Model.C01
