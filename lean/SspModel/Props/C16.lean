import SspModel.Model.Purity
import SspModel.Generated.Mutations
/-!
# C16 — results depend only on the arguments: no hidden state, no argument mutation
-/
namespace Model.C16
open Model.Purity

/-- the generated mutation-site table in the model's vocabulary -/
def sites : List Site := Generated.mutations.map fun m => ⟨m.func, m.object, m.documented⟩

/-- every statement that can write to a parameter object belongs to a routine documented as working in place
    (re-derived from the source on every run) -/
theorem all_sites_documented : sites.all (·.documented) = true := by decide

theorem effect_id_of_no_site (ss : List Site) (s : Store) (c : Call) (h : ∀ site ∈ ss, site.func ≠ c.func) :
    effect ss s c = s := by
  unfold effect
  induction ss generalizing s with
  | nil => rfl
  | cons site t ih =>
    simp only [List.foldl_cons]
    have hne : site.func ≠ c.func := h site List.mem_cons_self
    simp only [hne, if_false]
    exact ih s (fun x hx => h x (List.mem_cons_of_mem _ hx))

/-- a history of calls to functions that are not documented in-place routines leaves every argument object unchanged -/
theorem constructors_pure (ss : List Site) (hdoc : ss.all (·.documented) = true) (s : Store) (calls : List Call)
    (hcalls : ∀ c ∈ calls, c.func ∉ documentedFuncs ss) : run ss s calls = s := by
  unfold run
  induction calls generalizing s with
  | nil => rfl
  | cons c t ih =>
    simp only [List.foldl_cons]
    have hc := hcalls c List.mem_cons_self
    have hno : ∀ site ∈ ss, site.func ≠ c.func := by
      intro site hs heq
      apply hc
      simp only [documentedFuncs, List.mem_map, List.mem_filter]
      have hd : site.documented = true := by
        have := List.all_eq_true.1 hdoc site hs; simpa using this
      exact ⟨site, ⟨hs, hd⟩, heq⟩
    rw [effect_id_of_no_site ss s c hno]
    exact ih s (fun c' hc' => hcalls c' (List.mem_cons_of_mem _ hc'))

/-- with no hidden state a call's result is a function of its arguments: repeating it anywhere in a history gives the same result -/
theorem repeat_identical {Arg Out : Type} (f : Arg → Out) (history : List Arg) (a : Arg) :
    ∀ i j, (hi : i < (history ++ [a]).length) → (hj : j < (history ++ [a]).length) →
      (history ++ [a])[i] = (history ++ [a])[j] → ((history ++ [a]).map f)[i]'(by simpa using hi) = ((history ++ [a]).map f)[j]'(by simpa using hj) := by
  intro i j hi hj h
  simp only [List.getElem_map, h]

structure Statement : Prop where
  table : sites.all (·.documented) = true
  pure : ∀ (s : Store) (calls : List Call), (∀ c ∈ calls, c.func ∉ documentedFuncs sites) → run sites s calls = s

/-- **C16 (partial)**: the alias analysis behind the table is syntactic (simple aliases of parameters); hidden state inside
    numpy/scipy and module-level state are only covered by the dynamic call-history check. -/
theorem C16_partial : Statement where
  table := all_sites_documented
  pure := fun s calls h => constructors_pure sites all_sites_documented s calls h

end Model.C16
