import SspModel.Lemmas.Pk
import SspModel.Lemmas.Bridge.Pk
/-!
# C12 — the power-law moment integral is exact, positive and additive

Property theorems only. The float-accuracy clause ("to 1e-9 relative accuracy") is about IEEE
rounding of `pow/log`, which the kernel cannot see; it is decided by the high-precision
reference in the harness (DESIGN §3.7) and is the reason the whole property is labelled partial.
-/
namespace Model.C12
open Model Scalar

/-- C12 over exact reals, as stated: for all slopes `a`, moments `k` and `0 < m1 < m2` -/
structure Statement : Prop where
  /-- the expressions in `masses.Pk`'s source now (both branches and the branch condition) are the model's `PkCore` -/
  source : ∀ a k m1 m2 : ℝ,
    (if Generated.pk_mask a k then Generated.pk_log a k m1 m2 else Generated.pk_main a k m1 m2) = PkCore a k m1 m2
  source_resolution : (Generated.resolution : ℝ) = Model.resolution
  /-- the helper returns ∫ m^(a+k-1) over [m1, m2] (log form when a+k = 0) -/
  exact : ∀ a k m1 m2 : ℝ, 0 < m1 → m1 < m2 →
    PkCore a k m1 m2 = ∫ x in m1..m2, x ^ (a + k - 1)
  /-- … the logarithmic form exactly when `a + k = 0` -/
  logForm : ∀ a k m1 m2 : ℝ, a + k = 0 → PkCore a k m1 m2 = Real.log (m2 / m1)
  /-- positive -/
  pos : ∀ a k m1 m2 : ℝ, 0 < m1 → m1 < m2 → 0 < PkCore a k m1 m2
  /-- additive over adjacent intervals -/
  additive : ∀ a k m1 m2 m3 : ℝ, 0 < m1 → m1 < m2 → m2 < m3 →
    PkCore a k m1 m2 + PkCore a k m2 m3 = PkCore a k m1 m3
  /-- implied mean mass inside the interval -/
  mean : ∀ a m1 m2 : ℝ, 0 < m1 → m1 < m2 →
    m1 < PkCore a 2 m1 m2 / PkCore a 1 m1 m2 ∧ PkCore a 2 m1 m2 / PkCore a 1 m1 m2 < m2
  /-- degenerate or inverted intervals yield NaN rather than a non-positive number -/
  degenerate : ∀ a k m1 m2 : ℝ, 0 < m2 → m2 ≤ m1 → Pk a k m1 m2 = none
  /-- whatever is returned is at least the resolution, hence positive: never a non-positive number -/
  never_nonpos : ∀ a k m1 m2 r : ℝ, Pk a k m1 m2 = some r → 0 < r
  /-- and a proper interval whose integral is representable is returned unchanged -/
  some_of_ge : ∀ a k m1 m2 : ℝ, (resolution : ℝ) ≤ PkCore a k m1 m2 →
    Pk a k m1 m2 = some (PkCore a k m1 m2)
  /-- array arguments are handled element-wise (each element picks its own branch) -/
  elementwise : ∀ (as m1s m2s : List ℝ) (k : ℝ) (i : Nat) (hi : i < as.length)
      (h1 : i < m1s.length) (h2 : i < m2s.length),
    (PkList as k m1s m2s)[i]? = some (Pk as[i] k m1s[i] m2s[i])

theorem logForm (a k m1 m2 : ℝ) (h : a + k = 0) : PkCore a k m1 m2 = Real.log (m2 / m1) := by
  rw [PkCore_real, if_pos (by linarith)]

theorem Pk_degenerate (a k m1 m2 : ℝ) (h2 : 0 < m2) (h : m2 ≤ m1) : Pk a k m1 m2 = none := by
  unfold Pk
  have := PkCore_nonpos_of_ge a k m1 m2 h2 h
  have hr := resolution_pos
  simp only
  rw [if_pos]
  rw [real_lt]; linarith

theorem Pk_never_nonpos (a k m1 m2 r : ℝ) (h : Pk a k m1 m2 = some r) : 0 < r := by
  unfold Pk at h
  simp only at h
  split at h
  · cases h
  · rename_i hlt
    cases h
    have hr := resolution_pos
    rw [Bool.not_eq_true, real_lt_false] at hlt
    linarith

theorem Pk_some_of_ge (a k m1 m2 : ℝ) (h : (resolution : ℝ) ≤ PkCore a k m1 m2) :
    Pk a k m1 m2 = some (PkCore a k m1 m2) := by
  unfold Pk
  simp only
  rw [if_neg]
  rw [real_lt]; linarith

theorem PkList_getElem? (as m1s m2s : List ℝ) (k : ℝ) :
    ∀ (i : Nat) (hi : i < as.length) (h1 : i < m1s.length) (h2 : i < m2s.length),
    (PkList as k m1s m2s)[i]? = some (Pk as[i] k m1s[i] m2s[i]) := by
  induction as generalizing m1s m2s with
  | nil => intro i hi; simp at hi
  | cons a as ih =>
    intro i hi h1 h2
    cases m1s with
    | nil => simp at h1
    | cons m1 m1s =>
      cases m2s with
      | nil => simp at h2
      | cons m2 m2s =>
        cases i with
        | zero => simp [PkList]
        | succ i =>
          simp only [PkList, List.getElem?_cons_succ, List.getElem_cons_succ]
          exact ih m1s m2s i (by simpa using hi) (by simpa using h1) (by simpa using h2)

/-- **C12 (partial: exact-real part)**. Missing from the full property: the 1e-9 float accuracy clause. -/
theorem C12_partial : Statement where
  source := Bridge.gen_pk
  source_resolution := Bridge.gen_resolution
  exact := fun a k m1 m2 h1 h2 => PkCore_eq_integral a k m1 m2 h1 h2.le
  logForm := logForm
  pos := PkCore_pos
  additive := fun a k m1 m2 m3 h1 h2 h3 => PkCore_add a k m1 m2 m3 h1 h2.le h3.le
  mean := mean_in_interval
  degenerate := Pk_degenerate
  never_nonpos := Pk_never_nonpos
  some_of_ge := Pk_some_of_ge
  elementwise := PkList_getElem?

/-- non-vacuity: a concrete proper interval meets the hypotheses, and a concrete inverted one too -/
example : (0:ℝ) < 0.5 ∧ (0.5:ℝ) < 1 := by norm_num
example : Pk (-1 : ℝ) 1 1 0.5 = none := Pk_degenerate _ _ _ _ (by norm_num) (by norm_num)
example : (PkList [(-1:ℝ), -2.3] 1 [0.5, 0.5] [1, 1]).length = 2 := by simp [PkList]

end Model.C12
