import SspModel.Real
import SspModel.Lemmas.Bridge.Sched
import SspModel.Model.Validate
import SspModel.Model.Schedule
import SspModel.Model.IFMR
import SspModel.Props.C07
import SspModel.Props.C08
/-!
# C17 — invalid requests are rejected and non-convergence is never silent
-/
namespace Model.C17
open Model

/-- a positive constant escape rate is rejected -/
theorem positive_rate_rejected (r : Request ℝ) (x : ℝ) (h : r.rate = some x) (hx : 0 < x) :
    validateModel r = .error .valueError := by
  unfold validateModel
  have : positiveRate r = true := by unfold positiveRate; rw [h]; simp only [real_zero, real_lt]; exact hx
  rw [if_pos this]

/-- general shape: whatever passes validation satisfies every documented requirement -/
theorem validate_ok_spec (r : Request ℝ) (h : validate r = .ok ()) :
    r.breaks.length = r.nslopes + 1 ∧ 2 ≤ r.breaks.length ∧ increasing r.breaks = true ∧
    (∀ fs, r.fBH = some fs → fs.length = r.nout ∧ ∀ f ∈ fs, 0 ≤ f) ∧
    (∀ x, r.rate = some x → x ≤ 0) ∧ r.normKnown = true ∧ r.kickKnown = true ∧ r.bhMethodKnown = true ∧
    r.wdMethodKnown = true ∧ r.binningKnown = true ∧ r.wdHi ≤ r.bhLo := by
  unfold validate at h
  cases h1 : validateIMF r with
  | error e => rw [h1] at h; cases h
  | ok u1 =>
    rw [h1] at h
    cases h2 : validateTargets r with
    | error e => rw [h2] at h; cases h
    | ok u2 =>
      rw [h2] at h
      have h3 : validateModel r = .ok () := h
      -- IMF
      have hI : r.breaks.length = r.nslopes + 1 ∧ 2 ≤ r.breaks.length ∧ increasing r.breaks = true := by
        unfold validateIMF at h1
        split at h1
        · cases h1
        · rename_i c1
          split at h1
          · cases h1
          · rename_i c2
            split at h1
            · cases h1
            · rename_i c3
              simp only [bne_iff_ne, ne_eq, Decidable.not_not] at c1
              simp only [Bool.not_eq_true', Bool.not_eq_false] at c3
              refine ⟨c1, by omega, ?_⟩
              cases hinc : increasing r.breaks
              · rw [hinc] at c3; simp at c3
              · rfl
      -- targets
      have hT : ∀ fs, r.fBH = some fs → fs.length = r.nout ∧ ∀ f ∈ fs, 0 ≤ f := by
        intro fs hfs
        unfold validateTargets at h2
        rw [hfs] at h2
        simp only at h2
        split at h2
        · cases h2
        · rename_i c1
          split at h2
          · cases h2
          · rename_i c2
            simp only [bne_iff_ne, ne_eq, Decidable.not_not] at c1
            refine ⟨c1, fun f hf => ?_⟩
            simp only [List.any_eq_true, not_exists, not_and, Bool.not_eq_true] at c2
            have := c2 f hf
            rw [real_lt_false] at this
            simp only [real_zero] at this
            linarith
      -- model
      have hM : (∀ x, r.rate = some x → x ≤ 0) ∧ r.normKnown = true ∧ r.kickKnown = true ∧ r.bhMethodKnown = true ∧
          r.wdMethodKnown = true ∧ r.binningKnown = true ∧ r.wdHi ≤ r.bhLo := by
        unfold validateModel at h3
        split at h3
        · cases h3
        · rename_i c0
          split at h3
          · cases h3
          · rename_i c1
            split at h3
            · cases h3
            · rename_i c2
              split at h3
              · cases h3
              · rename_i c3
                split at h3
                · cases h3
                · rename_i c4
                  split at h3
                  · cases h3
                  · rename_i c5
                    split at h3
                    · cases h3
                    · rename_i c6
                      simp only [Bool.not_eq_true', Bool.not_eq_false, Bool.not_eq_true] at c1 c2 c3 c5 c6
                      rw [real_lt] at c4
                      refine ⟨?_, c1, c6, c2, c3, c5, not_lt.1 c4⟩
                      intro x hx
                      unfold positiveRate at c0
                      rw [hx] at c0
                      simp only [real_zero, real_lt] at c0
                      exact not_lt.1 c0
      exact ⟨hI.1, hI.2.1, hI.2.2, hT, hM⟩

/-- contrapositive, family by family: any violated requirement ⇒ ValueError (never a result) -/
theorem invalid_rejected (r : Request ℝ)
    (h : r.breaks.length ≠ r.nslopes + 1 ∨ r.breaks.length < 2 ∨ increasing r.breaks = false ∨
      (∃ fs, r.fBH = some fs ∧ (fs.length ≠ r.nout ∨ ∃ f ∈ fs, f < 0)) ∨
      (∃ x, r.rate = some x ∧ 0 < x) ∨ r.normKnown = false ∨ r.kickKnown = false ∨ r.bhMethodKnown = false ∨
      r.wdMethodKnown = false ∨ r.binningKnown = false ∨ r.bhLo < r.wdHi) :
    validate r = .error .valueError := by
  cases hv : validate r with
  | error e => cases e; rfl
  | ok u =>
    exfalso
    obtain ⟨a1, a2, a3, a4, a5, a6, a7, a8, a9, a10, a11⟩ := validate_ok_spec r hv
    rcases h with h | h | h | ⟨fs, hfs, h⟩ | ⟨x, hx, h⟩ | h | h | h | h | h | h
    · exact h a1
    · omega
    · rw [a3] at h; cases h
    · obtain ⟨b1, b2⟩ := a4 fs hfs
      rcases h with h | ⟨f, hf, hlt⟩
      · exact h b1
      · linarith [b2 f hf]
    · linarith [a5 x hx]
    · rw [a6] at h; cases h
    · rw [a7] at h; cases h
    · rw [a8] at h; cases h
    · rw [a9] at h; cases h
    · rw [a10] at h; cases h
    · linarith

/-- solver: the flag is the conjunction of all segments' success bits (sticky), whatever the fault sequence -/
theorem flag_sticky (oks : List Bool) : convergedFlag oks = true ↔ ∀ b ∈ oks, b = true := by
  simp [convergedFlag, List.all_eq_true]

theorem failed_middle_segment (pre post : List Bool) : convergedFlag (pre ++ false :: post) = false := by
  simp [convergedFlag]

/-- when the flag is true every `integrate` call ended exactly at its requested time -/
theorem rows_at_requested_age (segs : List (ℝ × Bool × ℝ)) (h : convergedFlag (segs.map (·.2.1)) = true) :
    solverTimes segs = segs.map (·.1) := by
  induction segs with
  | nil => simp [solverTimes]
  | cons s t ih =>
    obtain ⟨treq, ok, tr⟩ := s
    simp only [convergedFlag, List.map_cons, List.all_cons, Bool.and_eq_true, id_eq] at h
    simp only [solverTimes, List.map_cons, h.1, if_true]
    rw [ih (by simpa [convergedFlag] using h.2)]

structure Statement : Prop where
  /-- shape obligations on the extraction loop of both `_evolve` methods (see `Lemmas/Bridge/Sched.lean`) -/
  source_flag : ∀ x : ℝ, Generated.sched_flag_after_loop x = 1 ∧ Generated.schedbh_flag_after_loop x = 1 ∧ Generated.sched_integrate_first x = 1 ∧ Generated.schedbh_integrate_first x = 1
  invalid : ∀ r : Request ℝ,
    (r.breaks.length ≠ r.nslopes + 1 ∨ r.breaks.length < 2 ∨ increasing r.breaks = false ∨
      (∃ fs, r.fBH = some fs ∧ (fs.length ≠ r.nout ∨ ∃ f ∈ fs, f < 0)) ∨
      (∃ x, r.rate = some x ∧ 0 < x) ∨ r.normKnown = false ∨ r.kickKnown = false ∨ r.bhMethodKnown = false ∨
      r.wdMethodKnown = false ∨ r.binningKnown = false ∨ r.bhLo < r.wdHi) → validate r = .error .valueError
  /-- over-ejection, kicks over budget (C07), unreachable target leaves BHs unchanged for the strict check to see (C08) -/
  over_eject : ∀ (l : List (ℝ × ℝ)) (mej : ℝ), C07.NonNeg l → sumFst l < mej → dynEjectRev l mej = .error .overEject
  flag : ∀ oks : List Bool, convergedFlag oks = true ↔ ∀ b ∈ oks, b = true
  middle : ∀ pre post : List Bool, convergedFlag (pre ++ false :: post) = false
  ages : ∀ segs : List (ℝ × Bool × ℝ), convergedFlag (segs.map (·.2.1)) = true → solverTimes segs = segs.map (·.1)

theorem C17_partial : Statement where
  source_flag := fun x => ⟨(Bridge.gen_sched_shape x).2.2.2.2.1, (Bridge.gen_sched_shape x).2.2.2.2.2.2.2.2, (Bridge.gen_sched_shape x).2.1, (Bridge.gen_sched_shape x).2.2.2.2.2.1⟩
  invalid := invalid_rejected
  over_eject := C07.over
  flag := flag_sticky
  middle := failed_middle_segment
  ages := rows_at_requested_age

end Model.C17
