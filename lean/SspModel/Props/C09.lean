import SspModel.Real
import SspModel.Model.IFMR
import SspModel.Lemmas.Table
import SspModel.Generated.Formulas
import SspModel.Generated.Tables
import SspModel.Lemmas.PolyBound
import Mathlib.Analysis.SpecialFunctions.Pow.Real
/-!
# C09 — initial-final mass relations are closed, ordered, physical at every metallicity
-/
namespace Model.C09
open Model

/-! ## classes: three contiguous progenitor ranges in increasing mass order; type and mass use the same conditions -/
theorem predictType_spec (f : IfmrFn ℝ) (m : ℝ) (h : f.wdHi ≤ f.bhLo) :
    (predictType f m = .WD ↔ m ≤ f.wdHi ∧ m < f.bhLo) ∧
    (predictType f m = .NS ↔ f.wdHi < m ∧ m < f.bhLo) ∧
    (predictType f m = .BH ↔ f.bhLo ≤ m) := by
  by_cases h1 : f.bhLo ≤ m
  · have hv : predictType f m = .BH := by
      unfold predictType; simp [Scalar.le, h1]
    rw [hv]
    refine ⟨?_, ?_, ?_⟩
    · constructor
      · intro h'; cases h'
      · intro h'; exfalso; linarith [h'.2]
    · constructor
      · intro h'; cases h'
      · intro h'; exfalso; linarith [h'.2]
    · constructor
      · intro _; exact h1
      · intro _; rfl
  · by_cases h2 : f.wdHi < m
    · have h3 : m ≤ f.bhLo := le_of_lt (not_le.1 h1)
      have hv : predictType f m = .NS := by
        unfold predictType; simp [Scalar.le, Scalar.lt, h1, h2, h3]
      rw [hv]
      refine ⟨?_, ?_, ?_⟩
      · constructor
        · intro h'; cases h'
        · intro h'; exfalso; linarith [h'.1]
      · constructor
        · intro _; exact ⟨h2, not_le.1 h1⟩
        · intro _; rfl
      · constructor
        · intro h'; cases h'
        · intro h'; exact absurd h' h1
    · have hv : predictType f m = .WD := by
        unfold predictType; simp [Scalar.le, Scalar.lt, h1, h2]
      rw [hv]
      refine ⟨?_, ?_, ?_⟩
      · constructor
        · intro _; exact ⟨not_lt.1 h2, not_le.1 h1⟩
        · intro _; rfl
      · constructor
        · intro h'; cases h'
        · intro h'; exact absurd h'.1 h2
      · constructor
        · intro h'; cases h'
        · intro h'; exact absurd h' h1

/-- type and mass predictions agree: the mass comes from the predictor of the predicted class -/
theorem predict_consistent (f : IfmrFn ℝ) (m : ℝ) :
    predict f m = match predictType f m with
      | .BH => f.bhFn m
      | .NS => f.nsMass
      | .WD => f.wdFn m := by
  unfold predict predictType
  split
  · rfl
  · split <;> rfl

/-! ## linear interpolation through tabulated knots inherits their bounds -/
def KnotsOK (ks : List (ℝ × ℝ)) : Prop :=
  ks.IsChain (fun a b => a.1 < b.1) ∧ ∀ k ∈ ks, 0 < k.2 ∧ k.2 ≤ k.1

theorem linSeg_real (x0 y0 x1 y1 x : ℝ) : linSeg x0 y0 x1 y1 x = y0 + (y1 - y0) * ((x - x0) / (x1 - x0)) := rfl

theorem linInterp_bounds (ks : List (ℝ × ℝ)) (h : KnotsOK ks) (hlen : 2 ≤ ks.length) (x L : ℝ)
    (hL : ∀ k ∈ ks, L ≤ k.2)
    (hx0 : (ks.head (by intro h0; rw [h0] at hlen; simp at hlen)).1 ≤ x)
    (hx1 : x ≤ (ks.getLast (by intro h0; rw [h0] at hlen; simp at hlen)).1) :
    L ≤ linInterp ks x ∧ 0 < linInterp ks x ∧ linInterp ks x ≤ x := by
  induction ks with
  | nil => simp at hlen
  | cons k0 t ih =>
    obtain ⟨x0, y0⟩ := k0
    cases t with
    | nil => simp at hlen
    | cons k1 t2 =>
      obtain ⟨x1, y1⟩ := k1
      obtain ⟨hchain, hok⟩ := h
      have h01 : x0 < x1 := by
        simp only [List.isChain_cons_cons] at hchain; exact hchain.1
      have hk0 := hok (x0, y0) (by simp)
      have hk1 := hok (x1, y1) (by simp)
      simp only [List.head_cons] at hx0
      cases t2 with
      | nil =>
        simp only [List.getLast_cons_cons, List.getLast_singleton] at hx1
        simp only [linInterp, linSeg_real]
        have := lin_seg_bounds x0 x1 y0 y1 x h01 hx0 hx1 hk0.1 hk1.1 hk0.2 hk1.2
        simp only at this
        refine ⟨le_trans ?_ this.1, this.2.1, this.2.2⟩
        exact le_min (hL (x0, y0) (by simp)) (hL (x1, y1) (by simp))
      | cons k2 t3 =>
        simp only [linInterp, Scalar.le]
        by_cases hle : x ≤ x1
        · simp only [hle, decide_true, if_true, linSeg_real]
          have := lin_seg_bounds x0 x1 y0 y1 x h01 hx0 hle hk0.1 hk1.1 hk0.2 hk1.2
          simp only at this
          refine ⟨le_trans ?_ this.1, this.2.1, this.2.2⟩
          exact le_min (hL (x0, y0) (by simp)) (hL (x1, y1) (by simp))
        · simp only [hle, decide_false, Bool.false_eq_true, if_false]
          have hchain' : ((x1, y1) :: k2 :: t3).IsChain (fun a b => a.1 < b.1) := by
            simp only [List.isChain_cons_cons] at hchain ⊢; exact hchain.2
          apply ih ⟨hchain', fun k hk => hok k (List.mem_cons_of_mem _ hk)⟩ (by simp)
            (fun k hk => hL k (List.mem_cons_of_mem _ hk))
          · simp only [List.head_cons]; exact le_of_lt (not_le.1 hle)
          · simpa [List.getLast_cons_cons] using hx1

/-! ## from a kernel-checked packed table to the knots of its spline -/
noncomputable def knotsOf (rs : List Tab.Row) : List (ℝ × ℝ) :=
  (rs.filter (·.ty == 14)).map fun r => ((r.mi : ℝ) / 10, (r.mf : ℝ) / 100000)

theorem knots_ok_of_check (n p : Nat) (h : Tab.check n p 0 = true) : KnotsOK (knotsOf (Tab.rows n p)) := by
  obtain ⟨hrow, hpw, _⟩ := Tab.check_sound n p 0 h
  unfold KnotsOK knotsOf
  constructor
  · rw [List.isChain_map]
    apply List.Pairwise.isChain
    refine hpw.imp ?_
    intro a b hab
    have : (a.mi : ℝ) < (b.mi : ℝ) := by exact_mod_cast hab
    simp only; linarith
  · intro k hk
    simp only [List.mem_map, List.mem_filter] at hk
    obtain ⟨r, ⟨hr, hty⟩, rfl⟩ := hk
    have hty' : r.ty = 14 := by simpa using hty
    exact Tab.rowOK_bh_real r (hrow r hr) hty'

/-- every fallback fraction of a checked table is a probability (used by C15) -/
theorem fallback_le_one_of_check (n p : Nat) (h : Tab.check n p 0 = true) :
    ∀ r ∈ Tab.rows n p, (0:ℝ) ≤ (r.fb : ℝ) / 100000 ∧ (r.fb : ℝ) / 100000 ≤ 1 := by
  obtain ⟨hrow, _, _⟩ := Tab.check_sound n p 0 h
  intro r hr
  exact ⟨by positivity, Tab.rowOK_fb_real r (hrow r hr)⟩

/-! ## analytic prescriptions at their default parameters (`Generated.line` is the source's `_line`) -/
theorem line_real (mi e s c : ℝ) : Generated.line mi e s c = s * mi ^ e + c := by
  simp only [Generated.line, real_rpow]

/-- linear BH: 0.4·m + 0.7 on m ≥ 19 -/
theorem linearBH_default (m : ℝ) (hm : 19 ≤ m) :
    0 < Generated.line m 1 0.4 0.7 ∧ Generated.line m 1 0.4 0.7 ≤ m := by
  rw [line_real, Real.rpow_one]; constructor <;> nlinarith

/-- power-law BH: 3e-5·m³ + 14 on 19 ≤ m ≤ 150 (the upper IMF limit of the property) -/
theorem powerlawBH_default (m : ℝ) (hm : 19 ≤ m) (hm2 : m ≤ 150) :
    0 < Generated.line m 3 3e-5 14 ∧ Generated.line m 3 3e-5 14 ≤ m := by
  rw [line_real]
  have h3 : m ^ (3:ℝ) = m * m * m := by
    have : (3:ℝ) = ((3:ℕ):ℝ) := by norm_num
    rw [this, Real.rpow_natCast]; ring
  rw [h3]
  have hpos : 0 < m := by linarith
  constructor
  · positivity
  · have h1 : m * m ≤ 150 * 150 := by nlinarith
    nlinarith [mul_le_mul_of_nonneg_right h1 hpos.le]

/-- broken power law, the three default pieces -/
theorem brokenBH_default (m : ℝ) :
    (20 ≤ m → m ≤ 22 → 0 < Generated.line m 1 1 0 ∧ Generated.line m 1 1 0 ≤ m) ∧
    (22 ≤ m → m ≤ 36 → 0 < Generated.line m 3 6e-4 0 ∧ Generated.line m 3 6e-4 0 ≤ m) ∧
    (36 ≤ m → m ≤ 100 → 0 < Generated.line m 1 0.43 0 ∧ Generated.line m 1 0.43 0 ≤ m) := by
  have h3 : m ^ (3:ℝ) = m * m * m := by
    have : (3:ℝ) = ((3:ℕ):ℝ) := by norm_num
    rw [this, Real.rpow_natCast]; ring
  refine ⟨fun h1 h2 => ?_, fun h1 h2 => ?_, fun h1 h2 => ?_⟩
  · rw [line_real, Real.rpow_one]; constructor <;> nlinarith
  · rw [line_real, h3]
    have hpos : 0 < m := by linarith
    constructor
    · positivity
    · have : m * m ≤ 36 * 36 := by nlinarith
      nlinarith [mul_le_mul_of_nonneg_right this hpos.le]
  · rw [line_real, Real.rpow_one]; constructor <;> nlinarith

/-! ## the WD relations: every packaged degree-10 polynomial is positive, below the progenitor mass and below the NS mass
on `[0.7 Msun, its own m_max]` (kernel-checked Taylor-shift bounds over ℚ on 64 pieces per row, lifted to ℝ) -/

/-- coefficients (lowest order first) of a row of `sevtables/wdifmr.dat`, as exact rationals -/
def wdCoeffs (r : Int × Int × List Int) : List ℚ := r.2.2.reverse.map fun z => (z : ℚ) / Generated.wdScale
def wdMax (r : Int × Int × List Int) : ℚ := (r.2.1 : ℚ) / Generated.wdScale

set_option maxRecDepth 100000 in
theorem wd_rows_checked : ∀ r ∈ Generated.wdifmr,
    (7 / 10 : ℚ) < wdMax r ∧ PolyBound.rowOK (wdCoeffs r) (7 / 10) (wdMax r) (14 / 10) 64 = true := by
  decide +kernel

theorem evalP_append (p : List ℝ) (a x : ℝ) : PolyBound.evalP (p ++ [a]) x = PolyBound.evalP p x + a * x ^ p.length := by
  induction p with
  | nil => simp [PolyBound.evalP]
  | cons b p ih => simp only [List.cons_append, PolyBound.evalP, ih, List.length_cons, pow_succ]; ring

theorem foldl_horner (l : List ℝ) (acc x : ℝ) :
    l.reverse.foldl (fun acc ck => ck + acc * x) acc = PolyBound.evalP l x + acc * x ^ l.length := by
  induction l generalizing acc with
  | nil => simp [PolyBound.evalP]
  | cons b l ih =>
    rw [List.reverse_cons, List.foldl_append, ih]
    simp only [List.foldl_cons, List.foldl_nil, PolyBound.evalP, List.length_cons, pow_succ]; ring

/-- the model's Horner evaluation (`np.polynomial.Polynomial`) is the polynomial -/
theorem polyEval_eq_evalP (c : List ℝ) (x : ℝ) : polyEval c x = PolyBound.evalP c x := by
  unfold polyEval
  rcases List.eq_nil_or_concat c with rfl | ⟨init, top, rfl⟩
  · simp [PolyBound.evalP, real_zero]
  · simp only [List.concat_eq_append, List.reverse_append, List.reverse_cons, List.reverse_nil, List.nil_append, List.cons_append]
    rw [foldl_horner, evalP_append]

/-- **WD relation of every packaged metallicity**: positive, never above the progenitor, below the NS mass -/
theorem wd_physical (r : Int × Int × List Int) (hr : r ∈ Generated.wdifmr) (m : ℝ) (h1 : (0.7 : ℝ) ≤ m) (h2 : m ≤ ((wdMax r : ℚ) : ℝ)) :
    let c : List ℝ := (wdCoeffs r).map fun x : ℚ => (x : ℝ)
    0 < polyEval c m ∧ polyEval c m ≤ m ∧ polyEval c m < 1.4 := by
  obtain ⟨hlt, hok⟩ := wd_rows_checked r hr
  have h1' : (((7 / 10 : ℚ)) : ℝ) ≤ m := by push_cast; linarith
  have := PolyBound.rowOK_sound (wdCoeffs r) (7 / 10) (wdMax r) (14 / 10) 64 (by norm_num) hlt hok m h1' h2
  simp only [polyEval_eq_evalP]
  refine ⟨this.1, this.2.1, ?_⟩
  have h3 := this.2.2
  push_cast at h3
  linarith

structure Statement : Prop where
  classes : ∀ (f : IfmrFn ℝ) (m : ℝ), f.wdHi ≤ f.bhLo →
    (predictType f m = .WD ↔ m ≤ f.wdHi ∧ m < f.bhLo) ∧ (predictType f m = .NS ↔ f.wdHi < m ∧ m < f.bhLo) ∧
    (predictType f m = .BH ↔ f.bhLo ≤ m)
  consistent : ∀ (f : IfmrFn ℝ) (m : ℝ), predict f m = match predictType f m with
      | .BH => f.bhFn m | .NS => f.nsMass | .WD => f.wdFn m
  spline : ∀ (n p : Nat), Tab.check n p 0 = true → 2 ≤ (knotsOf (Tab.rows n p)).length →
    ∀ (x L : ℝ) (hne : knotsOf (Tab.rows n p) ≠ []), (∀ k ∈ knotsOf (Tab.rows n p), L ≤ k.2) →
      ((knotsOf (Tab.rows n p)).head hne).1 ≤ x → x ≤ ((knotsOf (Tab.rows n p)).getLast hne).1 →
      L ≤ linInterp (knotsOf (Tab.rows n p)) x ∧ 0 < linInterp (knotsOf (Tab.rows n p)) x ∧
      linInterp (knotsOf (Tab.rows n p)) x ≤ x
  /-- every packaged WD relation on `[0.7, m_max]`: positive, not above the progenitor, below the NS mass (hence WD < NS in mass) -/
  wd : ∀ r ∈ Generated.wdifmr, ∀ m : ℝ, (0.7 : ℝ) ≤ m → m ≤ ((wdMax r : ℚ) : ℝ) →
    let c : List ℝ := (wdCoeffs r).map fun x : ℚ => (x : ℝ)
    0 < polyEval c m ∧ polyEval c m ≤ m ∧ polyEval c m < 1.4
  linear : ∀ m : ℝ, 19 ≤ m → 0 < Generated.line m 1 0.4 0.7 ∧ Generated.line m 1 0.4 0.7 ≤ m
  powerlaw : ∀ m : ℝ, 19 ≤ m → m ≤ 150 → 0 < Generated.line m 3 3e-5 14 ∧ Generated.line m 3 3e-5 14 ≤ m

/-- **C09 (partial)**: class logic, BH splines of every kernel-checked table, analytic BH prescriptions. the seven WD degree-10
    polynomials (kernel-checked Taylor-shift bounds). Not proved in Lean: FITPACK = linear interpolation and numpy's Horner evaluation
    in floats (correspondence); the WD upper bound declared at run time from the polynomial's numerical critical points (sweep). -/
theorem C09_partial : Statement where
  wd := wd_physical
  classes := predictType_spec
  consistent := predict_consistent
  spline := fun n p h hlen x L hne hL hx0 hx1 =>
    linInterp_bounds _ (knots_ok_of_check n p h) hlen x L hL hx0 hx1
  linear := linearBH_default
  powerlaw := powerlawBH_default

end Model.C09
