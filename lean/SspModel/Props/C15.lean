import SspModel.Lemmas.Eject
import SspModel.Lemmas.Bridge.Kicks
import SspModel.Lemmas.Bridge.Eject
import SspModel.Model.Kicks
import Mathlib.Analysis.SpecialFunctions.Sqrt
import Mathlib.Analysis.Calculus.Deriv.Pow
/-!
# C15 — kick retention is a probability matching its definition; kicks only remove

`erfR` is the error function defined from the Gaussian integral (`Lemmas/Erf`). `Generated.maxwellian` is the
speed density extracted from kicks.py, `Generated.sigmoid` the sigmoid retention expression.
-/
namespace Model.C15
open Model Real Set

theorem maxwellPdf_real (a v : ℝ) :
    maxwellPdf a v = √(2 / π) * (v ^ 2 * exp (-(v ^ 2) / (2 * a ^ 2))) / a ^ 3 := by
  simp only [maxwellPdf, real_rpow, real_exp, real_sqrt, real_pi, real_one, real_two, real_three]
  have h2 : v ^ (2:ℝ) = v ^ 2 := by rw [Real.rpow_two]
  have h3 : a ^ (2:ℝ) = a ^ 2 := by rw [Real.rpow_two]
  have h4 : a ^ (3:ℝ) = a ^ 3 := by
    have : (3:ℝ) = ((3:ℕ):ℝ) := by norm_num
    rw [this, Real.rpow_natCast]
  rw [h2, h3, h4]; ring_nf

theorem maxwellCdf_real (a v : ℝ) :
    maxwellCdf a v = erfR (v / (√2 * a)) - √(2 / π) * (v / a) * exp (-(v ^ 2) / (2 * a ^ 2)) := by
  simp only [maxwellCdf, real_rpow, real_exp, real_sqrt, real_pi, real_erf, real_two]
  have h2 : v ^ (2:ℝ) = v ^ 2 := by rw [Real.rpow_two]
  have h3 : a ^ (2:ℝ) = a ^ 2 := by rw [Real.rpow_two]
  rw [h2, h3]

theorem maxwellCdf_hasDerivAt (a v : ℝ) (ha : 0 < a) :
    HasDerivAt (maxwellCdf a) (maxwellPdf a v) v := by
  have hfun : maxwellCdf a = fun v => erfR (v / (√2 * a)) - √(2 / π) * (v / a) * exp (-(v ^ 2) / (2 * a ^ 2)) := by
    funext x; rw [maxwellCdf_real]
  rw [hfun, maxwellPdf_real]
  have hs2 : (0:ℝ) < √2 := sqrt_pos.2 (by norm_num)
  have hpi : 0 < √π := sqrt_pos.2 pi_pos
  have h1 : HasDerivAt (fun v : ℝ => v / (√2 * a)) (1 / (√2 * a)) v := by
    simpa using (hasDerivAt_id v).div_const (√2 * a)
  have h2 := (erfR_hasDerivAt (v / (√2 * a))).comp v h1
  have h3 : HasDerivAt (fun v : ℝ => -(v ^ 2) / (2 * a ^ 2)) (-(2 * v) / (2 * a ^ 2)) v := by
    have := ((hasDerivAt_pow 2 v).neg).div_const (2 * a ^ 2)
    simpa using this
  have h4 := h3.exp
  have h5 : HasDerivAt (fun v : ℝ => √(2 / π) * (v / a)) (√(2 / π) * (1 / a)) v := by
    have := ((hasDerivAt_id v).div_const a).const_mul (√(2 / π))
    simpa using this
  have h6 := h5.mul h4
  have h7 := h2.sub h6
  refine h7.congr_deriv ?_
  have hexp : exp (-(v / (√2 * a)) ^ 2) = exp (-(v ^ 2) / (2 * a ^ 2)) := by
    congr 1
    rw [div_pow, mul_pow, sq_sqrt (by norm_num : (0:ℝ) ≤ 2)]
    ring
  have hsq : √(2 / π) = √2 / √π := by rw [sqrt_div (by norm_num)]
  rw [hexp, hsq]
  have h22 : √2 * √2 = 2 := mul_self_sqrt (by norm_num)
  field_simp
  nlinarith [h22, exp_pos (-(v ^ 2) / (2 * a ^ 2))]

theorem maxwellPdf_nonneg (a v : ℝ) (ha : 0 < a) : 0 ≤ maxwellPdf a v := by
  rw [maxwellPdf_real]; positivity

theorem maxwellCdf_mono (a : ℝ) (ha : 0 < a) : Monotone (maxwellCdf a) := by
  apply monotone_of_deriv_nonneg (fun v => (maxwellCdf_hasDerivAt a v ha).differentiableAt)
  intro v; rw [(maxwellCdf_hasDerivAt a v ha).deriv]; exact maxwellPdf_nonneg a v ha

theorem maxwellCdf_zero (a : ℝ) : maxwellCdf a 0 = 0 := by simp [maxwellCdf_real, erfR_zero]

theorem maxwellCdf_mem (a v : ℝ) (ha : 0 < a) (hv : 0 ≤ v) : maxwellCdf a v ∈ Icc (0:ℝ) 1 := by
  constructor
  · have := maxwellCdf_mono a ha hv; rwa [maxwellCdf_zero] at this
  · rw [maxwellCdf_real]
    have h1 : erfR (v / (√2 * a)) ≤ 1 := erfR_le_one (by positivity)
    have h2 : 0 ≤ √(2 / π) * (v / a) * exp (-(v ^ 2) / (2 * a ^ 2)) := by positivity
    linarith

theorem maxwellCdf_eq_integral (a v : ℝ) (ha : 0 < a) :
    maxwellCdf a v = ∫ x in (0:ℝ)..v, maxwellPdf a x := by
  have hcont : Continuous (maxwellPdf a) := by
    have : maxwellPdf a = fun v => √(2 / π) * (v ^ 2 * exp (-(v ^ 2) / (2 * a ^ 2))) / a ^ 3 := by
      funext x; rw [maxwellPdf_real]
    rw [this]; fun_prop
  have := intervalIntegral.integral_eq_sub_of_hasDerivAt
    (fun x _ => maxwellCdf_hasDerivAt a x ha) (hcont.intervalIntegrable 0 v)
  rw [this, maxwellCdf_zero, sub_zero]

/-! ## bookkeeping -/

def NonNeg (l : List (ℝ × ℝ)) : Prop := ∀ b ∈ l, 0 ≤ b.1 ∧ 0 ≤ b.2

theorem unboundKicksAux_cons (fret : ℝ → ℝ) (m n : ℝ) (rest : List (ℝ × ℝ)) (acc : ℝ) :
    unboundKicksAux fret ((m, n) :: rest) acc =
      if n < (1e-1 : ℝ) then
        ((m, n) :: (unboundKicksAux fret rest acc).1, (unboundKicksAux fret rest acc).2)
      else
        ((m * fret (m / n), n * fret (m / n)) :: (unboundKicksAux fret rest (acc + m * (1 - fret (m / n)))).1,
          (unboundKicksAux fret rest (acc + m * (1 - fret (m / n)))).2) := by
  have hlit : (@OfScientific.ofScientific ℝ ScalarLit.instOfSci 1 true 1) = (1e-1 : ℝ) := by
    rw [real_ofSci]; try norm_num
  simp only [unboundKicksAux, Scalar.lt, real_one, hlit]
  by_cases h : n < (1e-1 : ℝ) <;> simp [h]

/-- per-bin effect and exact ejecta accounting, any number of bins -/
theorem kicks_spec (fret : ℝ → ℝ) (l : List (ℝ × ℝ)) (acc : ℝ) :
    (unboundKicksAux fret l acc).1 =
        l.map (fun b => if b.2 < (1e-1 : ℝ) then b else (b.1 * fret (b.1 / b.2), b.2 * fret (b.1 / b.2))) ∧
    (unboundKicksAux fret l acc).2 = acc + (sumFst l - sumFst (unboundKicksAux fret l acc).1) := by
  induction l generalizing acc with
  | nil => simp [unboundKicksAux, sumFst_nil]
  | cons hd tl ih =>
    obtain ⟨m, n⟩ := hd
    rw [unboundKicksAux_cons]
    by_cases h : n < (1e-1 : ℝ)
    · simp only [if_pos h, List.map_cons, sumFst_cons]
      obtain ⟨h1, h2⟩ := ih acc
      exact ⟨by rw [h1], by rw [h2]; ring⟩
    · simp only [if_neg h, List.map_cons, sumFst_cons]
      obtain ⟨h1, h2⟩ := ih (acc + m * (1 - fret (m / n)))
      exact ⟨by rw [h1], by rw [h2]; ring⟩

theorem unboundKicks_real (fret : ℝ → ℝ) (l : List (ℝ × ℝ)) :
    unboundKicks fret l = unboundKicksAux fret l (0:ℝ) := by
  unfold unboundKicks; simp only [real_zero]

structure Statement : Prop where
  /-- one step of the per-bin bookkeeping is the source's own: skip threshold, retention argument, ejecta accumulator, in-place scalings -/
  source_step : ∀ (fret : ℝ → ℝ) (m n acc : ℝ) (rest : List (ℝ × ℝ)),
    unboundKicksAux fret ((m, n) :: rest) acc =
      if Scalar.lt n (Generated.kickSkip : ℝ) then
        ((m, n) :: (unboundKicksAux fret rest acc).1, (unboundKicksAux fret rest acc).2)
      else
        let ret := fret (Generated.kick_arg m n)
        ((Generated.kick_M m ret, Generated.kick_N n ret) :: (unboundKicksAux fret rest (Generated.kick_acc acc m ret)).1,
         (unboundKicksAux fret rest (Generated.kick_acc acc m ret)).2)
  /-- Maxwellian retention = speed distribution integrated from 0 to the escape velocity -/
  cdf_is_integral : ∀ a v : ℝ, 0 < a → maxwellCdf a v = ∫ x in (0:ℝ)..v, Generated.maxwellian x a
  /-- … lies in [0,1] … -/
  cdf_mem : ∀ a v : ℝ, 0 < a → 0 ≤ v → maxwellCdf a v ∈ Icc (0:ℝ) 1
  /-- … is non-decreasing in the escape velocity … -/
  cdf_mono : ∀ a : ℝ, 0 < a → Monotone (maxwellCdf a)
  /-- … and equals 1 for full fallback; for fb < 1 it is the CDF with dispersion vdisp·(1−fb) -/
  full_fallback : ∀ fb vesc vdisp : ℝ, 1 ≤ fb → maxwellRet fb vesc vdisp = 1
  partial_fallback : ∀ fb vesc vdisp : ℝ, fb < 1 → maxwellRet fb vesc vdisp = maxwellCdf (vdisp * (1 - fb)) vesc
  ret_mem : ∀ fb vesc vdisp : ℝ, 0 ≤ vesc → 0 < vdisp → maxwellRet fb vesc vdisp ∈ Icc (0:ℝ) 1
  /-- sigmoid retention equals erf(exp(slope·(m−scale))) and lies in [0,1] -/
  sigmoid_def : ∀ m slope scale : ℝ, Generated.sigmoid m slope scale = erfR (exp (slope * (m - scale)))
  sigmoid_mem : ∀ m slope scale : ℝ, Generated.sigmoid m slope scale ∈ Icc (0:ℝ) 1
  /-- applying kicks: populated bins scaled by the retention of their mean mass, bins with fewer than 0.1 objects
      untouched, ejecta = exactly the mass removed -/
  bookkeeping : ∀ (fret : ℝ → ℝ) (l : List (ℝ × ℝ)),
    (unboundKicks fret l).1 =
        l.map (fun b => if b.2 < (1e-1 : ℝ) then b else (b.1 * fret (b.1 / b.2), b.2 * fret (b.1 / b.2))) ∧
    (unboundKicks fret l).2 = sumFst l - sumFst (unboundKicks fret l).1
  /-- mean mass unchanged, nothing increases -/
  mean_preserved : ∀ (M N r : ℝ), r ≠ 0 → (M * r) / (N * r) = M / N
  only_remove : ∀ (M N r : ℝ), 0 ≤ M → 0 ≤ N → 0 ≤ r → r ≤ 1 → 0 ≤ M * r ∧ M * r ≤ M ∧ 0 ≤ N * r ∧ N * r ≤ N

theorem full_fallback (fb vesc vdisp : ℝ) (h : 1 ≤ fb) : maxwellRet fb vesc vdisp = 1 := by
  unfold maxwellRet
  have : Scalar.le (1:ℝ) fb = true := by rw [real_le]; exact h
  simp only [real_one, this, if_true]

theorem partial_fallback (fb vesc vdisp : ℝ) (h : fb < 1) :
    maxwellRet fb vesc vdisp = maxwellCdf (vdisp * (1 - fb)) vesc := by
  unfold maxwellRet
  have : Scalar.le (1:ℝ) fb = false := by rw [real_le_false]; linarith
  simp only [real_one, this, Bool.false_eq_true, if_false]

theorem C15_holds : Statement where
  source_step := Bridge.gen_unboundKicksAux_cons
  cdf_is_integral := fun a v ha => by
    rw [maxwellCdf_eq_integral a v ha]; simp only [Bridge.gen_maxwellian]
  cdf_mem := maxwellCdf_mem
  cdf_mono := maxwellCdf_mono
  full_fallback := full_fallback
  partial_fallback := partial_fallback
  ret_mem := fun fb vesc vdisp hv hd => by
    by_cases h : 1 ≤ fb
    · rw [full_fallback fb vesc vdisp h]; exact ⟨by norm_num, le_rfl⟩
    · rw [partial_fallback fb vesc vdisp (by linarith)]
      exact maxwellCdf_mem _ _ (mul_pos hd (by linarith)) hv
  sigmoid_def := fun m slope scale => by rw [Bridge.gen_sigmoid]; rfl
  sigmoid_mem := fun m slope scale => by
    rw [Bridge.gen_sigmoid]
    exact ⟨erfR_nonneg (exp_pos _).le, erfR_le_one (exp_pos _).le⟩
  bookkeeping := fun fret l => by
    obtain ⟨h1, h2⟩ := kicks_spec fret l 0
    rw [unboundKicks_real]
    exact ⟨h1, by rw [h2]; ring⟩
  mean_preserved := fun M N r hr => by field_simp
  only_remove := fun M N r hM hN h0 h1 => ⟨by positivity, by nlinarith, by positivity, by nlinarith⟩

/-- non-vacuity: a populated and a nearly-empty bin -/
example : (unboundKicks (fun _ => (0.5:ℝ)) [((10:ℝ), (2:ℝ)), (1, 0.05)]).1 = [(10 * 0.5, 2 * 0.5), (1, 0.05)] := by
  rw [unboundKicks_real, (kicks_spec _ _ 0).1]; norm_num

end Model.C15
