import SspModel.Lemmas.Life
import SspModel.Lemmas.Bridge.Sev
import SspModel.Lemmas.Bridge.BHPop
import SspModel.Generated.Tables
/-!
# C14 — lifetime and turn-off mass are inverse, monotone, and set the evolution rate

All statements are about the expressions *extracted from the source* (`Generated.*`): the two copies of
the lifetime, of the turn-off mass and of the hand-derived sweep speed (main model, BH-only model).
-/
namespace Model.C14
open Model Scalar

/-- the coefficient signs the theorems need; `msto_rows_signs` shows every packaged row has them -/
structure Coeffs (a0 a1 a2 : ℝ) : Prop where
  a0 : 0 < a0
  a1 : 0 < a1
  a2 : a2 < 0

/-- every row of sevtables/msto.dat (read from the file on this run) has a0 > 0, a1 > 0, a2 < 0 -/
theorem msto_rows_signs : ∀ r ∈ Generated.msto, 0 < r.2.1 ∧ 0 < r.2.2.1 ∧ r.2.2.2 < 0 := by
  decide +kernel

/-- the real coefficient a file entry stands for -/
noncomputable def coef (z : Int) : ℝ := (z : ℝ) / (Generated.mstoScale : ℝ)

theorem msto_rows_coeffs : ∀ r ∈ Generated.msto, Coeffs (coef r.2.1) (coef r.2.2.1) (coef r.2.2.2) := by
  intro r hr
  obtain ⟨h0, h1, h2⟩ := msto_rows_signs r hr
  have hs : (0:ℝ) < (Generated.mstoScale : ℝ) := by norm_num [Generated.mstoScale]
  refine ⟨div_pos (by exact_mod_cast h0) hs, div_pos (by exact_mod_cast h1) hs, div_neg_of_neg_of_pos (by exact_mod_cast h2) hs⟩

structure Statement : Prop where
  /-- lifetime decreases strictly with mass (both copies) -/
  tms_anti : ∀ a0 a1 a2 : ℝ, Coeffs a0 a1 a2 →
    StrictAntiOn (Generated.tms_main a0 a1 a2) (Set.Ioi 0) ∧ StrictAntiOn (Generated.tms_bh a0 a1 a2) (Set.Ioi 0)
  /-- turn-off mass is infinite up to the shortest lifetime a0 … -/
  mto_infinite : ∀ a0 a1 a2 t : ℝ, t ≤ a0 → mto a0 a1 a2 t = none
  /-- … finite, positive and strictly decreasing after it -/
  mto_finite : ∀ a0 a1 a2 t : ℝ, Coeffs a0 a1 a2 → a0 < t →
    mto a0 a1 a2 t = some (mtoFin a0 a1 a2 t) ∧ 0 < mtoFin a0 a1 a2 t
  mto_anti : ∀ a0 a1 a2 : ℝ, Coeffs a0 a1 a2 → StrictAntiOn (Generated.mto_main_fin a0 a1 a2) (Set.Ioi a0)
  /-- the source's `compute_mto` (both copies) *is* this function -/
  mto_is_source : ∀ a0 a1 a2 t : ℝ,
    (if Generated.mto_main_cond a0 t then some (Generated.mto_main_fin a0 a1 a2 t) else none) = mto a0 a1 a2 t ∧
    (if Generated.mto_bh_cond a0 t then some (Generated.mto_bh_fin a0 a1 a2 t) else none) = mto a0 a1 a2 t
  /-- mutual inverses -/
  mto_tms : ∀ a0 a1 a2 m : ℝ, Coeffs a0 a1 a2 → 0 < m →
    a0 < Generated.tms_main a0 a1 a2 m ∧ Generated.mto_main_fin a0 a1 a2 (Generated.tms_main a0 a1 a2 m) = m
  tms_mto : ∀ a0 a1 a2 t : ℝ, Coeffs a0 a1 a2 → a0 < t →
    Generated.tms_main a0 a1 a2 (Generated.mto_main_fin a0 a1 a2 t) = t
  /-- the sweep speed the evolution uses (main model and BH-only model alike) is |d mto / dt| -/
  rate : ∀ a0 a1 a2 t : ℝ, Coeffs a0 a1 a2 → a0 < t →
    ∃ d, HasDerivAt (Generated.mto_main_fin a0 a1 a2) d t ∧ d < 0 ∧
      Generated.dmdt_sev a0 a1 a2 t = |d| ∧ Generated.dmdt_bh a0 a1 a2 t = |d|

theorem mto_none (a0 a1 a2 t : ℝ) (h : t ≤ a0) : mto a0 a1 a2 t = none := by
  unfold mto; rw [if_neg]; rw [real_lt]; linarith

theorem mto_some (a0 a1 a2 t : ℝ) (h : a0 < t) : mto a0 a1 a2 t = some (mtoFin a0 a1 a2 t) := by
  unfold mto; rw [if_pos]; rw [real_lt]; exact h

theorem gen_mto_fin (a0 a1 a2 : ℝ) : Generated.mto_main_fin a0 a1 a2 = mtoFin a0 a1 a2 := rfl
theorem gen_tms (a0 a1 a2 : ℝ) : Generated.tms_main a0 a1 a2 = tms a0 a1 a2 := rfl
theorem gen_tms_bh (a0 a1 a2 : ℝ) : Generated.tms_bh a0 a1 a2 = tms a0 a1 a2 := rfl

/-- **C14** over exact reals -/
theorem C14_holds : Statement where
  tms_anti := fun a0 a1 a2 c => by
    rw [gen_tms, gen_tms_bh]; exact ⟨tms_strictAntiOn a0 a1 a2 c.a0 c.a1 c.a2, tms_strictAntiOn a0 a1 a2 c.a0 c.a1 c.a2⟩
  mto_infinite := mto_none
  mto_finite := fun a0 a1 a2 t c ht => ⟨mto_some a0 a1 a2 t ht, mtoFin_pos a0 a1 a2 t c.a0 c.a1 ht⟩
  mto_anti := fun a0 a1 a2 c => by rw [gen_mto_fin]; exact mtoFin_strictAntiOn a0 a1 a2 c.a0 c.a1 c.a2
  mto_is_source := fun a0 a1 a2 t => ⟨Bridge.gen_mto_main a0 a1 a2 t, Bridge.gen_mto_bh a0 a1 a2 t⟩
  mto_tms := fun a0 a1 a2 m c hm => by
    rw [gen_mto_fin, gen_tms]
    exact ⟨a0_lt_tms a0 a1 a2 m c.a0 c.a1 hm, Model.mto_tms a0 a1 a2 m c.a0 c.a1 c.a2.ne hm⟩
  tms_mto := fun a0 a1 a2 t c ht => by
    rw [gen_mto_fin, gen_tms]; exact Model.tms_mto a0 a1 a2 t c.a0 c.a1 c.a2.ne ht
  rate := fun a0 a1 a2 t c ht => by
    refine ⟨dmdtRaw a0 a1 a2 t, ?_, dmdtRaw_neg a0 a1 a2 t c.a0 c.a1 c.a2 ht, ?_, ?_⟩
    · rw [gen_mto_fin]; exact mto_hasDerivAt a0 a1 a2 t c.a0 c.a1 c.a2.ne ht
    · rw [Bridge.gen_dmdt_sev]; rfl
    · rw [Bridge.gen_dmdt_bh]; rfl

/-- non-vacuity: the first packaged row satisfies `Coeffs`, and 12 Gyr is beyond its `a0` -/
example : Coeffs (0.26813727 : ℝ) 9.85482367 (-0.34602170) := ⟨by norm_num, by norm_num, by norm_num⟩
example : (0.26813727 : ℝ) < 12000 := by norm_num

end Model.C14
