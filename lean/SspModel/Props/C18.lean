import SspModel.Props.C02
import SspModel.Props.C03
import SspModel.Props.C07
import SspModel.Props.C15
import SspModel.Model.IMF
/-!
# C18 — population size only sets the scale

Every routine the evolution is made of is homogeneous of degree one in (counts, masses, rate) and of degree zero in
(slopes, mean masses, fractions), *provided every comparison against the fixed 0.1-object thresholds has the same outcome
before and after scaling* — that proviso is stated as an explicit hypothesis wherever a threshold occurs.
-/
namespace Model.C18
open Model

def scaleStars (l : ℝ) (stars : List (StarBin ℝ)) : List (StarBin ℝ) := stars.map fun b => { b with n := l * b.n }
def scaleRems (l : ℝ) (rems : List (ℝ × ℝ)) : List (ℝ × ℝ) := rems.map fun r => (l * r.1, l * r.2)

/-! ## stellar evolution flux -/
theorem sevDNdm_homogeneous (l nmin Nj aj m1 mto : ℝ) (hthr : (nmin < l * Nj) ↔ (nmin < Nj)) :
    sevDNdm nmin (l * Nj) aj m1 mto = (l * (sevDNdm nmin Nj aj m1 mto).1, (sevDNdm nmin Nj aj m1 mto).2) := by
  unfold sevDNdm
  by_cases h1 : m1 < mto
  · by_cases h2 : nmin < Nj
    · have h2' : nmin < l * Nj := hthr.2 h2
      simp only [Scalar.lt, h1, h2, h2', decide_true, Bool.and_self, if_true, real_one]
      cases Pk aj 1 m1 mto with
      | none => simp
      | some p => simp only [real_rpow]; congr 1; ring
    · have h2' : ¬ nmin < l * Nj := fun h => h2 (hthr.1 h)
      simp [Scalar.lt, h1, h2, h2']
  · simp [Scalar.lt, h1]

/-! ## escape -/
theorem moments_scale (l : ℝ) (b : StarBin ℝ) : ({ b with n := l * b.n } : StarBin ℝ).moments = b.moments := rfl

theorem mass_scale (l : ℝ) (b : StarBin ℝ) : ({ b with n := l * b.n } : StarBin ℝ).mass = l * b.mass := by
  unfold StarBin.mass; rw [moments_scale]
  cases b.moments with
  | none => simp
  | some v => obtain ⟨p1, p15, p2, p25⟩ := v; simp only; ring

theorem Is_scale (l md : ℝ) (b : StarBin ℝ) : ({ b with n := l * b.n } : StarBin ℝ).Is md = l * b.Is md := by
  unfold StarBin.Is; rw [moments_scale]
  cases b.moments with
  | none => simp
  | some v =>
    obtain ⟨p1, p15, p2, p25⟩ := v
    simp only
    split
    · ring
    · simp

theorem Js_scale (l md : ℝ) (b : StarBin ℝ) : ({ b with n := l * b.n } : StarBin ℝ).Js md = l * b.Js md := by
  unfold StarBin.Js; rw [moments_scale]
  cases b.moments with
  | none => simp
  | some v =>
    obtain ⟨p1, p15, p2, p25⟩ := v
    simp only
    split
    · ring
    · simp

theorem depl_scale (l md : ℝ) (b : StarBin ℝ) : ({ b with n := l * b.n } : StarBin ℝ).depl md = b.depl md := rfl
theorem dalpha_scale (l md : ℝ) (b : StarBin ℝ) : ({ b with n := l * b.n } : StarBin ℝ).dalphaUnit md = b.dalphaUnit md := rfl

theorem remI_scale (l md : ℝ) (hl : 0 < l) (r : ℝ × ℝ) : remI md (l * r.1, l * r.2) = l * remI md r := by
  unfold remI
  have e : l * r.2 / (l * r.1) = r.2 / r.1 := by
    by_cases h : r.1 = 0
    · simp [h]
    · field_simp
  have c : (0 < l * r.1) ↔ (0 < r.1) := by constructor <;> intro h <;> nlinarith
  simp only [Scalar.lt, real_zero, e]
  by_cases h : 0 < r.1
  · simp only [h, c.2 h, decide_true, if_true]; split <;> ring
  · have : ¬ 0 < l * r.1 := fun h' => h (c.1 h')
    simp [h, this]

theorem remJ_scale (l md : ℝ) (hl : 0 < l) (r : ℝ × ℝ) : remJ md (l * r.1, l * r.2) = l * remJ md r := by
  unfold remJ
  have e : l * r.2 / (l * r.1) = r.2 / r.1 := by
    by_cases h : r.1 = 0
    · simp [h]
    · field_simp
  have c : (0 < l * r.1) ↔ (0 < r.1) := by constructor <;> intro h <;> nlinarith
  simp only [Scalar.lt, real_zero, e]
  by_cases h : 0 < r.1
  · simp only [h, c.2 h, decide_true, if_true]; split <;> ring
  · have : ¬ 0 < l * r.1 := fun h' => h (c.1 h')
    simp [h, this]

theorem sum_map_scale {β : Type} (xs : List β) (f g : β → ℝ) (l : ℝ) (h : ∀ x ∈ xs, f x = l * g x) :
    (xs.map f).sum = l * (xs.map g).sum := by
  rw [← C03.sum_map_comp_mul]; congr 1; exact List.map_congr_left h

theorem postS_scale (normM : Bool) (l md : ℝ) (hl : 0 < l) (stars : List (StarBin ℝ)) (rems : List (ℝ × ℝ)) :
    C03.postS normM md (scaleStars l stars) (scaleRems l rems) = l * C03.postS normM md stars rems := by
  unfold C03.postS scaleStars scaleRems
  cases normM
  · simp only [Bool.false_eq_true, if_false, List.map_map, Function.comp_def]
    rw [sum_map_scale stars _ (StarBin.Is md) l (fun b _ => Is_scale l md b),
      sum_map_scale rems _ (remI md) l (fun r _ => remI_scale l md hl r)]
    ring
  · simp only [if_true, List.map_map, Function.comp_def]
    rw [sum_map_scale stars _ (StarBin.Js md) l (fun b _ => Js_scale l md b),
      sum_map_scale rems _ (remJ md) l (fun r _ => remJ_scale l md hl r)]
    ring

/-- after core collapse: counts and masses scale, slopes do not -/
theorem escPost_homogeneous (normM : Bool) (l rate md : ℝ) (hl : 0 < l) (stars : List (StarBin ℝ)) (rems : List (ℝ × ℝ)) :
    escPost normM (l * rate) md (scaleStars l stars) (scaleRems l rems) =
      ((escPost normM rate md stars rems).1.map (l * ·), (escPost normM rate md stars rems).2.1,
       (escPost normM rate md stars rems).2.2.map (fun r => (l * r.1, l * r.2))) := by
  rw [C03.escPost_real, C03.escPost_real, postS_scale normM l md hl]
  have hB : l * rate / (l * C03.postS normM md stars rems) = rate / C03.postS normM md stars rems := by
    by_cases h : C03.postS normM md stars rems = 0
    · simp [h]
    · field_simp
  rw [hB]
  simp only [scaleStars, scaleRems, List.map_map, Prod.mk.injEq]
  refine ⟨?_, ?_, ?_⟩
  · apply List.map_congr_left; intro b _; simp only [Function.comp, Is_scale]; ring
  · apply List.map_congr_left; intro b _; simp only [Function.comp, depl_scale, dalpha_scale]; rfl
  · apply List.map_congr_left; intro r _
    simp only [Function.comp, remI_scale l md hl, remJ_scale l md hl, Prod.mk.injEq]
    exact ⟨by ring, by ring⟩

theorem preD_scale (normM : Bool) (l : ℝ) (stars : List (StarBin ℝ)) (rems : List (ℝ × ℝ)) :
    C03.preD normM (scaleStars l stars) (scaleRems l rems) = l * C03.preD normM stars rems := by
  unfold C03.preD scaleStars scaleRems
  cases normM
  · simp only [Bool.false_eq_true, if_false, List.map_map, Function.comp_def]
    rw [sum_map_scale stars _ (·.n) l (fun b _ => rfl), sum_map_scale rems _ (·.1) l (fun r _ => rfl)]; ring
  · simp only [if_true, List.map_map, Function.comp_def]
    rw [sum_map_scale stars _ StarBin.mass l (fun b _ => mass_scale l b), sum_map_scale rems _ (·.2) l (fun r _ => rfl)]; ring

/-- before core collapse -/
theorem escPre_homogeneous (normM : Bool) (l rate : ℝ) (hl : 0 < l) (stars : List (StarBin ℝ)) (rems : List (ℝ × ℝ)) :
    escPre normM (l * rate) (scaleStars l stars) (scaleRems l rems) =
      ((escPre normM rate stars rems).1.map (l * ·), (escPre normM rate stars rems).2.1,
       (escPre normM rate stars rems).2.2.map (fun r => (l * r.1, l * r.2))) := by
  obtain ⟨a1, a2, a3⟩ := C03.pre_uniform normM (l * rate) (scaleStars l stars) (scaleRems l rems)
  obtain ⟨b1, b2, b3⟩ := C03.pre_uniform normM rate stars rems
  have hB : l * rate / (l * C03.preD normM stars rems) = rate / C03.preD normM stars rems := by
    by_cases h : C03.preD normM stars rems = 0
    · simp [h]
    · field_simp
  refine Prod.ext ?_ (Prod.ext ?_ ?_)
  · rw [a1, b1, preD_scale, hB]
    simp only [scaleStars, List.map_map]
    apply List.map_congr_left; intro b _; simp only [Function.comp]; ring
  · rw [a2, b2]; simp only [scaleStars, List.map_map]; rfl
  · rw [a3, b3, preD_scale, hB]
    simp only [scaleRems, List.map_map]
    apply List.map_congr_left; intro r _
    have c : (0 < l * r.1) ↔ (0 < r.1) := by constructor <;> intro h <;> nlinarith
    simp only [Function.comp]
    by_cases h : 0 < r.1
    · simp only [h, c.2 h, if_true, Prod.mk.injEq]; exact ⟨by ring, by ring⟩
    · have : ¬ 0 < l * r.1 := fun h' => h (c.1 h')
      simp [h, this]

/-! ## BH ejection -/
theorem dynEjectLoop_homogeneous (l : ℝ) (hl : 0 < l) (bins : List (ℝ × ℝ)) (mej : ℝ) :
    dynEjectLoop (bins.map fun b => (l * b.1, l * b.2)) (l * mej) =
      (match dynEjectLoop bins mej with
       | .ok (r, d) => .ok (r.map (fun b => (l * b.1, l * b.2)), d)
       | .error e => .error e) := by
  induction bins generalizing mej with
  | nil => simp [dynEjectLoop]
  | cons b t ih =>
    obtain ⟨m, n⟩ := b
    simp only [List.map_cons]
    rw [dynEjectLoop_cons, dynEjectLoop_cons]
    have c : (l * m < l * mej) ↔ (m < mej) := by constructor <;> intro h <;> nlinarith
    by_cases h : m < mej
    · rw [if_pos h, if_pos (c.2 h)]
      have e : l * mej - l * m = l * (mej - m) := by ring
      rw [e, ih (mej - m)]
      cases dynEjectLoop t (mej - m) with
      | error e => rfl
      | ok v => obtain ⟨r, d⟩ := v; simp
    · have h' : ¬ l * m < l * mej := fun hh => h (c.1 hh)
      rw [if_neg h, if_neg h']
      have hm0 : (l * m = 0) ↔ (m = 0) := by
        constructor
        · intro hh; rcases mul_eq_zero.1 hh with h1 | h1
          · exact absurd h1 hl.ne'
          · exact h1
        · intro hh; simp [hh]
      simp only [List.map_cons, Except.ok.injEq, Prod.mk.injEq, List.cons.injEq, and_true]
      refine ⟨⟨by ring, ?_⟩, by simp [hm0]⟩
      by_cases hn : n = 0
      · simp [hn]
      · by_cases hmm : m = 0
        · simp [hmm]
        · field_simp

/-! ## natal kicks: the retention depends on the mean mass only -/
theorem kicks_homogeneous (fret : ℝ → ℝ) (l : ℝ) (hl : 0 < l) (bins : List (ℝ × ℝ))
    (hthr : ∀ b ∈ bins, (l * b.2 < (1e-1:ℝ)) ↔ (b.2 < (1e-1:ℝ))) :
    (unboundKicks fret (bins.map fun b => (l * b.1, l * b.2))).1 =
      (unboundKicks fret bins).1.map (fun b => (l * b.1, l * b.2)) ∧
    (unboundKicks fret (bins.map fun b => (l * b.1, l * b.2))).2 = l * (unboundKicks fret bins).2 := by
  obtain ⟨h1, h2⟩ := (C15.C15_holds).bookkeeping fret bins
  obtain ⟨g1, g2⟩ := (C15.C15_holds).bookkeeping fret (bins.map fun b => (l * b.1, l * b.2))
  have key : (unboundKicks fret (bins.map fun b => (l * b.1, l * b.2))).1 =
      (unboundKicks fret bins).1.map (fun b => (l * b.1, l * b.2)) := by
    rw [g1, h1, List.map_map, List.map_map]
    apply List.map_congr_left; intro b hb
    have e : l * b.1 / (l * b.2) = b.1 / b.2 := by
      by_cases h : b.2 = 0
      · simp [h]
      · field_simp
    simp only [Function.comp, e]
    by_cases h : b.2 < (1e-1:ℝ)
    · simp [h, (hthr b hb).2 h]
    · have : ¬ l * b.2 < (1e-1:ℝ) := fun h' => h ((hthr b hb).1 h')
      simp only [h, this, if_false, Prod.mk.injEq]; exact ⟨by ring, by ring⟩
  refine ⟨key, ?_⟩
  rw [g2, h2, key]
  have s2 : ∀ xs : List (ℝ × ℝ), sumFst (xs.map fun b => (l * b.1, l * b.2)) = l * sumFst xs := by
    intro xs
    induction xs with
    | nil => simp [sumFst_nil]
    | cons b t ih => obtain ⟨m, n⟩ := b; simp only [List.map_cons, sumFst_cons, ih]; ring
  rw [s2 bins, s2]; ring

/-! ## initial values: linear in N, independent of the IMF object's own N0 (it is never read) -/
theorem binned_linear (ext : Nat) (segs : List (Seg ℝ)) (l n lo hi : ℝ) (i : Nat)
    (h : firstTrue (binMasks ext segs lo hi) = some i) :
    ∃ N M a, binnedEval1 ext segs n lo hi = .ok (N, M, a) ∧
      binnedEval1 ext segs (l * n) lo hi = .ok (N.map (l * ·), M.map (l * ·), a) := by
  unfold binnedEval1
  rw [h]
  simp only [real_zero, real_one, real_two]
  refine ⟨_, _, _, rfl, ?_⟩
  simp only [Except.ok.injEq, Prod.mk.injEq, and_true]
  constructor
  · cases Pk (segs.getD i (0, 0, 0)).2.2 1 lo hi with
    | none => rfl
    | some p => simp only [Option.map_some]; congr 1; ring
  · cases Pk (segs.getD i (0, 0, 0)).2.2 2 lo hi with
    | none => rfl
    | some p => simp only [Option.map_some]; congr 1; ring

structure Statement : Prop where
  sev : ∀ l nmin Nj aj m1 mto : ℝ, ((nmin < l * Nj) ↔ (nmin < Nj)) →
    sevDNdm nmin (l * Nj) aj m1 mto = (l * (sevDNdm nmin Nj aj m1 mto).1, (sevDNdm nmin Nj aj m1 mto).2)
  esc_pre : ∀ (normM : Bool) (l rate : ℝ), 0 < l → ∀ (stars : List (StarBin ℝ)) (rems : List (ℝ × ℝ)),
    escPre normM (l * rate) (scaleStars l stars) (scaleRems l rems) =
      ((escPre normM rate stars rems).1.map (l * ·), (escPre normM rate stars rems).2.1,
       (escPre normM rate stars rems).2.2.map (fun r => (l * r.1, l * r.2)))
  esc_post : ∀ (normM : Bool) (l rate md : ℝ), 0 < l → ∀ (stars : List (StarBin ℝ)) (rems : List (ℝ × ℝ)),
    escPost normM (l * rate) md (scaleStars l stars) (scaleRems l rems) =
      ((escPost normM rate md stars rems).1.map (l * ·), (escPost normM rate md stars rems).2.1,
       (escPost normM rate md stars rems).2.2.map (fun r => (l * r.1, l * r.2)))
  eject : ∀ (l : ℝ), 0 < l → ∀ (bins : List (ℝ × ℝ)) (mej : ℝ),
    dynEjectLoop (bins.map fun b => (l * b.1, l * b.2)) (l * mej) =
      (match dynEjectLoop bins mej with
       | .ok (r, d) => .ok (r.map (fun b => (l * b.1, l * b.2)), d)
       | .error e => .error e)
  kicks : ∀ (fret : ℝ → ℝ) (l : ℝ), 0 < l → ∀ (bins : List (ℝ × ℝ)),
    (∀ b ∈ bins, (l * b.2 < (1e-1:ℝ)) ↔ (b.2 < (1e-1:ℝ))) →
    (unboundKicks fret (bins.map fun b => (l * b.1, l * b.2))).1 =
      (unboundKicks fret bins).1.map (fun b => (l * b.1, l * b.2)) ∧
    (unboundKicks fret (bins.map fun b => (l * b.1, l * b.2))).2 = l * (unboundKicks fret bins).2
  /-- with a homogeneous right-hand side, the scaled copy of an exact solution is again an exact solution (started from the scaled
      initial state, which `initial` provides) -/
  solution : ∀ {n : ℕ} (y : Fin n → ℝ → ℝ) (F : ℝ → (Fin n → ℝ) → Fin n → ℝ) (l t : ℝ),
    (∀ i, HasDerivAt (y i) (F t (fun j => y j t) i) t) → (∀ v : Fin n → ℝ, ∀ i, F t (fun j => l * v j) i = l * F t v i) →
    ∀ i, HasDerivAt (fun s => l * y i s) (F t (fun j => l * y j t) i) t
  initial : ∀ (ext : Nat) (segs : List (Seg ℝ)) (l n lo hi : ℝ) (i : Nat),
    firstTrue (binMasks ext segs lo hi) = some i →
    ∃ N M a, binnedEval1 ext segs n lo hi = .ok (N, M, a) ∧
      binnedEval1 ext segs (l * n) lo hi = .ok (N.map (l * ·), M.map (l * ·), a)

/-- **C18 (partial)**: degree-one homogeneity of every building block. A scaled exact solution is again an exact solution (`solution`); dopri5's step control is scale-aware only through atol (measured by the sweep). -/
theorem C18_partial : Statement where
  sev := sevDNdm_homogeneous
  solution := fun y F l t h1 h2 => Conserve.scaled_solution y F l t h1 h2
  esc_pre := fun normM l rate hl stars rems => escPre_homogeneous normM l rate hl stars rems
  esc_post := fun normM l rate md hl stars rems => escPost_homogeneous normM l rate md hl stars rems
  eject := dynEjectLoop_homogeneous
  kicks := kicks_homogeneous
  initial := binned_linear

end Model.C18
