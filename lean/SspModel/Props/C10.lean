import SspModel.Real
import SspModel.Model.FeH
import SspModel.Model.Life
import SspModel.Generated.Tables
import Mathlib.Tactic.Linarith
import Mathlib.Tactic.Ring
import Mathlib.Tactic.NormNum
import Mathlib.Algebra.Order.Ring.Abs
/-!
# C10 — any metallicity is accepted and snapped to the nearest tabulated model
-/
namespace Model.C10
open Model.FeH

/-- rounding to hundredths is to the nearest (ties to even): with |x| = m·2^e, e < 0, d = 2^(−e):
    |m·100 − n·d| ≤ d/2, i.e. |100·|x| − n| ≤ 1/2 -/
theorem round_nearest (m : Nat) (e : Int) (he : e < 0) :
    let d : Int := 2 ^ (-e).toNat
    2 * |(m : Int) * 100 - (roundHundredths m e : Int) * d| ≤ d := by
  intro d
  unfold roundHundredths
  rw [if_neg (by omega)]
  set dn : Nat := 2 ^ (-e).toNat with hdn
  have hd : d = (dn : Int) := by simp [d, hdn]
  have hdpos : 0 < dn := by positivity
  set q := (m * 100) / dn with hq
  set r := (m * 100) % dn with hr
  have hA : m * 100 = dn * q + r := (Nat.div_add_mod (m * 100) dn).symm
  have hrlt : r < dn := Nat.mod_lt _ hdpos
  have hAi : (m : Int) * 100 = (dn : Int) * q + r := by exact_mod_cast hA
  simp only
  rw [hd]
  split
  · rename_i h1
    have : (m : Int) * 100 - ((q + 1 : Nat) : Int) * dn = (r : Int) - dn := by
      rw [hAi]; push_cast; ring
    rw [this, abs_of_nonpos (by omega)]
    omega
  · rename_i h1
    split
    · rename_i h2
      rcases Nat.mod_two_eq_zero_or_one q with h0 | h1'
      · have : (m : Int) * 100 - ((q + q % 2 : Nat) : Int) * dn = (r : Int) := by
          rw [hAi, h0]; push_cast; ring
        rw [this, abs_of_nonneg (by omega)]; omega
      · have : (m : Int) * 100 - ((q + q % 2 : Nat) : Int) * dn = (r : Int) - dn := by
          rw [hAi, h1']; push_cast; ring
        rw [this, abs_of_nonpos (by omega)]; omega
    · rename_i h2
      have : (m : Int) * 100 - ((q : Nat) : Int) * dn = (r : Int) := by rw [hAi]; ring
      rw [this, abs_of_nonneg (by omega)]; omega

theorem round_exact (m : Nat) (e : Int) (he : 0 ≤ e) : roundHundredths m e = m * 100 * 2 ^ e.toNat := by
  unfold roundHundredths; rw [if_pos he]

/-- rounding never crosses an integer bound that the exact value respects: if 100·|x| ≤ B then n ≤ B -/
theorem round_le_of_le (m : Nat) (e : Int) (B : Nat)
    (h : if 0 ≤ e then m * 100 * 2 ^ e.toNat ≤ B else m * 100 ≤ B * 2 ^ (-e).toNat) :
    roundHundredths m e ≤ B := by
  unfold roundHundredths
  by_cases he : 0 ≤ e
  · rw [if_pos he]; rw [if_pos he] at h; exact h
  · rw [if_neg he]; rw [if_neg he] at h
    set dn : Nat := 2 ^ (-e).toNat with hdn
    have hdpos : 0 < dn := by positivity
    set q := (m * 100) / dn with hq
    set r := (m * 100) % dn with hr
    have hA : m * 100 = dn * q + r := (Nat.div_add_mod (m * 100) dn).symm
    have hrlt : r < dn := Nat.mod_lt _ hdpos
    have hqB : q ≤ B := by
      by_contra hc
      have : B + 1 ≤ q := by omega
      have : dn * (B + 1) ≤ dn * q := Nat.mul_le_mul_left _ this
      nlinarith
    -- if anything is added to q then r > 0, hence q < B
    have hstrict : 0 < r → q < B := by
      intro hr0
      by_contra hc
      have : q = B := by omega
      rw [this] at hA
      nlinarith
    simp only
    split
    · have : 0 < r := by omega
      have := hstrict this; omega
    · split
      · rename_i h2
        have : 0 < r := by omega
        have := hstrict this
        have : q % 2 ≤ 1 := by omega
        omega
      · exact hqB

/-- the opened file's metallicity lies on the grid range: lo ≤ name ≤ hi (lo ≤ 0 ≤ hi) -/
theorem snap_in_range (lo hi : Int) (hlo : lo ≤ 0) (hhi : 0 ≤ hi) (neg : Bool) (m : Nat) (e : Int) :
    lo ≤ (snapName lo hi neg m e).toInt ∧ (snapName lo hi neg m e).toInt ≤ hi := by
  unfold snapName
  split
  · simp only [Name.toInt]
    have hab : ((lo.natAbs : Nat) : Int) = -lo := Int.ofNat_natAbs_of_nonpos hlo
    by_cases h : lo < 0
    · simp only [h, decide_true, if_true, hab]; omega
    · have : lo = 0 := by omega
      subst this; simp; exact hhi
  · rename_i h1
    split
    · simp only [Name.toInt]
      have hab : ((hi.natAbs : Nat) : Int) = hi := Int.natAbs_of_nonneg hhi
      have h : ¬ hi < 0 := by omega
      simp only [h, decide_false, Bool.false_eq_true, if_false, hab]; omega
    · rename_i h2
      simp only [fmtPlus2, Name.toInt]
      unfold clampLt at h1
      unfold clampGt at h2
      cases neg with
      | true =>
        simp only [if_true] at h1 h2 ⊢
        constructor
        · -- −n ≥ lo ⇔ n ≤ −lo
          have hB : roundHundredths m e ≤ (-lo).toNat := by
            apply round_le_of_le
            by_cases he : 0 ≤ e
            · simp only [he, if_true, decide_eq_true_eq, not_lt] at h1 ⊢
              have : ((m * 100 * 2 ^ e.toNat : Nat) : Int) ≤ -lo := by push_cast; linarith
              omega
            · simp only [he, if_false, decide_eq_true_eq, not_lt] at h1 ⊢
              have : ((m * 100 : Nat) : Int) ≤ ((-lo).toNat * 2 ^ (-e).toNat : Nat) := by
                push_cast
                rw [Int.toNat_of_nonneg (by omega)]
                linarith
              exact_mod_cast this
          omega
        · omega
      | false =>
        simp only [Bool.false_eq_true, if_false] at h1 h2 ⊢
        constructor
        · omega
        · have hB : roundHundredths m e ≤ hi.toNat := by
            apply round_le_of_le
            by_cases he : 0 ≤ e
            · simp only [he, if_true, decide_eq_true_eq, not_lt, gt_iff_lt] at h2 ⊢
              have : ((m * 100 * 2 ^ e.toNat : Nat) : Int) ≤ hi := by push_cast; linarith
              omega
            · simp only [he, if_false, decide_eq_true_eq, not_lt, gt_iff_lt] at h2 ⊢
              have : ((m * 100 : Nat) : Int) ≤ (hi.toNat * 2 ^ (-e).toNat : Nat) := by
                push_cast
                rw [Int.toNat_of_nonneg hhi]
                linarith
              exact_mod_cast this
          omega

/-- a grid that is complete between its ends and has both spellings of zero serves every metallicity -/
theorem snap_file_exists (grid : List Int) (lo hi : Int) (hlo : lo ≤ 0) (hhi : 0 ≤ hi)
    (hcomplete : ∀ k, lo ≤ k → k ≤ hi → k ∈ grid) (neg : Bool) (m : Nat) (e : Int) :
    fileExists grid true true (snapName lo hi neg m e) = true := by
  obtain ⟨h1, h2⟩ := snap_in_range lo hi hlo hhi neg m e
  unfold fileExists
  split
  · split <;> rfl
  · simp only [List.contains_iff_mem]
    exact hcomplete _ h1 h2

/-! ## the generated grids are complete (kernel-checked on this run's file listing) -/
def gridComplete (grid : List Int) : Bool :=
  match grid.min?, grid.max? with
  | some lo, some hi => (List.range (hi - lo + 1).toNat).all fun i => grid.contains (lo + i)
  | _, _ => false

theorem grid_uSSE_rapid_ok : gridComplete Generated.grid_uSSE_rapid = true ∧ Generated.grid_uSSE_rapid_hasPlusZero = true ∧
    Generated.grid_uSSE_rapid_hasMinusZero = true := by decide +kernel
theorem grid_uSSE_delayed_ok : gridComplete Generated.grid_uSSE_delayed = true ∧ Generated.grid_uSSE_delayed_hasPlusZero = true ∧
    Generated.grid_uSSE_delayed_hasMinusZero = true := by decide +kernel
theorem grid_COSMIC_rapid_ok : gridComplete Generated.grid_COSMIC_rapid = true ∧ Generated.grid_COSMIC_rapid_hasPlusZero = true ∧
    Generated.grid_COSMIC_rapid_hasMinusZero = true := by decide +kernel
theorem grid_COSMIC_delayed_ok : gridComplete Generated.grid_COSMIC_delayed = true ∧ Generated.grid_COSMIC_delayed_hasPlusZero = true ∧
    Generated.grid_COSMIC_delayed_hasMinusZero = true := by decide +kernel

theorem gridComplete_spec (grid : List Int) (lo hi : Int) (hmin : grid.min? = some lo) (hmax : grid.max? = some hi)
    (h : gridComplete grid = true) : ∀ k, lo ≤ k → k ≤ hi → k ∈ grid := by
  intro k h1 h2
  unfold gridComplete at h
  rw [hmin, hmax] at h
  simp only [List.all_eq_true, List.mem_range, List.contains_iff_mem] at h
  have := h (k - lo).toNat (by omega)
  rwa [Int.toNat_of_nonneg (by omega), add_sub_cancel] at this

/-! ## nearest-row choice for the WD and lifetime tables (`np.argmin(np.abs(grid - FeH))`) -/
theorem argminAbs_go_spec (gs : List ℝ) (x : ℝ) (i best : Nat) (bestd : ℝ) :
    let r := argminAbs.go x gs i best bestd
    (r = best ∧ ∀ g ∈ gs, bestd ≤ |g - x|) ∨
    (∃ j, j < gs.length ∧ r = i + j ∧ |gs.getD j 0 - x| < bestd ∧ ∀ g ∈ gs, |gs.getD j 0 - x| ≤ |g - x|) := by
  induction gs generalizing i best bestd with
  | nil => simp [argminAbs.go]
  | cons g t ih =>
    simp only [argminAbs.go, real_abs, Scalar.lt]
    by_cases h : |g - x| < bestd
    · simp only [h, decide_true, if_true]
      rcases ih (i + 1) i |g - x| with ⟨hr, hall⟩ | ⟨j, hj, hr, hlt, hall⟩
      · right
        refine ⟨0, by simp, by simpa using hr, by simpa using h, ?_⟩
        intro g' hg'
        rcases List.mem_cons.1 hg' with rfl | hg'
        · simp
        · simpa using hall g' hg'
      · right
        refine ⟨j + 1, by simpa using hj, by rw [hr]; omega, by simpa using lt_trans hlt h, ?_⟩
        intro g' hg'
        rcases List.mem_cons.1 hg' with rfl | hg'
        · simpa using hlt.le
        · simpa using hall g' hg'
    · simp only [h, decide_false, Bool.false_eq_true, if_false]
      rcases ih (i + 1) best bestd with ⟨hr, hall⟩ | ⟨j, hj, hr, hlt, hall⟩
      · left
        refine ⟨hr, ?_⟩
        intro g' hg'
        rcases List.mem_cons.1 hg' with rfl | hg'
        · exact not_lt.1 h
        · exact hall g' hg'
      · right
        refine ⟨j + 1, by simpa using hj, by rw [hr]; omega, by simpa using hlt, ?_⟩
        intro g' hg'
        rcases List.mem_cons.1 hg' with rfl | hg'
        · simpa using le_of_lt (lt_of_lt_of_le hlt (not_lt.1 h))
        · simpa using hall g' hg'

/-- the chosen row is a nearest one -/
theorem argminAbs_is_nearest (grid : List ℝ) (x : ℝ) (hne : grid ≠ []) :
    argminAbs grid x < grid.length ∧ ∀ g ∈ grid, |grid.getD (argminAbs grid x) 0 - x| ≤ |g - x| := by
  cases grid with
  | nil => exact absurd rfl hne
  | cons g0 t =>
    simp only [argminAbs, real_abs]
    rcases argminAbs_go_spec t x 1 0 |g0 - x| with ⟨hr, hall⟩ | ⟨j, hj, hr, hlt, hall⟩
    · rw [hr]
      refine ⟨by simp, ?_⟩
      intro g hg
      rcases List.mem_cons.1 hg with rfl | hg
      · simp
      · simpa using hall g hg
    · rw [hr]
      refine ⟨by simp; omega, ?_⟩
      intro g hg
      have e : (g0 :: t).getD (1 + j) 0 = t.getD j 0 := by
        rw [Nat.add_comm]; simp
      rw [e]
      rcases List.mem_cons.1 hg with rfl | hg
      · exact hlt.le
      · exact hall g hg

structure Statement : Prop where
  nearest : ∀ (m : Nat) (e : Int), e < 0 →
    2 * |(m : Int) * 100 - (roundHundredths m e : Int) * (2 ^ (-e).toNat : Int)| ≤ (2 ^ (-e).toNat : Int)
  exact : ∀ (m : Nat) (e : Int), 0 ≤ e → roundHundredths m e = m * 100 * 2 ^ e.toNat
  in_range : ∀ (lo hi : Int), lo ≤ 0 → 0 ≤ hi → ∀ (neg : Bool) (m : Nat) (e : Int),
    lo ≤ (snapName lo hi neg m e).toInt ∧ (snapName lo hi neg m e).toInt ≤ hi
  file_exists : ∀ (grid : List Int) (lo hi : Int), lo ≤ 0 → 0 ≤ hi → (∀ k, lo ≤ k → k ≤ hi → k ∈ grid) →
    ∀ (neg : Bool) (m : Nat) (e : Int), fileExists grid true true (snapName lo hi neg m e) = true
  grids : (gridComplete Generated.grid_uSSE_rapid = true ∧ gridComplete Generated.grid_uSSE_delayed = true ∧
    gridComplete Generated.grid_COSMIC_rapid = true ∧ gridComplete Generated.grid_COSMIC_delayed = true)
  rows : ∀ (grid : List ℝ) (x : ℝ), grid ≠ [] →
    argminAbs grid x < grid.length ∧ ∀ g ∈ grid, |grid.getD (argminAbs grid x) 0 - x| ≤ |g - x|

theorem C10_holds : Statement where
  nearest := fun m e he => round_nearest m e he
  exact := round_exact
  in_range := snap_in_range
  file_exists := snap_file_exists
  grids := ⟨grid_uSSE_rapid_ok.1, grid_uSSE_delayed_ok.1, grid_COSMIC_rapid_ok.1, grid_COSMIC_delayed_ok.1⟩
  rows := argminAbs_is_nearest

end Model.C10
