import SspModel.Real
import SspModel.Model.Schedule
import SspModel.Lemmas.Bridge.Sched
import Mathlib.Data.Real.Basic
import Mathlib.Tactic.Linarith
/-!
# C06 — an output row depends only on its own age, not on the rest of the schedule

For an *exact* flow (`flow t t y = y`, `flow t₁ t₂ (flow t₀ t₁ y) = flow t₀ t₂ y`): whatever else is scheduled — other
ages, any order, repeats, ages equal to internal turn-off times, age 0 — row `i` is the single-age result of age `tout[i]`
with row `i`'s own target.
-/
namespace Model.C06
open Model
variable {Y Row : Type}

structure ExactFlow (flow : ℝ → ℝ → Y → Y) : Prop where
  refl : ∀ t y, flow t t y = y
  trans : ∀ t0 t1 t2 y, t0 ≤ t1 → t1 ≤ t2 → flow t1 t2 (flow t0 t1 y) = flow t0 t2 y

theorem writeRows_real (extract : ℝ → Nat → Y → Row) (tout : List ℝ) (ti : ℝ) (y : Y) (rows : Nat → Option Row) (i : Nat) :
    writeRows extract tout ti y rows i =
      if i < tout.length ∧ tout.getD i 0 = ti then some (extract ti i y) else rows i := by
  unfold writeRows
  simp only [Scalar.beq, real_zero, Bool.and_eq_true, decide_eq_true_eq]

/-- loop invariant: with the solver at `flow 0 tcur y0`, after the remaining grid every row whose age occurs in the
    remaining grid holds its single-age result; all other rows are untouched -/
theorem run_spec (flow : ℝ → ℝ → Y → Y) (extract : ℝ → Nat → Y → Row) (hf : ExactFlow flow) (tout : List ℝ) (y0 : Y) :
    ∀ (grid : List ℝ) (tcur : ℝ) (rows : Nat → Option Row),
      0 ≤ tcur → (tcur :: grid).Pairwise (· ≤ ·) →
      ∀ i, (runSchedule flow extract tout grid tcur (flow 0 tcur y0) rows) i =
        if i < tout.length ∧ tout.getD i 0 ∈ grid
        then some (extract (tout.getD i 0) i (flow 0 (tout.getD i 0) y0))
        else rows i := by
  intro grid
  induction grid with
  | nil => intro tcur rows _ _ i; simp [runSchedule]
  | cons ti rest ih =>
    intro tcur rows h0 hs i
    have hle : tcur ≤ ti := (List.pairwise_cons.1 hs).1 ti List.mem_cons_self
    have hs' : (ti :: rest).Pairwise (· ≤ ·) := (List.pairwise_cons.1 hs).2
    have h0' : 0 ≤ ti := le_trans h0 hle
    simp only [runSchedule]
    rw [hf.trans 0 tcur ti y0 h0 hle, ih ti _ h0' hs' i, writeRows_real]
    generalize tout.getD i 0 = a
    by_cases hi : i < tout.length
    · by_cases heq : a = ti
      · subst heq
        by_cases hr : a ∈ rest
        · rw [if_pos ⟨hi, hr⟩, if_pos ⟨hi, List.mem_cons_of_mem _ hr⟩]
        · rw [if_neg (fun h => hr h.2), if_pos ⟨hi, rfl⟩, if_pos ⟨hi, List.mem_cons_self⟩]
      · by_cases hr : a ∈ rest
        · rw [if_pos ⟨hi, hr⟩, if_pos ⟨hi, List.mem_cons_of_mem _ hr⟩]
        · rw [if_neg (fun h => hr h.2), if_neg (fun h => heq h.2), if_neg]
          rintro ⟨_, h⟩
          rcases List.mem_cons.1 h with h | h
          · exact heq h
          · exact hr h
    · rw [if_neg (fun h => hi h.1), if_neg (fun h => hi h.1), if_neg (fun h => hi h.1)]

/-- every requested age is on the grid (the grid contains `tout`), so every row is written with its own single-age
    result, independently of the rest of the schedule -/
theorem row_eq_single (flow : ℝ → ℝ → Y → Y) (extract : ℝ → Nat → Y → Row) (hf : ExactFlow flow)
    (tout grid : List ℝ) (y0 : Y) (rows0 : Nat → Option Row)
    (hs : (0 :: grid).Pairwise (· ≤ ·)) (hcontains : ∀ t ∈ tout, t ∈ grid) (i : Nat) (hi : i < tout.length) :
    runSchedule flow extract tout grid 0 y0 rows0 i
      = some (extract (tout.getD i 0) i (flow 0 (tout.getD i 0) y0)) := by
  have := run_spec flow extract hf tout y0 grid 0 rows0 le_rfl hs i
  rw [hf.refl] at this
  rw [this, if_pos]
  refine ⟨hi, hcontains _ ?_⟩
  rw [List.getD_eq_getElem?_getD, List.getElem?_eq_getElem hi]; simp

/-- … in particular two schedules that both contain the age give the same row (any order, repeats, extra ages) -/
theorem schedule_independent (flow : ℝ → ℝ → Y → Y) (extract : ℝ → Nat → Y → Row) (hf : ExactFlow flow)
    (tout₁ grid₁ tout₂ grid₂ : List ℝ) (y0 : Y) (r1 r2 : Nat → Option Row)
    (hs1 : (0 :: grid₁).Pairwise (· ≤ ·)) (hs2 : (0 :: grid₂).Pairwise (· ≤ ·))
    (hc1 : ∀ t ∈ tout₁, t ∈ grid₁) (hc2 : ∀ t ∈ tout₂, t ∈ grid₂)
    (i j : Nat) (hi : i < tout₁.length) (hj : j < tout₂.length) (hage : tout₁.getD i 0 = tout₂.getD j 0)
    (htarget : ∀ t y, extract t i y = extract t j y) :
    runSchedule flow extract tout₁ grid₁ 0 y0 r1 i = runSchedule flow extract tout₂ grid₂ 0 y0 r2 j := by
  rw [row_eq_single flow extract hf tout₁ grid₁ y0 r1 hs1 hc1 i hi,
    row_eq_single flow extract hf tout₂ grid₂ y0 r2 hs2 hc2 j hj, hage, htarget]

/-- age 0 returns the extraction of the initial state (the unevolved IMF, no remnants) -/
theorem age_zero_row (flow : ℝ → ℝ → Y → Y) (extract : ℝ → Nat → Y → Row) (hf : ExactFlow flow)
    (tout grid : List ℝ) (y0 : Y) (rows0 : Nat → Option Row)
    (hs : (0 :: grid).Pairwise (· ≤ ·)) (hcontains : ∀ t ∈ tout, t ∈ grid) (i : Nat) (hi : i < tout.length)
    (h0 : tout.getD i 0 = 0) :
    runSchedule flow extract tout grid 0 y0 rows0 i = some (extract 0 i y0) := by
  rw [row_eq_single flow extract hf tout grid y0 rows0 hs hcontains i hi, h0, hf.refl]

/-! ## the grid really is sorted and contains every requested age -/
theorem insertSorted_mem (x : ℝ) (l : List ℝ) (y : ℝ) : y ∈ insertSorted x l ↔ y = x ∨ y ∈ l := by
  induction l with
  | nil => simp [insertSorted]
  | cons z zs ih =>
    simp only [insertSorted, Scalar.le]
    by_cases h : x ≤ z
    · simp [h]
    · simp only [h, decide_false, Bool.false_eq_true, if_false, List.mem_cons, ih]; tauto

theorem sortL_mem (l : List ℝ) (y : ℝ) : y ∈ sortL l ↔ y ∈ l := by
  induction l with
  | nil => simp [sortL]
  | cons x xs ih => simp only [sortL, insertSorted_mem, ih, List.mem_cons]

theorem insertSorted_sorted (x : ℝ) (l : List ℝ) (h : l.Pairwise (· ≤ ·)) : (insertSorted x l).Pairwise (· ≤ ·) := by
  induction l with
  | nil => simp [insertSorted]
  | cons z zs ih =>
    simp only [insertSorted, Scalar.le]
    have hz := List.pairwise_cons.1 h
    by_cases hx : x ≤ z
    · simp only [hx, decide_true, if_true]
      refine List.pairwise_cons.2 ⟨?_, h⟩
      intro a ha
      rcases List.mem_cons.1 ha with rfl | ha
      · exact hx
      · exact le_trans hx (hz.1 a ha)
    · simp only [hx, decide_false, Bool.false_eq_true, if_false]
      refine List.pairwise_cons.2 ⟨?_, ih hz.2⟩
      intro a ha
      rcases (insertSorted_mem x zs a).1 ha with rfl | ha
      · exact le_of_lt (not_le.1 hx)
      · exact hz.1 a ha

theorem sortL_sorted (l : List ℝ) : (sortL l).Pairwise (· ≤ ·) := by
  induction l with
  | nil => simp [sortL]
  | cons x xs ih => exact insertSorted_sorted x _ ih

theorem grid_contains_tout (tmsU tout : List ℝ) : ∀ t ∈ tout, t ∈ integrationGrid tmsU tout := by
  intro t ht
  cases tout with
  | nil => simp at ht
  | cons t0 ts =>
    simp only [integrationGrid]
    rw [sortL_mem, List.mem_append]
    exact Or.inr ht

theorem grid_sorted (tmsU tout : List ℝ) : (integrationGrid tmsU tout).Pairwise (· ≤ ·) := by
  cases tout with
  | nil => simp [integrationGrid]
  | cons t0 ts => exact sortL_sorted _

/-- every bin's turn-off time before the last age is a grid point, so the turn-off bin is constant on each open segment -/
theorem grid_breaks_at_turnoffs (tmsU tout : List ℝ) (t0 : ℝ) (ts : List ℝ) (h : tout = t0 :: ts) :
    ∀ x ∈ tmsU, x < maxL ts t0 → x ∈ integrationGrid tmsU tout := by
  intro x hx hlt
  subst h
  simp only [integrationGrid]
  rw [sortL_mem, List.mem_append]
  left
  rw [List.mem_filter]
  exact ⟨hx, by rw [real_lt]; exact hlt⟩

structure Statement : Prop where
  /-- the source still has the shape the schedule model assumes (grid expression, integrate-then-extract loop, rows selected by equality
      with the grid time, each row on its own copy of the solver state, flag read after the loop) — in both `_evolve` methods -/
  source_shape : ∀ x : ℝ,
    Generated.sched_grid_shape x = 1 ∧
    Generated.sched_integrate_first x = 1 ∧ Generated.sched_rows_by_equality x = 1 ∧ Generated.sched_row_owns_copy x = 1 ∧
    Generated.sched_flag_after_loop x = 1 ∧
    Generated.schedbh_integrate_first x = 1 ∧ Generated.schedbh_rows_by_equality x = 1 ∧ Generated.schedbh_row_owns_copy x = 1 ∧
    Generated.schedbh_flag_after_loop x = 1
  rows : ∀ {Y Row : Type} (flow : ℝ → ℝ → Y → Y) (extract : ℝ → Nat → Y → Row), ExactFlow flow →
    ∀ (tmsU tout : List ℝ) (y0 : Y) (rows0 : Nat → Option Row), (∀ t ∈ tout, 0 ≤ t) → (∀ t ∈ tmsU, 0 ≤ t) →
    ∀ i, i < tout.length →
      runSchedule flow extract tout (integrationGrid tmsU tout) 0 y0 rows0 i
        = some (extract (tout.getD i 0) i (flow 0 (tout.getD i 0) y0))
  grid_sorted : ∀ tmsU tout : List ℝ, (integrationGrid tmsU tout).Pairwise (· ≤ ·)
  grid_contains : ∀ (tmsU tout : List ℝ), ∀ t ∈ tout, t ∈ integrationGrid tmsU tout
  converged_iff : ∀ oks : List Bool, convergedFlag oks = true ↔ ∀ b ∈ oks, b = true

theorem grid_nonneg (tmsU tout : List ℝ) (h1 : ∀ t ∈ tout, 0 ≤ t) (h2 : ∀ t ∈ tmsU, 0 ≤ t) :
    ∀ t ∈ integrationGrid tmsU tout, 0 ≤ t := by
  intro t ht
  cases tout with
  | nil => simp [integrationGrid] at ht
  | cons t0 ts =>
    simp only [integrationGrid] at ht
    rw [sortL_mem, List.mem_append, List.mem_filter] at ht
    rcases ht with ⟨h, _⟩ | h
    · exact h2 t h
    · exact h1 t h

/-- **C06 (partial)**: exact-flow statement. dopri5 restarts its step control at every `integrate` call, so the real
    flow has the semigroup property only to integrator accuracy (checked by the schedule-differential sweep). -/
theorem C06_partial : Statement where
  source_shape := Bridge.gen_sched_shape
  rows := fun flow extract hf tmsU tout y0 rows0 h1 h2 i hi => by
    apply row_eq_single flow extract hf tout _ y0 rows0 _ (grid_contains_tout tmsU tout) i hi
    rw [List.pairwise_cons]
    exact ⟨grid_nonneg tmsU tout h1 h2, grid_sorted tmsU tout⟩
  grid_sorted := grid_sorted
  grid_contains := grid_contains_tout
  converged_iff := fun oks => by simp [convergedFlag, List.all_eq_true]

/-- non-vacuity: an exact flow exists (translation on ℝ), and a schedule with a repeat and a zero -/
example : ExactFlow (fun (t0 t1 : ℝ) (y : ℝ) => y + (t1 - t0)) := ⟨by intros; ring, by intros; ring⟩
example : (integrationGrid [(50:ℝ), 5] [100, 0, 100]).Pairwise (· ≤ ·) ∧ (100:ℝ) ∈ integrationGrid [(50:ℝ), 5] [100, 0, 100] :=
  ⟨grid_sorted _ _, grid_contains_tout _ _ _ (by simp)⟩

end Model.C06
