import SspModel.Props.C05
import SspModel.Lemmas.Bridge.Row
import SspModel.Props.C07
import SspModel.Props.C13
/-!
# C04 — every valid configuration yields a complete, finite, non-negative result

Lean part: the extraction of one row is defined and non-negative on every state with non-negative entries whose
truncated bins are above `Pk`'s resolution, and the filtered summary views are mutually consistent.
-/
namespace Model.C04
open Model

theorem extractStar_nonneg (n a lo hi Ms ms : ℝ) (hn : 0 ≤ n) (hlo : 0 < lo) (hlt : lo < hi)
    (h : extractStar n a lo hi = some (Ms, ms)) : 0 ≤ Ms ∧ (n ≠ 0 → 0 < ms) := by
  refine ⟨?_, fun hn0 => ?_⟩
  · unfold extractStar at h
    simp only [real_one, real_two] at h
    split at h
    · rename_i p1 p2 h1 h2
      cases h
      have hp1 : 0 < p1 := C12.Pk_never_nonpos _ _ _ _ _ h1
      have hp2 : 0 < p2 := C12.Pk_never_nonpos _ _ _ _ _ h2
      positivity
    · cases h; positivity
  · have := C05.star_mean_in_truncated_bin n a lo hi Ms ms hlo hlt hn0 h
    linarith [this.1]

/-- since the repair of the thin-bin case the extraction of a star bin is always defined (finite), whatever the age -/
theorem extractStar_defined (n a lo hi : ℝ) : ∃ Ms ms, extractStar n a lo hi = some (Ms, ms) := by
  unfold extractStar
  split <;> exact ⟨_, _, rfl⟩

theorem remMean_nonneg (lo hi N M : ℝ) (hlo : 0 ≤ lo) (hhi : 0 ≤ hi) (hM : 0 ≤ M) : 0 ≤ remMean lo hi N M := by
  unfold remMean
  have e5 : (@OfScientific.ofScientific ℝ ScalarLit.instOfSci 5 true 1) = (0.5:ℝ) := by rw [real_ofSci]; try norm_num
  simp only [real_zero, e5]
  split
  · rename_i h; rw [real_lt] at h; positivity
  · positivity

/-! ## summary views -/
theorem views_lengths (factor nmin : ℝ) (rows : List (ViewRow ℝ)) :
    let v := views factor nmin rows
    (viewM v).length = v.length ∧ (viewN v).length = v.length ∧ (viewm v).length = v.length ∧
    (viewTypes v).length = v.length ∧ viewNms v + viewNmr v = v.length := by
  intro v
  refine ⟨by simp [viewM], by simp [viewN], by simp [viewm], by simp [viewTypes], ?_⟩
  unfold viewNms viewNmr
  induction v with
  | nil => simp
  | cons r t ih =>
    simp only [List.filter_cons, List.length_cons]
    by_cases h : r.cls = 0
    · simp [h]; omega
    · simp [h]; omega

theorem views_m_eq (v : List (ViewRow ℝ)) (i : Nat) (hi : i < v.length) :
    (viewm v)[i]'(by simpa [viewm] using hi) = (viewM v)[i]'(by simpa [viewM] using hi) / (viewN v)[i]'(by simpa [viewN] using hi) := by
  simp [viewm, viewM, viewN]

/-- the views contain exactly the rows holding more than `factor·nmin` objects, in their original order -/
theorem views_exact (factor nmin : ℝ) (rows : List (ViewRow ℝ)) :
    (∀ r, r ∈ views factor nmin rows ↔ r ∈ rows ∧ factor * nmin < r.N) ∧
    (views factor nmin rows).Sublist rows := by
  refine ⟨fun r => ?_, List.filter_sublist⟩
  simp only [views, List.mem_filter, populated, real_lt]

/-- stars first, then WD, NS, BH: filtering keeps a class-sorted list class-sorted -/
theorem views_class_order (factor nmin : ℝ) (rows : List (ViewRow ℝ)) (h : rows.Pairwise (fun a b => a.cls ≤ b.cls)) :
    (views factor nmin rows).Pairwise (fun a b => a.cls ≤ b.cls) :=
  List.Pairwise.sublist List.filter_sublist h

structure Statement : Prop where
  /-- row extraction of a star bin (both model classes) and the row-level ejection budget are the source's own expressions -/
  source_row : ∀ n a lo hi : ℝ, extractStar n a lo hi =
      match Pk a 1 lo hi, Pk a 2 lo hi with
      | some p1, some p2 => some (Generated.row_Ms (Generated.row_As n p1) p2, Generated.row_ms (Generated.row_Ms (Generated.row_As n p1) p2) n)
      | _, _ => some (Generated.row_thin n lo, Generated.row_ms (Generated.row_thin n lo) n)
  source_row_bh : ∀ n p1 A p2 lo Ms : ℝ,
    Generated.rowbh_As n p1 = Generated.row_As n p1 ∧ Generated.rowbh_Ms A p2 = Generated.row_Ms A p2 ∧
    Generated.rowbh_thin n lo = Generated.row_thin n lo ∧ Generated.rowbh_ms Ms n = Generated.row_ms Ms n
  source_budget : ∀ formed ret mej kicked mret mmin nmin : ℝ,
    Generated.row_mej formed ret = formed * (1 - ret) ∧ Generated.row_mret formed mej = formed - mej ∧
    Generated.row_shortcut mret mmin nmin = (Scalar.le 0 (mret / mmin) && Scalar.lt (mret / mmin) nmin) ∧
    Generated.row_after_kicks mej kicked = mej - kicked ∧ Generated.row_over_budget mej = Scalar.lt mej 0
  star_nonneg : ∀ n a lo hi Ms ms : ℝ, 0 ≤ n → 0 < lo → lo < hi → extractStar n a lo hi = some (Ms, ms) →
    0 ≤ Ms ∧ (n ≠ 0 → 0 < ms)
  star_defined : ∀ n a lo hi : ℝ, ∃ Ms ms, extractStar n a lo hi = some (Ms, ms)
  rem_mean_nonneg : ∀ lo hi N M : ℝ, 0 ≤ lo → 0 ≤ hi → 0 ≤ M → 0 ≤ remMean lo hi N M
  /-- BH ejection and kicks keep counts and masses non-negative and defined (from C07, C15) -/
  eject_ok : ∀ (l r : List (ℝ × ℝ)) (mej : ℝ) (d : Bool), C07.NonNeg l → dynEjectRev l mej = .ok (r, d) →
    C07.NonNeg r ∧ d = true
  views_lengths : ∀ (factor nmin : ℝ) (rows : List (ViewRow ℝ)),
    (viewM (views factor nmin rows)).length = (views factor nmin rows).length ∧
    (viewN (views factor nmin rows)).length = (views factor nmin rows).length ∧
    (viewm (views factor nmin rows)).length = (views factor nmin rows).length ∧
    (viewTypes (views factor nmin rows)).length = (views factor nmin rows).length ∧
    viewNms (views factor nmin rows) + viewNmr (views factor nmin rows) = (views factor nmin rows).length
  views_exact : ∀ (factor nmin : ℝ) (rows : List (ViewRow ℝ)),
    (∀ r, r ∈ views factor nmin rows ↔ r ∈ rows ∧ factor * nmin < r.N) ∧ (views factor nmin rows).Sublist rows
  views_order : ∀ (factor nmin : ℝ) (rows : List (ViewRow ℝ)), rows.Pairwise (fun a b => a.cls ≤ b.cls) →
    (views factor nmin rows).Pairwise (fun a b => a.cls ≤ b.cls)
  /-- a remnant lookup on the tiled bins of its class never fails when the remnant mass lies inside the class's range -/
  lookup_ok : ∀ (bins : List (Bin ℝ)) (m : ℝ) (i : Nat), determineIndex bins m = .ok i →
    i < bins.length ∧ (bins.getD i (0, 0)).1 ≤ m

/-- **C04 (partial)**: the hypotheses of these theorems *at solver output* (no negative overshoot, truncated bins above the
    resolution, the solver never probing a time whose remnant falls outside its class's bins) are numerical facts about
    dopri5 and about the IFMR tables; they are what the random-configuration sweep looks for. -/
theorem C04_partial : Statement where
  source_row := Bridge.gen_extractStar
  source_row_bh := Bridge.gen_row_same_in_both_classes
  source_budget := Bridge.gen_row_budget
  star_nonneg := extractStar_nonneg
  star_defined := extractStar_defined
  rem_mean_nonneg := remMean_nonneg
  eject_ok := C07.nonneg_defined
  views_lengths := fun factor nmin rows => views_lengths factor nmin rows
  views_exact := views_exact
  views_order := views_class_order
  lookup_ok := fun bins m i h => ⟨(C13.determineIndex_sound bins m i h).1, (C13.determineIndex_sound bins m i h).2.1⟩

end Model.C04
