import SspModel.Lemmas.Pk
import SspModel.Lemmas.Invariant
import SspModel.Model.Extract
import SspModel.Props.C03
import SspModel.Props.C07
import SspModel.Props.C12
/-!
# C05 — mean masses lie inside their bins and remnant classes never mix
-/
namespace Model.C05
open Model

/-- a populated star bin's mean mass lies inside `[lower edge, (turn-off-truncated) upper edge]` — strictly inside whenever the
    truncated bin is wider than `Pk`'s resolution, on the lower edge for a bin truncated to (numerically) zero width -/
theorem star_mean_in_truncated_bin (n a lo hi Ms ms : ℝ) (hlo : 0 < lo) (hlt : lo < hi) (hn : n ≠ 0)
    (h : extractStar n a lo hi = some (Ms, ms)) :
    lo ≤ ms ∧ ms < hi ∧ Ms = n * ms ∧ ((Pk a 1 lo hi).isSome → (Pk a 2 lo hi).isSome → lo < ms) := by
  unfold extractStar at h
  simp only [real_one, real_two] at h
  have hthin : n * lo / n = lo := by field_simp
  split at h
  · rename_i p1 p2 h1 h2
    cases h
    have e1 := C03.Pk_some_eq _ _ _ _ _ h1
    have e2 := C03.Pk_some_eq _ _ _ _ _ h2
    have hp1 : 0 < p1 := C12.Pk_never_nonpos _ _ _ _ _ h1
    have hmean := mean_in_interval a lo hi hlo hlt
    have hms : n / p1 * p2 / n = p2 / p1 := by field_simp
    rw [hms, e1, e2]
    refine ⟨hmean.1.le, hmean.2, ?_, fun _ _ => hmean.1⟩
    rw [← e1, ← e2]; field_simp
  · -- thin bin: stars of the lower-edge mass
    rename_i hnot
    cases h
    rw [hthin]
    refine ⟨le_rfl, hlt, rfl, fun hs1 hs2 => ?_⟩
    exfalso
    obtain ⟨p1, hp1⟩ := Option.isSome_iff_exists.1 hs1
    obtain ⟨p2, hp2⟩ := Option.isSome_iff_exists.1 hs2
    exact hnot p1 p2 hp1 hp2

/-- the cone of a bin: lo·N ≤ M ≤ hi·N (mean mass inside the bin whenever it is populated) -/
def InCone (lo hi N M : ℝ) : Prop := lo * N ≤ M ∧ M ≤ hi * N

theorem cone_zero (lo hi : ℝ) : InCone lo hi 0 0 := by simp [InCone]

/-- a deposit of `dN ≥ 0` objects of mass `m ∈ [lo, hi]` keeps the bin in its cone -/
theorem cone_deposit (lo hi N M dN m : ℝ) (h : InCone lo hi N M) (hd : 0 ≤ dN) (hm1 : lo ≤ m) (hm2 : m ≤ hi) :
    InCone lo hi (N + dN) (M + m * dN) := by
  unfold InCone at *
  constructor <;> nlinarith

/-- escape, kicks and ejection change (N, M) by a common non-negative factor -/
theorem cone_scale (lo hi N M r : ℝ) (h : InCone lo hi N M) (hr : 0 ≤ r) : InCone lo hi (r * N) (r * M) := by
  unfold InCone at *
  constructor <;> nlinarith

/-- the escape derivative moves a remnant bin along its own ray: (dN, dM) = c·(N, M) in both branches -/
theorem escape_along_ray (md : ℝ) (r : ℝ × ℝ) (h : 0 < r.1) :
    ∃ c, remI md r = c * r.1 ∧ remJ md r = c * r.2 := by
  unfold remI remJ
  simp only [Scalar.lt, real_zero, h, decide_true, if_true]
  by_cases h2 : r.2 / r.1 < md
  · exact ⟨1 - Real.sqrt (r.2 / r.1 / md), by simp [h2]; ring, by simp [h2]; ring⟩
  · exact ⟨0, by simp [h2], by simp [h2]⟩

/-- dynamical ejection scales the partly depleted bin by a common factor -/
theorem eject_partial_scale (M N x : ℝ) (hM : M ≠ 0) :
    M - x = (1 - x / M) * M ∧ N - x / (M / N) = (1 - x / M) * N := by
  constructor
  · field_simp
  · by_cases hN : N = 0
    · simp [hN]
    · field_simp

/-- any finite sequence of deposits and rescalings starting from an empty bin stays in the cone -/
inductive Update | deposit (dN m : ℝ) | scale (r : ℝ)

def applyUpdate (s : ℝ × ℝ) : Update → ℝ × ℝ
  | .deposit dN m => (s.1 + dN, s.2 + m * dN)
  | .scale r => (r * s.1, r * s.2)

def ValidUpdate (lo hi : ℝ) : Update → Prop
  | .deposit dN m => 0 ≤ dN ∧ lo ≤ m ∧ m ≤ hi
  | .scale r => 0 ≤ r

theorem cone_invariant_discrete (lo hi : ℝ) (us : List Update) (hv : ∀ u ∈ us, ValidUpdate lo hi u) :
    let s := us.foldl applyUpdate (0, 0)
    InCone lo hi s.1 s.2 := by
  suffices h : ∀ (s0 : ℝ × ℝ), InCone lo hi s0.1 s0.2 →
      InCone lo hi (us.foldl applyUpdate s0).1 (us.foldl applyUpdate s0).2 from h (0, 0) (cone_zero lo hi)
  induction us with
  | nil => intro s0 h; simpa using h
  | cons u t ih =>
    intro s0 h0
    simp only [List.foldl_cons]
    apply ih (fun u hu => hv u (List.mem_cons_of_mem _ hu))
    have hu := hv u List.mem_cons_self
    cases u with
    | deposit dN m =>
      simp only [ValidUpdate] at hu
      exact cone_deposit lo hi s0.1 s0.2 dN m h0 hu.1 hu.2.1 hu.2.2
    | scale r =>
      simp only [ValidUpdate] at hu
      exact cone_scale lo hi s0.1 s0.2 r h0 hu

/-- in the cone and populated ⇒ the reported mean mass lies within the bin's own edges -/
theorem mean_in_bin_of_cone (lo hi N M : ℝ) (h : InCone lo hi N M) (hN : 0 < N) :
    lo ≤ remMean lo hi N M ∧ remMean lo hi N M ≤ hi := by
  unfold remMean InCone at *
  have : Scalar.lt (0:ℝ) N = true := by rw [real_lt]; exact hN
  simp only [real_zero, this, if_true]
  constructor
  · rw [le_div_iff₀ hN]; linarith [h.1]
  · rw [div_le_iff₀ hN]; linarith [h.2]

/-- NS bins hold exactly the NS mass: every deposit carries `nsMass`, so M = nsMass·N -/
theorem ns_mean_exact (nsMass : ℝ) (us : List Update) (hv : ∀ u ∈ us, ValidUpdate nsMass nsMass u) :
    (us.foldl applyUpdate (0, 0)).2 = nsMass * (us.foldl applyUpdate (0, 0)).1 := by
  have := cone_invariant_discrete nsMass nsMass us hv
  simp only [InCone] at this
  linarith [this.1, this.2]

/-- unpopulated remnant bins report their bin centre -/
theorem empty_bin_reports_centre (lo hi N M : ℝ) (hN : ¬ 0 < N) : remMean lo hi N M = 0.5 * (lo + hi) := by
  unfold remMean
  have : Scalar.lt (0:ℝ) N = false := by rw [real_lt_false]; exact hN
  have e5 : (@OfScientific.ofScientific ℝ ScalarLit.instOfSci 5 true 1) = (0.5:ℝ) := by rw [real_ofSci]; try norm_num
  simp only [real_zero, this, Bool.false_eq_true, if_false, e5]

structure Statement : Prop where
  star : ∀ n a lo hi Ms ms : ℝ, 0 < lo → lo < hi → n ≠ 0 → extractStar n a lo hi = some (Ms, ms) →
    lo ≤ ms ∧ ms < hi ∧ Ms = n * ms ∧ ((Pk a 1 lo hi).isSome → (Pk a 2 lo hi).isSome → lo < ms)
  cone : ∀ (lo hi : ℝ) (us : List Update), (∀ u ∈ us, ValidUpdate lo hi u) →
    InCone lo hi (us.foldl applyUpdate (0, 0)).1 (us.foldl applyUpdate (0, 0)).2
  /-- … and along an exact solution: deposits of mass `m(t) ∈ [lo, hi]` at rate `d(t) ≥ 0` plus removal at the bin's mean mass with
      any continuous fractional rate `κ(t)` (escape, ejection) keep `(N, M)` in the cone -/
  cone_flow : ∀ (N M d m κ : ℝ → ℝ) (lo hi t0 t1 : ℝ), Continuous κ →
    (∀ t ∈ Set.Icc t0 t1, HasDerivAt N (d t + κ t * N t) t) → (∀ t ∈ Set.Icc t0 t1, HasDerivAt M (m t * d t + κ t * M t) t) →
    (∀ t ∈ Set.Icc t0 t1, 0 ≤ d t) → (∀ t ∈ Set.Icc t0 t1, lo ≤ m t ∧ m t ≤ hi) → InCone lo hi (N t0) (M t0) →
    ∀ t ∈ Set.Icc t0 t1, InCone lo hi (N t) (M t)
  mean : ∀ lo hi N M : ℝ, InCone lo hi N M → 0 < N → lo ≤ remMean lo hi N M ∧ remMean lo hi N M ≤ hi
  ns : ∀ (nsMass : ℝ) (us : List Update), (∀ u ∈ us, ValidUpdate nsMass nsMass u) →
    (us.foldl applyUpdate (0, 0)).2 = nsMass * (us.foldl applyUpdate (0, 0)).1
  centre : ∀ lo hi N M : ℝ, ¬ 0 < N → remMean lo hi N M = 0.5 * (lo + hi)
  escape_ray : ∀ (md : ℝ) (r : ℝ × ℝ), 0 < r.1 → ∃ c, remI md r = c * r.1 ∧ remJ md r = c * r.2
  eject_ray : ∀ M N x : ℝ, M ≠ 0 → M - x = (1 - x / M) * M ∧ N - x / (M / N) = (1 - x / M) * N

/-- **C05 (partial)**: the discrete invariant and its continuous counterpart for exact solutions (`cone_flow`, by an integrating
    factor). dopri5 output is not an exact solution: its rows are checked by the sweep. -/
theorem C05_partial : Statement where
  star := star_mean_in_truncated_bin
  cone := cone_invariant_discrete
  cone_flow := fun N M d m κ lo hi t0 t1 hκ hN hM hd hm h0 => Invariant.cone_forward_invariant N M d m κ lo hi t0 t1 hκ hN hM hd hm h0
  mean := mean_in_bin_of_cone
  ns := ns_mean_exact
  centre := empty_bin_reports_centre
  escape_ray := escape_along_ray
  eject_ray := eject_partial_scale

example : ValidUpdate 1 2 (.deposit 3 1.5) ∧ ValidUpdate 1 2 (.scale 0.5) := by
  constructor <;> simp [ValidUpdate] <;> norm_num

/-- `cone_forward_invariant`'s hypotheses are met by a bin filled at unit rate with 2-Msun objects, cone [1, 3] -/
example : ∀ t ∈ Set.Icc (0:ℝ) 1, (1:ℝ) * t ≤ 2 * t ∧ 2 * t ≤ 3 * t := by
  have h := Invariant.cone_forward_invariant (fun t => t) (fun t => 2 * t) (fun _ => 1) (fun _ => 2) (fun _ => 0) 1 3 0 1
    continuous_const
    (fun t _ => by
      have := hasDerivAt_id' t
      refine this.congr_deriv ?_; ring)
    (fun t _ => by
      have := (hasDerivAt_id' t).const_mul (2:ℝ)
      refine this.congr_deriv ?_; ring)
    (fun _ _ => zero_le_one) (fun _ _ => ⟨by norm_num, by norm_num⟩) (by norm_num)
  exact h

end Model.C05
