import SspModel.Model.BHPop
import SspModel.Lemmas.Bridge.BHPop
import SspModel.Lemmas.Bridge.Sev
import SspModel.Props.C01
import SspModel.Props.C11
import SspModel.Props.C09
/-!
# C19 — the initial-BH-population shortcut agrees with the full model

* the nested derivative `_derivs_BHs` is the projection of the full `_derivs_sev` on (stars, BH) with full retention, up to
  the final age, and deposits nothing afterwards;
* the final age is the lifetime of the lightest BH progenitor + offset, and the turn-off mass then is that mass;
* the loss bookkeeping returns the IMF number and mass above the final turn-off mass (with the turn-off bin truncated),
  and the mass lost is at least the BH mass formed (remnants never outweigh their progenitors);
* a population built from a BH mass function has the IMF's binned numbers (C11).
-/
namespace Model.C19
open Model

/-! ## the nested derivative is a projection of the full one -/

theorem star_side (c : SevCfg ℝ) (fa t : ℝ) (Ns alpha : List ℝ) (b : BHOut ℝ) (o : SevOut ℝ)
    (hb : derivsBH c c.nmin fa t Ns alpha = .ok b) (ho : derivsSev c t Ns alpha = .ok o) :
    b.isev = o.isev ∧ b.dNs = o.dNs ∧ b.defined = o.defined := by
  unfold derivsBH at hb
  unfold derivsSev at ho
  cases hlast : c.tmsU.getLast? with
  | none => simp only [hlast] at hb ho; cases hb; cases ho; exact ⟨rfl, rfl, rfl⟩
  | some tlast =>
    simp only [hlast] at hb ho
    by_cases ht : Scalar.lt tlast t = true
    · simp only [ht, if_true] at hb ho
      cases hf : firstTurnedOff c.tmsU t 0 with
      | none => simp only [hf] at hb ho; cases hb; cases ho; exact ⟨rfl, rfl, rfl⟩
      | some isev =>
        simp only [hf] at hb ho
        split at hb
        · split at hb
          · split at hb
            · cases hb
              split at ho
              · split at ho
                · cases ho; exact ⟨rfl, rfl, rfl⟩
                · cases ho
              · cases ho; exact ⟨rfl, rfl, rfl⟩
            · cases hb
          all_goals first | cases hb
        · cases hb
          split at ho
          · split at ho
            · cases ho; exact ⟨rfl, rfl, rfl⟩
            · cases ho
          · cases ho; exact ⟨rfl, rfl, rfl⟩
    · simp only [ht] at hb ho
      cases hb; cases ho; exact ⟨rfl, rfl, rfl⟩


theorem bhEntry_zero (j : Nat) (i : Nat) : (BHOut.bhEntry (⟨none, 0, true, some (j, (0:ℝ), (0:ℝ))⟩ : BHOut ℝ) i) = (0, 0) := by
  unfold BHOut.bhEntry; simp

/-- up to the final age, with full BH retention, the BH entries of the nested derivative are those of the full derivative -/
theorem deposit_side (c : SevCfg ℝ) (fa t : ℝ) (Ns alpha : List ℝ) (b : BHOut ℝ) (o : SevOut ℝ)
    (hfull : c.fBH = 1) (hta : t ≤ fa)
    (hb : derivsBH c c.nmin fa t Ns alpha = .ok b) (ho : derivsSev c t Ns alpha = .ok o) (hflux : o.dNs ≤ 0) :
    ∀ i, b.bhEntry i = o.bhEntry i := by
  intro i
  unfold derivsBH at hb
  unfold derivsSev at ho
  cases hlast : c.tmsU.getLast? with
  | none => simp only [hlast] at hb ho; cases hb; cases ho; rfl
  | some tlast =>
    simp only [hlast] at hb ho
    by_cases ht : Scalar.lt tlast t = true
    · simp only [ht, if_true] at hb ho
      cases hf : firstTurnedOff c.tmsU t 0 with
      | none => simp only [hf] at hb ho; cases hb; cases ho; rfl
      | some isev =>
        simp only [hf] at hb ho
        have hle : Scalar.le t fa = true := by simp only [Scalar.le, decide_eq_true_eq]; exact hta
        simp only [hle, Bool.true_and, real_zero] at hb
        simp only [real_zero] at ho
        by_cases hm : Scalar.lt (0:ℝ) (predict c.ifmr (mtoFin c.a0 c.a1 c.a2 t)) = true
        · simp only [hm, if_true, Bool.and_true] at hb ho
          cases hcls : predictType c.ifmr (mtoFin c.a0 c.a1 c.a2 t) with
          | BH =>
            simp only [hcls, SevCfg.remBins, SevCfg.frem] at hb ho
            cases hidx : determineIndex c.bh (predict c.ifmr (mtoFin c.a0 c.a1 c.a2 t)) with
            | error e => simp only [hidx] at hb; cases hb
            | ok irem =>
              simp only [hidx] at hb ho
              cases hb
              split at ho
              · cases ho
                simp only [BHOut.bhEntry, SevOut.bhEntry, hfull, real_one, mul_one]
              · rename_i hneg
                cases ho
                simp only [Scalar.lt, real_zero, decide_eq_true_eq, not_lt] at hneg
                simp only at hflux
                have h0 : -(sevDNdm c.nmin (Ns.getD isev 0) (alpha.getD isev 0) (c.ms.getD isev (0, 0)).1
                    (mtoFin c.a0 c.a1 c.a2 t)).1 * dmdtAbs c.a0 c.a1 c.a2 t = 0 := le_antisymm hflux hneg
                simp only [BHOut.bhEntry, SevOut.bhEntry, h0, real_one, real_zero, mul_one, neg_zero, mul_zero]
                split <;> rfl
          | WD => simp only [hcls] at hb; cases hb
          | NS => simp only [hcls] at hb; cases hb
        · simp only [hm, Bool.and_false] at hb ho
          simp only [Bool.false_eq_true, if_false] at hb ho
          cases hb; cases ho; rfl
    · simp only [ht] at hb ho
      cases hb; cases ho; rfl

/-- after the final age nothing more is deposited (stars keep turning off) -/
theorem no_deposit_after (c : SevCfg ℝ) (nm fa t : ℝ) (Ns alpha : List ℝ) (b : BHOut ℝ) (hta : fa < t)
    (hb : derivsBH c nm fa t Ns alpha = .ok b) : b.rem = none := by
  unfold derivsBH at hb
  have hle : Scalar.le t fa = false := by simp only [Scalar.le, decide_eq_false_iff_not, not_le]; exact hta
  simp only [hle, Bool.false_and, Bool.false_eq_true, if_false] at hb
  split at hb
  · cases hb; rfl
  · split at hb
    · split at hb
      · cases hb; rfl
      · cases hb; rfl
    · cases hb; rfl


/-! ## the reported age -/

/-- at the reported age the turn-off mass is the lightest BH progenitor + offset -/
theorem mto_at_finalAge (c : SevCfg ℝ) (off : ℝ) (h0 : 0 < c.a0) (h1 : 0 < c.a1) (h2 : c.a2 ≠ 0) (hm : 0 < c.ifmr.bhLo + off) :
    mtoFin c.a0 c.a1 c.a2 (finalAge c off) = c.ifmr.bhLo + off := by
  unfold finalAge; exact mto_tms c.a0 c.a1 c.a2 _ h0 h1 h2 hm

/-- up to the reported age every star that turns off makes a BH (the `RuntimeError` cannot fire) -/
theorem class_BH_until_finalAge (c : SevCfg ℝ) (off t : ℝ) (h0 : 0 < c.a0) (h1 : 0 < c.a1) (h2 : c.a2 < 0)
    (hlo : 0 < c.ifmr.bhLo) (hoff : 0 ≤ off) (hw : c.ifmr.wdHi ≤ c.ifmr.bhLo) (ht0 : c.a0 < t) (ht : t ≤ finalAge c off) :
    predictType c.ifmr (mtoFin c.a0 c.a1 c.a2 t) = .BH := by
  have hm : 0 < c.ifmr.bhLo + off := by linarith
  have hfa : c.a0 < finalAge c off := by unfold finalAge; exact a0_lt_tms c.a0 c.a1 c.a2 _ h0 h1 hm
  have hanti := mtoFin_strictAntiOn c.a0 c.a1 c.a2 h0 h1 h2
  have hge : c.ifmr.bhLo + off ≤ mtoFin c.a0 c.a1 c.a2 t := by
    rw [← mto_at_finalAge c off h0 h1 h2.ne hm]
    rcases eq_or_lt_of_le ht with rfl | hlt
    · exact le_rfl
    · exact (hanti ht0 hfa hlt).le
  exact ((C09.predictType_spec c.ifmr _ hw).2.2).2 (by linarith)

/-! ## loss bookkeeping -/

/-- exact (residue-free) survivors of a bin when the turn-off mass is `mto` -/
noncomputable def ideal (b : ClosedBin ℝ) (mto : ℝ) : ℝ :=
  if b.u ≤ mto then b.n0 else if b.l < mto then b.A * PkCore b.a 1 b.l mto else 0

/-- IMF moment `k` of the part of the bin above `mto` -/
noncomputable def above (k : ℝ) (b : ClosedBin ℝ) (mto : ℝ) : ℝ := b.A * PkCore b.a k (max b.l (min mto b.u)) b.u

/-- the code's thin-aware mass is the plain formula whenever both moments are representable, and 0 for an empty bin -/
theorem massOfT_eq (n a l u : ℝ) (h : ((resolution : ℝ) ≤ PkCore a 1 l u ∧ (resolution : ℝ) ≤ PkCore a 2 l u) ∨ n = 0) :
    massOfT n a l u = massOf n a l u := by
  unfold massOfT massOf
  rcases h with ⟨h1, h2⟩ | h0
  · simp only [real_one, real_two]
    rw [C12.Pk_some_of_ge a 1 l u h1, C12.Pk_some_of_ge a 2 l u h2]
  · subst h0
    simp only [real_one, real_two]
    cases Pk a 1 l u <;> cases Pk a 2 l u <;> simp

theorem bin_losses (b : ClosedBin ℝ) (mto : ℝ) (hl : 0 < b.l) (hlu : b.l < b.u) :
    b.n0 - ideal b mto = above 1 b mto ∧
    b.A * PkCore b.a 2 b.l b.u - massOf (ideal b mto) b.a b.l (truncU b mto) = above 2 b mto := by
  have hu : 0 < b.u := lt_trans hl hlu
  unfold ideal above truncU massOf ClosedBin.n0
  simp only [Scalar.le, Scalar.lt, Bool.and_eq_true, decide_eq_true_eq, real_one, real_two]
  by_cases h1 : b.u ≤ mto
  · have hmin : min mto b.u = b.u := min_eq_right h1
    have hmax : max b.l b.u = b.u := max_eq_right hlu.le
    have hP := PkCore_pos b.a 1 b.l b.u hl hlu
    rw [if_pos h1, if_neg (by intro h; linarith [h.2]), hmin, hmax, PkCore_self _ _ _ hu, PkCore_self _ _ _ hu]
    constructor
    · ring
    · field_simp; ring
  · push Not at h1
    have hmin : min mto b.u = mto := min_eq_left h1.le
    rw [if_neg (by linarith), hmin]
    by_cases h2 : b.l < mto
    · have hmax : max b.l mto = mto := max_eq_right h2.le
      have hP := PkCore_pos b.a 1 b.l mto hl h2
      rw [if_pos h2, if_pos ⟨h2.le, h1⟩, hmax]
      have a1 := PkCore_add b.a 1 b.l mto b.u hl h2.le h1.le
      have a2 := PkCore_add b.a 2 b.l mto b.u hl h2.le h1.le
      constructor
      · rw [← a1]; ring
      · rw [← a2]; field_simp; ring
    · push Not at h2
      have hmax : max b.l mto = b.l := max_eq_left h2
      rw [if_neg (by linarith), hmax]
      constructor
      · ring
      · split <;> simp

theorem sumL_cons (x : ℝ) (t : List ℝ) : sumL (x :: t) = x + sumL t := rfl
theorem sumL_nil : sumL ([] : List ℝ) = 0 := by simp only [sumL, real_zero]

/-- **loss bookkeeping**: with residue-free final counts the reported losses are the IMF number and mass above the final turn-off -/
theorem losses_eq (bins : List (ClosedBin ℝ)) (mto : ℝ) (hpos : ∀ b ∈ bins, 0 < b.l ∧ b.l < b.u)
    (hwide : ∀ b ∈ bins, ((resolution : ℝ) ≤ PkCore b.a 1 b.l (truncU b mto) ∧ (resolution : ℝ) ≤ PkCore b.a 2 b.l (truncU b mto)) ∨
      ideal b mto = 0) :
    losses bins (bins.map (ideal · mto)) mto = (sumL (bins.map (above 1 · mto)), sumL (bins.map (above 2 · mto))) := by
  unfold losses
  induction bins with
  | nil => simp [sumL_nil]
  | cons b bs ih =>
    have hb := hpos b List.mem_cons_self
    have ih' := ih (fun x hx => hpos x (List.mem_cons_of_mem _ hx)) (fun x hx => hwide x (List.mem_cons_of_mem _ hx))
    obtain ⟨l1, l2⟩ := bin_losses b mto hb.1 hb.2
    rw [← massOfT_eq _ _ _ _ (hwide b List.mem_cons_self)] at l2
    simp only [List.map_cons, List.zip_cons_cons, sumL_cons, Prod.mk.injEq] at ih' ⊢
    obtain ⟨i1, i2⟩ := ih'
    constructor
    · rw [← l1, ← i1]; ring
    · rw [← l2, ← i2]; ring

/-! ## the stellar mass lost is at least the BH mass formed -/

/-- a piece of progenitors `[p, q]` whose (linear) remnant mass does not exceed the progenitor mass at both ends yields at most
    the progenitors' own mass -/
theorem piece_mass_le (b : ClosedBin ℝ) (p q yp yq : ℝ) (hp : 0 < p) (hpq : p < q) (hA : 0 ≤ b.A) (h1 : yp ≤ p) (h2 : yq ≤ q) :
    (pieceNM b p q yp yq).2 ≤ b.A * PkCore b.a 2 p q := by
  unfold pieceNM
  simp only [real_one, real_two]
  obtain ⟨m1, m2⟩ := mean_in_interval b.a p q hp hpq
  have hP := PkCore_pos b.a 1 p q hp hpq
  rw [lt_div_iff₀ hP] at m1
  rw [div_lt_iff₀ hP] at m2
  have hd : 0 < q - p := by linarith
  set P1 := PkCore b.a 1 p q
  set P2 := PkCore b.a 2 p q
  set s := (yq - yp) / (q - p) with hs
  have hsq : s * (q - p) = yq - yp := by rw [hs]; field_simp
  -- A·P2 − [yp·A·P1 + s·(A·P2 − p·A·P1)] = A·[(P2 − p·P1)(1 − s) + P1 (p − yp)]
  by_cases hs1 : s ≤ 1
  · have : b.A * P2 - (yp * (b.A * P1) + s * (b.A * P2 - p * (b.A * P1)))
        = b.A * ((P2 - p * P1) * (1 - s) + P1 * (p - yp)) := by ring
    have hnn : 0 ≤ (P2 - p * P1) * (1 - s) + P1 * (p - yp) := by
      have t1 : 0 ≤ (P2 - p * P1) * (1 - s) := mul_nonneg (by linarith) (by linarith)
      have t2 : 0 ≤ P1 * (p - yp) := mul_nonneg hP.le (by linarith)
      linarith
    nlinarith [mul_nonneg hA hnn]
  · push Not at hs1
    have : b.A * P2 - (yp * (b.A * P1) + s * (b.A * P2 - p * (b.A * P1)))
        = b.A * ((q * P1 - P2) * (s - 1) + P1 * (q - yq)) := by
      have : yp = yq - s * (q - p) := by linarith
      rw [this]; ring
    have hnn : 0 ≤ (q * P1 - P2) * (s - 1) + P1 * (q - yq) := by
      have t1 : 0 ≤ (q * P1 - P2) * (s - 1) := mul_nonneg (by linarith) (by linarith)
      have t2 : 0 ≤ P1 * (q - yq) := mul_nonneg hP.le (by linarith)
      linarith
    nlinarith [mul_nonneg hA hnn]

structure Statement : Prop where
  /-- the hard-coded "empty bin" threshold of the nested derivative is `EvolvedMF`'s `Nmin`; the age offset is 0.1 Msun -/
  source_nmin : (Generated.NminBH : ℝ) = Generated.Nmin
  source_offset : (Generated.finalAgeOffset : ℝ) = 1e-1
  /-- the entries of the nested derivative are those of `_derivs_sev` (frem = 1, hard-coded 0.1, extra `t <= final_age`) -/
  source_entries : ∀ (Nj p Aj mto aj dNdm dmdt dNdt frem mrem m1 t fa : ℝ),
    Generated.bh_Aj Nj p = Generated.sev_Aj Nj p ∧ Generated.bh_dNdm Aj mto aj = Generated.sev_dNdm Aj mto aj ∧
    Generated.bh_dNdt dNdm dmdt = Generated.sev_dNdt dNdm dmdt ∧ Generated.bh_dNr dNdt frem = Generated.sev_dNr dNdt frem ∧
    Generated.bh_dMr mrem dNdt frem = Generated.sev_dMr mrem dNdt frem ∧
    Generated.bh_active mto m1 Nj = Generated.sev_active mto m1 Nj Generated.NminBH ∧
    Generated.bh_gate t fa mrem = (Scalar.le t fa && Scalar.lt 0 mrem) ∧
    Generated.bh_frem (0 : ℝ) = 1
  /-- the source's duplicated lifetime closures are the model's (and hence `EvolvedMF`'s) -/
  source_tms : ∀ a0 a1 a2 m : ℝ, Generated.tms_bh a0 a1 a2 m = Generated.tms_main a0 a1 a2 m
  source_dmdt : ∀ a0 a1 a2 t : ℝ, Generated.dmdt_bh a0 a1 a2 t = Generated.dmdt_sev a0 a1 a2 t
  source_mto : ∀ a0 a1 a2 t : ℝ,
    (if Generated.mto_bh_cond a0 t then some (Generated.mto_bh_fin a0 a1 a2 t) else none) =
    (if Generated.mto_main_cond a0 t then some (Generated.mto_main_fin a0 a1 a2 t) else none)
  stars : ∀ (c : SevCfg ℝ) (fa t : ℝ) (Ns alpha : List ℝ) (b : BHOut ℝ) (o : SevOut ℝ),
    derivsBH c c.nmin fa t Ns alpha = .ok b → derivsSev c t Ns alpha = .ok o →
    b.isev = o.isev ∧ b.dNs = o.dNs ∧ b.defined = o.defined
  deposit : ∀ (c : SevCfg ℝ) (fa t : ℝ) (Ns alpha : List ℝ) (b : BHOut ℝ) (o : SevOut ℝ), c.fBH = 1 → t ≤ fa →
    derivsBH c c.nmin fa t Ns alpha = .ok b → derivsSev c t Ns alpha = .ok o → o.dNs ≤ 0 → ∀ i, b.bhEntry i = o.bhEntry i
  stops : ∀ (c : SevCfg ℝ) (nm fa t : ℝ) (Ns alpha : List ℝ) (b : BHOut ℝ), fa < t →
    derivsBH c nm fa t Ns alpha = .ok b → b.rem = none
  age : ∀ (c : SevCfg ℝ) (off : ℝ), 0 < c.a0 → 0 < c.a1 → c.a2 ≠ 0 → 0 < c.ifmr.bhLo + off →
    mtoFin c.a0 c.a1 c.a2 (finalAge c off) = c.ifmr.bhLo + off
  all_BH : ∀ (c : SevCfg ℝ) (off t : ℝ), 0 < c.a0 → 0 < c.a1 → c.a2 < 0 → 0 < c.ifmr.bhLo → 0 ≤ off →
    c.ifmr.wdHi ≤ c.ifmr.bhLo → c.a0 < t → t ≤ finalAge c off → predictType c.ifmr (mtoFin c.a0 c.a1 c.a2 t) = .BH
  lost : ∀ (bins : List (ClosedBin ℝ)) (mto : ℝ), (∀ b ∈ bins, 0 < b.l ∧ b.l < b.u) →
    (∀ b ∈ bins, ((resolution : ℝ) ≤ PkCore b.a 1 b.l (truncU b mto) ∧ (resolution : ℝ) ≤ PkCore b.a 2 b.l (truncU b mto)) ∨
      ideal b mto = 0) →
    losses bins (bins.map (ideal · mto)) mto = (sumL (bins.map (above 1 · mto)), sumL (bins.map (above 2 · mto)))
  mass_not_gained : ∀ (b : ClosedBin ℝ) (p q yp yq : ℝ), 0 < p → p < q → 0 ≤ b.A → yp ≤ p → yq ≤ q →
    (pieceNM b p q yp yq).2 ≤ b.A * PkCore b.a 2 p q
  /-- a population built from a mass function: each bin gets the IMF integrals, with the bin's segment slope (C11) -/
  bhmf : ∀ (ext : Nat) (segs : List (Seg ℝ)) (n : ℝ) (bins : List (Bin ℝ)),
    fromBHMF ext segs n bins = bins.map fun b => binnedEval1 ext segs n b.1 b.2
  bhmf_total : ∀ (segs : List (Seg ℝ)) (n : ℝ), SegsPos segs → segs ≠ [] → C11.totalIntegral segs (imfA segs) n = n
  bhmf_aligned : ∀ (a k e0 : ℝ) (es : List ℝ), 0 < e0 → (e0 :: es).IsChain (· ≤ ·) →
    ((e0 :: es).zipWith (fun l u => PkCore a k l u) es).sum = PkCore a k e0 ((e0 :: es).getLast (by simp))

/-- **C19 (partial)**: derivative-level agreement, age, bookkeeping and construction are proved; that dopri5 output of the two
    ODE systems agrees is observed (default and tightened tolerance); kicks are C15's per-bin theorem. -/
theorem C19_partial : Statement where
  source_entries := Bridge.gen_bh_entries
  source_nmin := by simp only [Generated.NminBH, Generated.Nmin]
  source_offset := by simp only [Generated.finalAgeOffset, real_ofSci]; try norm_num
  source_tms := fun a0 a1 a2 m => by rw [Bridge.gen_tms_bh, Bridge.gen_tms_main]
  source_dmdt := fun a0 a1 a2 t => by rw [Bridge.gen_dmdt_bh, Bridge.gen_dmdt_sev]
  source_mto := fun a0 a1 a2 t => by rw [Bridge.gen_mto_bh, Bridge.gen_mto_main]
  stars := star_side
  deposit := deposit_side
  stops := no_deposit_after
  age := mto_at_finalAge
  all_BH := class_BH_until_finalAge
  lost := losses_eq
  mass_not_gained := piece_mass_le
  bhmf := fun _ _ _ _ => rfl
  bhmf_total := C11.C11_partial.normalised
  bhmf_aligned := C11.C11_partial.aligned_sum

end Model.C19
