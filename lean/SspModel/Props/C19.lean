import SspModel.Model.BHPop
import SspModel.Lemmas.Bridge.BHPop
import SspModel.Lemmas.Bridge.Sev
import SspModel.Props.C01
import SspModel.Props.C11
/-!
# C19 — the initial-BH-population shortcut agrees with the full model

* the nested derivative `_derivs_BHs` is the projection of the full `_derivs_sev` on (stars, BH) with full retention, up to
  the final age, and deposits nothing afterwards;
* the final age is the lifetime of the lightest BH progenitor + offset, and the turn-off mass then is that mass;
* the loss bookkeeping returns the IMF number and mass above the final turn-off mass (with the turn-off bin truncated),
  and the mass lost is at least the BH mass formed (remnants never outweigh their progenitors);
* a population built from a BH mass function has the IMF's binned numbers (C11).
-/
namespace Model.C19
open Model

/-! ## the nested derivative is a projection of the full one -/

theorem star_side (c : SevCfg ℝ) (fa t : ℝ) (Ns alpha : List ℝ) (b : BHOut ℝ) (o : SevOut ℝ)
    (hb : derivsBH c c.nmin fa t Ns alpha = .ok b) (ho : derivsSev c t Ns alpha = .ok o) :
    b.isev = o.isev ∧ b.dNs = o.dNs ∧ b.defined = o.defined := by
  unfold derivsBH at hb
  unfold derivsSev at ho
  cases hlast : c.tmsU.getLast? with
  | none => simp only [hlast] at hb ho; cases hb; cases ho; exact ⟨rfl, rfl, rfl⟩
  | some tlast =>
    simp only [hlast] at hb ho
    by_cases ht : Scalar.lt tlast t = true
    · simp only [ht, if_true] at hb ho
      cases hf : firstTurnedOff c.tmsU t 0 with
      | none => simp only [hf] at hb ho; cases hb; cases ho; exact ⟨rfl, rfl, rfl⟩
      | some isev =>
        simp only [hf] at hb ho
        split at hb
        · split at hb
          · split at hb
            · cases hb
              split at ho
              · split at ho
                · cases ho; exact ⟨rfl, rfl, rfl⟩
                · cases ho
              · cases ho; exact ⟨rfl, rfl, rfl⟩
            · cases hb
          all_goals first | cases hb
        · cases hb
          split at ho
          · split at ho
            · cases ho; exact ⟨rfl, rfl, rfl⟩
            · cases ho
          · cases ho; exact ⟨rfl, rfl, rfl⟩
    · simp only [ht] at hb ho
      cases hb; cases ho; exact ⟨rfl, rfl, rfl⟩

end Model.C19
