import SspModel.Lemmas.Eject
import SspModel.Lemmas.Bridge.Mrem
import SspModel.Lemmas.Bridge.Eject
/-!
# C08 — the requested final black-hole mass fraction is met

`targetEjectRev bins MBH Mtot f` is the loop of `EvolvedMFWithBH._dyn_eject_BH` on the bins listed heaviest
first, `MBH = Σ bins`, `Mtot` the total cluster mass before ejection, `f` the target fraction.
`Generated.mrem` is the closed-form "mass to remove" expression extracted from the source.
-/
namespace Model.C08
open Model Scalar

def NonNeg (l : List (ℝ × ℝ)) : Prop := ∀ b ∈ l, 0 ≤ b.1 ∧ 0 ≤ b.2

/-- the source's closed form removes exactly what is needed: (Mb − x)/(Mt − x) = f -/
theorem mrem_closed_form (Mb Mt f : ℝ) (hf : f < 1) (hlt : Mb < Mt) (hMt : 0 < Mt) :
    let x := Generated.mrem (Mb / Mt - f) Mb Mt
    (Mb - x) / (Mt - x) = f ∧ x = (Mb - f * Mt) / (1 - f) := by
  intro x
  have h1f : (1 - f) ≠ 0 := by linarith
  have hx : x = (Mb - f * Mt) / (1 - f) := by
    simp only [x, Bridge.gen_mrem, Mrem, real_rpow, real_two, real_one]
    have hden : Mt * (1 + (Mb / Mt - f)) - Mb = Mt * (1 - f) := by field_simp; ring
    rw [hden]
    have : Mt ^ (2:ℝ) = Mt * Mt := by rw [Real.rpow_two]; ring
    rw [this]; field_simp
  refine ⟨?_, hx⟩
  rw [hx]
  have hne : Mt - (Mb - f * Mt) / (1 - f) = (Mt - Mb) / (1 - f) := by field_simp; ring
  have hnum : Mb - (Mb - f * Mt) / (1 - f) = f * (Mt - Mb) / (1 - f) := by field_simp; ring
  rw [hne, hnum]
  have : Mt - Mb ≠ 0 := by linarith
  field_simp

theorem targetEjectRev_cons (m n : ℝ) (rest : List (ℝ × ℝ)) (MBH Mtot f : ℝ) :
    targetEjectRev ((m, n) :: rest) MBH Mtot f =
      if f < MBH / Mtot then
        if f ≤ (MBH - m) / (Mtot - m) then
          (((0:ℝ), (0:ℝ)) :: (targetEjectRev rest (MBH - m) (Mtot - m) f).1, (targetEjectRev rest (MBH - m) (Mtot - m) f).2)
        else
          ((m - Mrem (MBH / Mtot - f) MBH Mtot, n - Mrem (MBH / Mtot - f) MBH Mtot / (m / n)) :: rest, !(decide (m = 0)))
      else ((m, n) :: rest, true) := by
  simp only [targetEjectRev, Scalar.lt, Scalar.le, Scalar.beq, real_zero]
  by_cases h1 : f < MBH / Mtot
  · by_cases h2 : f ≤ (MBH - m) / (Mtot - m)
    · simp [h1, h2]
    · simp [h1, h2]
  · simp [h1]

/-- the whole loop: after it the BH mass fraction equals the target, for every feasible target -/
theorem target_fraction (l : List (ℝ × ℝ)) (MBH Mtot f : ℝ) (hsum : sumFst l = MBH) (hf0 : 0 ≤ f) (hf1 : f < 1)
    (hl : ∀ b ∈ l, 0 ≤ b.1) (hlt : MBH < Mtot) (hfeas : f ≤ MBH / Mtot) :
    let r := (targetEjectRev l MBH Mtot f).1
    sumFst r / (Mtot - (MBH - sumFst r)) = f ∧ sumFst r ≤ MBH := by
  induction l generalizing MBH Mtot with
  | nil =>
    intro r
    rw [sumFst_nil] at hsum
    subst hsum
    have hMt : 0 < Mtot := hlt
    have : f = 0 := by
      have : (0:ℝ) / Mtot = 0 := zero_div _
      rw [this] at hfeas; linarith
    simp [r, targetEjectRev, sumFst_nil, this]
  | cons hd tl ih =>
    obtain ⟨m, n⟩ := hd
    intro r
    have hm0 : 0 ≤ m := hl (m, n) List.mem_cons_self
    have htl : ∀ b ∈ tl, 0 ≤ b.1 := fun b hb => hl b (List.mem_cons_of_mem _ hb)
    have hs_tl := sumFst_nonneg tl htl
    rw [sumFst_cons] at hsum
    have hMt : 0 < Mtot := by linarith
    simp only [r]
    rw [targetEjectRev_cons]
    by_cases h1 : f < MBH / Mtot
    · rw [if_pos h1]
      have hMtm : 0 < Mtot - m := by linarith
      by_cases h2 : f ≤ (MBH - m) / (Mtot - m)
      · rw [if_pos h2]
        have := ih (MBH - m) (Mtot - m) (by linarith) htl (by linarith) h2
        simp only at this
        obtain ⟨hfr, hle⟩ := this
        simp only [sumFst_cons, zero_add]
        refine ⟨?_, by linarith⟩
        have : Mtot - (MBH - sumFst (targetEjectRev tl (MBH - m) (Mtot - m) f).1)
            = Mtot - m - (MBH - m - sumFst (targetEjectRev tl (MBH - m) (Mtot - m) f).1) := by ring
        rw [this]; exact hfr
      · rw [if_neg h2]
        simp only [sumFst_cons]
        obtain ⟨hcf, hx⟩ := mrem_closed_form MBH Mtot f hf1 hlt hMt
        simp only [Bridge.gen_mrem] at hcf hx
        have h1f : 0 < 1 - f := by linarith
        have hxpos : 0 < Mrem (MBH / Mtot - f) MBH Mtot := by
          rw [hx]; apply div_pos _ h1f
          rw [lt_div_iff₀ hMt] at h1; linarith
        refine ⟨?_, by linarith⟩
        have e1 : m - Mrem (MBH / Mtot - f) MBH Mtot + sumFst tl = MBH - Mrem (MBH / Mtot - f) MBH Mtot := by linarith
        rw [e1]
        have e2 : Mtot - (MBH - (MBH - Mrem (MBH / Mtot - f) MBH Mtot)) = Mtot - Mrem (MBH / Mtot - f) MBH Mtot := by ring
        rw [e2]; exact hcf
    · rw [if_neg h1]
      have : f = MBH / Mtot := le_antisymm hfeas (not_lt.1 h1)
      simp only [sumFst_cons]
      refine ⟨?_, by linarith⟩
      rw [hsum]; rw [this]; congr 1; ring

/-- in the partly depleted bin the amount removed is positive and smaller than the bin -/
theorem partial_amount (m MBH Mtot f : ℝ) (hf0 : 0 ≤ f) (hf1 : f < 1) (hm : 0 ≤ m) (hmle : m ≤ MBH) (hlt : MBH < Mtot)
    (h1 : f < MBH / Mtot) (h2 : ¬ f ≤ (MBH - m) / (Mtot - m)) :
    0 < Mrem (MBH / Mtot - f) MBH Mtot ∧ Mrem (MBH / Mtot - f) MBH Mtot < m := by
  have hMt : 0 < Mtot := by linarith
  obtain ⟨_, hx⟩ := mrem_closed_form MBH Mtot f hf1 hlt hMt
  simp only [Bridge.gen_mrem] at hx
  have h1f : 0 < 1 - f := by linarith
  rw [hx]
  constructor
  · apply div_pos _ h1f
    rw [lt_div_iff₀ hMt] at h1; linarith
  · rw [div_lt_iff₀ h1f]
    have hMtm : 0 < Mtot - m := by linarith
    rw [not_le, div_lt_iff₀ hMtm] at h2
    nlinarith

/-- nothing becomes negative and the result is defined -/
theorem target_nonneg (l : List (ℝ × ℝ)) (MBH Mtot f : ℝ) (hsum : sumFst l = MBH) (hf0 : 0 ≤ f) (hf1 : f < 1)
    (hl : NonNeg l) (hlt : MBH < Mtot) :
    NonNeg (targetEjectRev l MBH Mtot f).1 ∧ (targetEjectRev l MBH Mtot f).2 = true := by
  induction l generalizing MBH Mtot with
  | nil => simp [targetEjectRev, NonNeg]
  | cons hd tl ih =>
    obtain ⟨m, n⟩ := hd
    have hmn := hl (m, n) List.mem_cons_self
    have htl : NonNeg tl := fun b hb => hl b (List.mem_cons_of_mem _ hb)
    have hs_tl := sumFst_nonneg tl (fun b hb => (htl b hb).1)
    rw [sumFst_cons] at hsum
    rw [targetEjectRev_cons]
    by_cases h1 : f < MBH / Mtot
    · rw [if_pos h1]
      by_cases h2 : f ≤ (MBH - m) / (Mtot - m)
      · rw [if_pos h2]
        obtain ⟨hnn, hd⟩ := ih (MBH - m) (Mtot - m) (by linarith) htl (by linarith)
        refine ⟨?_, hd⟩
        intro b hb
        rcases List.mem_cons.1 hb with rfl | hb
        · simp
        · exact hnn b hb
      · rw [if_neg h2]
        obtain ⟨hpos, hltm⟩ := partial_amount m MBH Mtot f hf0 hf1 hmn.1 (by linarith) hlt h1 h2
        have hm : m ≠ 0 := by intro h; rw [h] at hltm; linarith
        refine ⟨?_, by simp [hm]⟩
        intro b hb
        rcases List.mem_cons.1 hb with rfl | hb
        · have := partial_nonneg m n _ hmn.1 hmn.2 hpos.le hltm.le
          exact ⟨this.1, this.2.1⟩
        · exact htl b hb
    · rw [if_neg h1]; exact ⟨hl, rfl⟩

/-- shape: heaviest first — emptied bins, then at most one partly depleted bin (mean preserved), rest untouched -/
theorem target_shape (l : List (ℝ × ℝ)) (MBH Mtot f : ℝ) :
    ∃ (pre : List (ℝ × ℝ)) (post : List (ℝ × ℝ)),
      l = pre ++ post ∧
      ((targetEjectRev l MBH Mtot f).1 = pre.map (fun _ => ((0:ℝ), (0:ℝ))) ++ post ∨
       ∃ b post' x, post = b :: post' ∧
         (targetEjectRev l MBH Mtot f).1 = pre.map (fun _ => ((0:ℝ), (0:ℝ))) ++ (b.1 - x, b.2 - x / (b.1 / b.2)) :: post') := by
  induction l generalizing MBH Mtot with
  | nil => exact ⟨[], [], rfl, Or.inl (by simp [targetEjectRev])⟩
  | cons hd tl ih =>
    obtain ⟨m, n⟩ := hd
    rw [targetEjectRev_cons]
    by_cases h1 : f < MBH / Mtot
    · rw [if_pos h1]
      by_cases h2 : f ≤ (MBH - m) / (Mtot - m)
      · rw [if_pos h2]
        obtain ⟨pre, post, hl, hr⟩ := ih (MBH - m) (Mtot - m)
        refine ⟨(m, n) :: pre, post, by simp [hl], ?_⟩
        rcases hr with hr | ⟨b, post', x, hp, hr⟩
        · left; simp [hr]
        · right; exact ⟨b, post', x, hp, by simp [hr]⟩
      · rw [if_neg h2]
        exact ⟨[], (m, n) :: tl, rfl, Or.inr ⟨(m, n), tl, Mrem (MBH / Mtot - f) MBH Mtot, rfl, by simp⟩⟩
    · rw [if_neg h1]
      exact ⟨[], (m, n) :: tl, rfl, Or.inl (by simp)⟩

/-- an unreachable target leaves the BHs as formed (non-strict mode passes "harmlessly" through the loop) -/
theorem target_infeasible (l : List (ℝ × ℝ)) (MBH Mtot f : ℝ) (h : MBH / Mtot ≤ f) :
    targetEjectRev l MBH Mtot f = (l, true) := by
  cases l with
  | nil => simp [targetEjectRev]
  | cons hd tl => obtain ⟨m, n⟩ := hd; rw [targetEjectRev_cons, if_neg (not_lt.2 h)]

structure Statement : Prop where
  /-- one step of the model's target loop is the source's own (loop condition, whole-bin test, running totals, requested fraction,
      partial removal; the amount is still `Mrem(Δfreq, MBH, Mtot)`) -/
  source_step : ∀ (m n MBH Mtot f : ℝ) (rest : List (ℝ × ℝ)),
    targetEjectRev ((m, n) :: rest) MBH Mtot f =
      if Generated.target_cond f MBH Mtot then
        if Generated.target_whole m MBH Mtot f then
          ((0, 0) :: (targetEjectRev rest (Generated.target_MBH m MBH) (Generated.target_Mtot m Mtot) f).1,
           (targetEjectRev rest (Generated.target_MBH m MBH) (Generated.target_Mtot m Mtot) f).2)
        else
          let req := Mrem (Generated.target_dfreq (MBH / Mtot) f) MBH Mtot
          ((Generated.target_partM m n req, Generated.target_partN m n req) :: rest, !(Scalar.beq m 0))
      else ((m, n) :: rest, true)
  source_amount : ∀ x : ℝ, Generated.target_mreq_is_Mrem x = 1
  closed_form : ∀ Mb Mt f : ℝ, f < 1 → Mb < Mt → 0 < Mt →
    (Mb - Generated.mrem (Mb / Mt - f) Mb Mt) / (Mt - Generated.mrem (Mb / Mt - f) Mb Mt) = f
  fraction : ∀ (l : List (ℝ × ℝ)) (MBH Mtot f : ℝ), sumFst l = MBH → 0 ≤ f → f < 1 → NonNeg l → MBH < Mtot →
    f ≤ MBH / Mtot →
    sumFst (targetEjectRev l MBH Mtot f).1 / (Mtot - (MBH - sumFst (targetEjectRev l MBH Mtot f).1)) = f
  nonneg_defined : ∀ (l : List (ℝ × ℝ)) (MBH Mtot f : ℝ), sumFst l = MBH → 0 ≤ f → f < 1 → NonNeg l → MBH < Mtot →
    NonNeg (targetEjectRev l MBH Mtot f).1 ∧ (targetEjectRev l MBH Mtot f).2 = true
  shape : ∀ (l : List (ℝ × ℝ)) (MBH Mtot f : ℝ), ∃ (pre post : List (ℝ × ℝ)), l = pre ++ post ∧
      ((targetEjectRev l MBH Mtot f).1 = pre.map (fun _ => ((0:ℝ), (0:ℝ))) ++ post ∨
       ∃ b post' x, post = b :: post' ∧
         (targetEjectRev l MBH Mtot f).1 = pre.map (fun _ => ((0:ℝ), (0:ℝ))) ++ (b.1 - x, b.2 - x / (b.1 / b.2)) :: post')
  infeasible : ∀ (l : List (ℝ × ℝ)) (MBH Mtot f : ℝ), MBH / Mtot ≤ f → targetEjectRev l MBH Mtot f = (l, true)

/-- **C08 (partial)**: the loop-level content. Not covered here: "stars and other remnants identical to the standard
    model" and the strict-mode `ValueError` (both decided by the correspondence / sweep and by C06/C17). -/
theorem C08_partial : Statement where
  source_step := Bridge.gen_targetEjectRev_cons
  source_amount := Bridge.gen_target_mreq
  closed_form := fun Mb Mt f h1 h2 h3 => (mrem_closed_form Mb Mt f h1 h2 h3).1
  fraction := fun l MBH Mtot f hs h0 h1 hl hlt hfe =>
    (target_fraction l MBH Mtot f hs h0 h1 (fun b hb => (hl b hb).1) hlt hfe).1
  nonneg_defined := fun l MBH Mtot f hs h0 h1 hl hlt => target_nonneg l MBH Mtot f hs h0 h1 hl hlt
  shape := target_shape
  infeasible := target_infeasible

/-- non-vacuity -/
example : sumFst [((30:ℝ), (1:ℝ)), (20, 2)] = 50 ∧ (50:ℝ) < 1000 ∧ (0.01:ℝ) ≤ 50 / 1000 := by
  simp only [sumFst_cons, sumFst_nil]; norm_num

end Model.C08
