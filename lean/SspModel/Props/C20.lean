import SspModel.Lemmas.Pk
import SspModel.Model.Kroupa
import SspModel.Generated.Formulas
import Mathlib.Tactic.IntervalCases
/-!
# C20 — the legacy Kroupa density is a normalised, continuous, non-negative PDF
-/
namespace Model.C20
open Model

theorem kMom0_real (xmin xmax a : ℝ) :
    kMom0 xmin xmax a = if a = 1 then Real.log xmax - Real.log xmin else (xmax ^ (1 - a) - xmin ^ (1 - a)) / (1 - a) := by
  unfold kMom0; by_cases h : a = 1 <;> simp [h, Scalar.beq]
theorem kMom1_real (xmin xmax a : ℝ) :
    kMom1 xmin xmax a = if a = 2 then Real.log xmax - Real.log xmin else (xmax ^ (2 - a) - xmin ^ (2 - a)) / (2 - a) := by
  unfold kMom1; by_cases h : a = 2 <;> simp [h, Scalar.beq]

/-- the moment helpers are the moment integral of C12 (including the special exponents 1 and 2) -/
theorem kMom0_eq_Pk (xmin xmax a : ℝ) (h1 : 0 < xmin) (h2 : 0 < xmax) : kMom0 xmin xmax a = PkCore (-a) 1 xmin xmax := by
  rw [kMom0_real, PkCore_real]
  by_cases h : a = 1
  · simp only [h, if_true, neg_neg]; rw [Real.log_div h2.ne' h1.ne']
  · have : ¬ (- -a = 1) := by simpa using h
    simp only [h, this, if_false]
    have e : -a + 1 = 1 - a := by ring
    rw [e]
theorem kMom1_eq_Pk (xmin xmax a : ℝ) (h1 : 0 < xmin) (h2 : 0 < xmax) : kMom1 xmin xmax a = PkCore (-a) 2 xmin xmax := by
  rw [kMom1_real, PkCore_real]
  by_cases h : a = 2
  · simp only [h, if_true, neg_neg]; rw [Real.log_div h2.ne' h1.ne']
  · have : ¬ (- -a = 2) := by simpa using h
    simp only [h, this, if_false]
    have e : -a + 2 = 2 - a := by ring
    rw [e]

theorem kMom0_eq_integral (xmin xmax a : ℝ) (h1 : 0 < xmin) (h2 : xmin ≤ xmax) :
    kMom0 xmin xmax a = ∫ x in xmin..xmax, x ^ (-a) := by
  rw [kMom0_eq_Pk xmin xmax a h1 (lt_of_lt_of_le h1 h2), PkCore_eq_integral (-a) 1 xmin xmax h1 h2]
  congr 1; funext x; congr 1; ring
theorem kMom1_eq_integral (xmin xmax a : ℝ) (h1 : 0 < xmin) (h2 : xmin ≤ xmax) :
    kMom1 xmin xmax a = ∫ x in xmin..xmax, x * x ^ (-a) := by
  rw [kMom1_eq_Pk xmin xmax a h1 (lt_of_lt_of_le h1 h2), PkCore_eq_integral (-a) 2 xmin xmax h1 h2]
  apply intervalIntegral.integral_congr
  intro x hx
  rw [Set.uIcc_of_le h2] at hx
  have hx0 : 0 < x := lt_of_lt_of_le h1 hx.1
  simp only
  have : -a + 2 - 1 = 1 + -a := by ring
  rw [this, Real.rpow_add hx0, Real.rpow_one]

theorem kMom0_pos (xmin xmax a : ℝ) (h1 : 0 < xmin) (h2 : xmin < xmax) : 0 < kMom0 xmin xmax a := by
  rw [kMom0_eq_Pk xmin xmax a h1 (lt_trans h1 h2)]; exact PkCore_pos _ _ _ _ h1 h2

/-! ## continuity constants -/
def Limits (mlim : List ℝ) : Prop := ∀ x ∈ mlim, 0 < x

theorem kProd_real (a mlim : List ℝ) (k : Nat) :
    kProd a mlim (k + 1) = kProd a mlim k * (mlim.getD (k + 2) 0 / mlim.getD (k + 1) 0) ^ (-(a.getD (k + 1) 0)) := by
  simp only [kProd, real_rpow, real_zero]

theorem kC_zero (a mlim : List ℝ) : kC a mlim 0 = (1 / mlim.getD 1 0) ^ (-(a.getD 0 0)) := by
  simp [kC, real_one]
theorem kC_succ (a mlim : List ℝ) (i : Nat) :
    kC a mlim (i + 1) = (1 / mlim.getD (i + 1) 0) ^ (-(a.getD (i + 1) 0)) * kProd a mlim i := by
  simp [kC, real_one]

/-- the density is continuous at every interior limit mlim[i+1] (pieces i and i+1 meet there) -/
theorem continuity (a mlim : List ℝ) (i : Nat) (hm1 : 0 < mlim.getD (i + 1) 0) (hm0 : 0 < mlim.getD i 0) (hi : i = 0 ∨ 0 < mlim.getD i 0) :
    kC a mlim i * (mlim.getD (i + 1) 0) ^ (-(a.getD i 0)) = kC a mlim (i + 1) * (mlim.getD (i + 1) 0) ^ (-(a.getD (i + 1) 0)) := by
  have hone : ∀ (m e : ℝ), 0 < m → (1 / m) ^ e * m ^ e = 1 := by
    intro m e hm
    rw [← Real.mul_rpow (by positivity) hm.le]
    have : 1 / m * m = 1 := by field_simp
    rw [this, Real.one_rpow]
  cases i with
  | zero =>
    rw [kC_zero, kC_succ]
    simp only [kProd, real_one, mul_one]
    rw [hone _ _ hm1, hone _ _ hm1]
  | succ i =>
    rw [kC_succ, kC_succ, kProd_real]
    have e1 : (1 / mlim.getD (i + 1) 0) ^ (-(a.getD (i + 1) 0)) * kProd a mlim i * mlim.getD (i + 1 + 1) 0 ^ (-(a.getD (i + 1) 0))
        = kProd a mlim i * (mlim.getD (i + 2) 0 / mlim.getD (i + 1) 0) ^ (-(a.getD (i + 1) 0)) := by
      rw [Real.div_rpow hm1.le hm0.le, Real.div_rpow (by norm_num) hm0.le, Real.one_rpow]
      field_simp
    rw [e1]
    have e2 : (1 / mlim.getD (i + 1 + 1) 0) ^ (-(a.getD (i + 1 + 1) 0)) * (kProd a mlim i * (mlim.getD (i + 2) 0 / mlim.getD (i + 1) 0) ^ (-(a.getD (i + 1) 0)))
        * mlim.getD (i + 1 + 1) 0 ^ (-(a.getD (i + 1 + 1) 0))
        = ((1 / mlim.getD (i + 2) 0) ^ (-(a.getD (i + 2) 0)) * mlim.getD (i + 2) 0 ^ (-(a.getD (i + 2) 0))) *
          (kProd a mlim i * (mlim.getD (i + 2) 0 / mlim.getD (i + 1) 0) ^ (-(a.getD (i + 1) 0))) := by ring
    rw [e2, hone _ _ hm1, one_mul]

/-! ## normalisation -/
theorem kSum_succ (a mlim : List ℝ) (n : Nat) :
    kSum a mlim (n + 1) = kSum a mlim n + kMom0 (mlim.getD n 0) (mlim.getD (n + 1) 0) (a.getD n 0) * kC a mlim n := by
  simp only [kSum, real_zero]

/-- the pieces' probabilities norm·C_i·∫ x^(−a_i) sum to one -/
noncomputable def totalProb (a mlim : List ℝ) : Nat → ℝ
  | 0 => 0
  | n + 1 => totalProb a mlim n + kNorm a mlim * kC a mlim n * ∫ x in (mlim.getD n 0)..(mlim.getD (n + 1) 0), x ^ (-(a.getD n 0))

theorem totalProb_eq (a mlim : List ℝ) (hinc : ∀ j, j + 1 < mlim.length → 0 < mlim.getD j 0 ∧ mlim.getD j 0 ≤ mlim.getD (j + 1) 0)
    (n : Nat) (hn : n < mlim.length) : totalProb a mlim n = kNorm a mlim * kSum a mlim n := by
  induction n with
  | zero => simp [totalProb, kSum]
  | succ n ih =>
    obtain ⟨h0, h1⟩ := hinc n hn
    rw [totalProb, kSum_succ, ih (by omega), ← kMom0_eq_integral _ _ _ h0 h1]; ring

theorem integrates_to_one (a mlim : List ℝ) (hlen : mlim.length = a.length + 1)
    (hinc : ∀ j, j + 1 < mlim.length → 0 < mlim.getD j 0 ∧ mlim.getD j 0 ≤ mlim.getD (j + 1) 0)
    (hS : kSum a mlim a.length ≠ 0) : totalProb a mlim a.length = 1 := by
  rw [totalProb_eq a mlim hinc a.length (by omega)]
  unfold kNorm; simp only [real_one]; field_simp

/-! ## sampling stays inside the piece -/
theorem kGetmass_in_range (x slope xmin xmax : ℝ) (hx0 : 0 ≤ x) (hx1 : x ≤ 1) (h1 : 0 < xmin) (h2 : xmin ≤ xmax) :
    xmin ≤ kGetmass x slope xmin xmax ∧ kGetmass x slope xmin xmax ≤ xmax := by
  have h2' : 0 < xmax := lt_of_lt_of_le h1 h2
  unfold kGetmass
  by_cases hs : slope = 1
  · have : Scalar.beq slope (1:ℝ) = true := by rw [real_beq]; exact hs
    simp only [real_one, this, if_true, real_exp, real_log]
    have hL : 0 ≤ Real.log xmax - Real.log xmin := by
      have := Real.log_le_log h1 h2; linarith
    constructor
    · have : 1 ≤ Real.exp (x * (Real.log xmax - Real.log xmin)) := Real.one_le_exp (mul_nonneg hx0 hL)
      nlinarith
    · have hle : x * (Real.log xmax - Real.log xmin) ≤ Real.log xmax - Real.log xmin := by nlinarith
      have := Real.exp_le_exp.2 hle
      have e : xmin * Real.exp (Real.log xmax - Real.log xmin) = xmax := by
        rw [Real.exp_sub, Real.exp_log h2', Real.exp_log h1]; field_simp
      calc xmin * Real.exp (x * (Real.log xmax - Real.log xmin))
          ≤ xmin * Real.exp (Real.log xmax - Real.log xmin) := mul_le_mul_of_nonneg_left this h1.le
        _ = xmax := e
  · have : Scalar.beq slope (1:ℝ) = false := by rw [real_beq_false]; exact hs
    simp only [real_one, this, Bool.false_eq_true, if_false, real_rpow]
    set u := 1 - slope with hu
    have hu0 : u ≠ 0 := by intro h; apply hs; linarith
    have hw : (1 - slope) * x * (1 / u * (xmax ^ u - xmin ^ u)) + xmin ^ u = (1 - x) * xmin ^ u + x * xmax ^ u := by
      rw [← hu]; field_simp; ring
    rw [hw]
    set w := (1 - x) * xmin ^ u + x * xmax ^ u with hwd
    have hxu : 0 < xmin ^ u := Real.rpow_pos_of_pos h1 u
    have hXu : 0 < xmax ^ u := Real.rpow_pos_of_pos h2' u
    have hwpos : 0 < w := by
      rcases eq_or_lt_of_le hx0 with h | h
      · rw [hwd, ← h]; simpa using hxu
      · have : 0 < x * xmax ^ u := mul_pos h hXu
        have : 0 ≤ (1 - x) * xmin ^ u := mul_nonneg (by linarith) hxu.le
        rw [hwd]; linarith
    have hback : ∀ m : ℝ, 0 < m → (m ^ u) ^ (1 / u) = m := by
      intro m hm
      rw [← Real.rpow_mul hm.le]
      have : u * (1 / u) = 1 := by field_simp
      rw [this, Real.rpow_one]
    rcases lt_or_gt_of_ne hu0 with hneg | hpos
    · -- u < 0: t ↦ t^u and t ↦ t^(1/u) are antitone
      have hmono : xmax ^ u ≤ xmin ^ u := Real.rpow_le_rpow_of_nonpos h1 h2 hneg.le
      have hwle : w ≤ xmin ^ u := by rw [hwd]; nlinarith
      have hwge : xmax ^ u ≤ w := by rw [hwd]; nlinarith
      have hinv : 1 / u < 0 := one_div_neg.2 hneg
      constructor
      · have := Real.rpow_le_rpow_of_nonpos hwpos hwle hinv.le
        rwa [hback xmin h1] at this
      · have := Real.rpow_le_rpow_of_nonpos hXu hwge hinv.le
        rwa [hback xmax h2'] at this
    · have hmono : xmin ^ u ≤ xmax ^ u := Real.rpow_le_rpow h1.le h2 hpos.le
      have hwge : xmin ^ u ≤ w := by rw [hwd]; nlinarith
      have hwle : w ≤ xmax ^ u := by rw [hwd]; nlinarith
      have hinv : 0 < 1 / u := one_div_pos.2 hpos
      constructor
      · have := Real.rpow_le_rpow hxu.le hwge hinv.le
        rwa [hback xmin h1] at this
      · have := Real.rpow_le_rpow hwpos.le hwle hinv.le
        rwa [hback xmax h2'] at this

/-- the source's helper expressions *are* the model's (after the `fix:` commit), special exponents included -/
theorem gen_mom0 (xmin xmax a : ℝ) : Generated.kroupa_mom0 xmin xmax a = kMom0 xmin xmax a := by
  simp only [Generated.kroupa_mom0, kMom0, real_one]
  have e : (@OfScientific.ofScientific ℝ ScalarLit.instOfSci 10 true 1) = (1:ℝ) := by rw [real_ofSci]; try norm_num
  simp only [e]
theorem gen_mom1 (xmin xmax a : ℝ) : Generated.kroupa_mom1 xmin xmax a = kMom1 xmin xmax a := by
  simp only [Generated.kroupa_mom1, kMom1, real_two]
  have e : (@OfScientific.ofScientific ℝ ScalarLit.instOfSci 20 true 1) = (2:ℝ) := by rw [real_ofSci]; try norm_num
  simp only [e]

theorem gen_getmass (x slope xmin xmax : ℝ) : Generated.kroupa_getmass x slope xmin xmax = kGetmass x slope xmin xmax := by
  have e : (@OfScientific.ofScientific ℝ ScalarLit.instOfSci 10 true 1) = (1:ℝ) := by rw [real_ofSci]; try norm_num
  simp only [Generated.kroupa_getmass, kGetmass, real_one, e]

/-! ## positivity: constants, normalisation, density -/

/-- limits positive and strictly increasing (indices below the list length) -/
def IncPos (mlim : List ℝ) : Prop :=
  (∀ j, j < mlim.length → 0 < mlim.getD j 0) ∧ ∀ j, j + 1 < mlim.length → mlim.getD j 0 < mlim.getD (j + 1) 0

theorem kProd_pos (a mlim : List ℝ) (h : IncPos mlim) (k : Nat) (hk : k + 1 < mlim.length) : 0 < kProd a mlim k := by
  induction k with
  | zero => simp [kProd, real_one]
  | succ k ih =>
    rw [kProd_real]
    have h1 := h.1 (k + 2) (by omega)
    have h2 := h.1 (k + 1) (by omega)
    exact mul_pos (ih (by omega)) (Real.rpow_pos_of_pos (div_pos h1 h2) _)

theorem kC_pos (a mlim : List ℝ) (h : IncPos mlim) (i : Nat) (hi : i + 1 < mlim.length) : 0 < kC a mlim i := by
  cases i with
  | zero =>
    rw [kC_zero]
    exact Real.rpow_pos_of_pos (one_div_pos.2 (h.1 1 (by omega))) _
  | succ i =>
    rw [kC_succ]
    exact mul_pos (Real.rpow_pos_of_pos (one_div_pos.2 (h.1 (i + 1) (by omega))) _) (kProd_pos a mlim h i (by omega))

theorem kSum_pos (a mlim : List ℝ) (h : IncPos mlim) (n : Nat) (hn0 : 0 < n) (hn : n < mlim.length) : 0 < kSum a mlim n := by
  induction n with
  | zero => omega
  | succ n ih =>
    rw [kSum_succ]
    have hterm : 0 < kMom0 (mlim.getD n 0) (mlim.getD (n + 1) 0) (a.getD n 0) * kC a mlim n :=
      mul_pos (kMom0_pos _ _ _ (h.1 n (by omega)) (h.2 n (by omega))) (kC_pos a mlim h n (by omega))
    rcases Nat.eq_zero_or_pos n with rfl | hpos
    · simp only [kSum, real_zero]; linarith
    · have := ih hpos (by omega); linarith

theorem kNorm_pos (a mlim : List ℝ) (h : IncPos mlim) (ha : 0 < a.length) (hlen : mlim.length = a.length + 1) : 0 < kNorm a mlim := by
  unfold kNorm; simp only [real_one]
  exact one_div_pos.2 (kSum_pos a mlim h a.length ha (by omega))

theorem kPiece_lt (mlim : List ℝ) (x : ℝ) (n i j : Nat) (h : kPiece mlim x n i = some j) : i ≤ j ∧ j < i + n := by
  induction n generalizing i with
  | zero => simp [kPiece] at h
  | succ n ih =>
    unfold kPiece at h
    split at h
    · cases h; omega
    · have := ih (i + 1) h; omega

/-- **the density is positive wherever it is defined** -/
theorem density_pos (a mlim : List ℝ) (h : IncPos mlim) (ha : 0 < a.length) (hlen : mlim.length = a.length + 1) (x y : ℝ) (hx : 0 < x)
    (he : kEval a mlim x = some y) : 0 < y := by
  unfold kEval at he
  cases hp : kPiece mlim x a.length 0 with
  | none => rw [hp] at he; cases he
  | some i =>
    rw [hp] at he
    have hi := kPiece_lt mlim x a.length 0 i hp
    cases he
    simp only [real_rpow]
    exact mul_pos (mul_pos (kNorm_pos a mlim h ha hlen) (kC_pos a mlim h i (by omega))) (Real.rpow_pos_of_pos hx _)

/-! ## `integral()`: which pieces are visited and what each visit adds -/

theorem lastIdx_spec (p : ℝ → Bool) (l : List ℝ) (i : Nat) (acc : Option Nat) :
    ((∀ x ∈ l, p x = false) ∧ lastIdxAux p l i acc = acc) ∨
    ∃ j, j < l.length ∧ lastIdxAux p l i acc = some (i + j) ∧ p (l.getD j 0) = true ∧
      ∀ k, j < k → k < l.length → p (l.getD k 0) = false := by
  induction l generalizing i acc with
  | nil => left; simp [lastIdxAux]
  | cons b t ih =>
    simp only [lastIdxAux]
    rcases ih (i + 1) (if p b = true then some i else acc) with ⟨hno, heq⟩ | ⟨j, hj, heq, hp, hlast⟩
    · by_cases hb : p b = true
      · right
        refine ⟨0, by simp, ?_, by simpa using hb, ?_⟩
        · rw [heq]; simp [hb]
        · intro k hk hk2
          cases k with
          | zero => omega
          | succ k =>
            have hmem : t.getD k 0 ∈ t := by
              simp only [List.length_cons] at hk2
              rw [List.getD_eq_getElem?_getD, List.getElem?_eq_getElem (by omega)]; simp
            simpa using hno _ hmem
      · left
        refine ⟨?_, ?_⟩
        · intro x hx
          rcases List.mem_cons.1 hx with rfl | hx
          · simpa using hb
          · exact hno x hx
        · rw [heq]; simp [hb]
    · right
      refine ⟨j + 1, by simpa using hj, ?_, by simpa using hp, ?_⟩
      · rw [heq]; congr 1; omega
      · intro k hk hk2
        cases k with
        | zero => omega
        | succ k => simpa using hlast k (by omega) (by simpa using hk2)

theorem firstIdx_spec (p : ℝ → Bool) (l : List ℝ) (i : Nat) :
    ((∀ x ∈ l, p x = false) ∧ firstIdxAux p l i = none) ∨
    ∃ j, j < l.length ∧ firstIdxAux p l i = some (i + j) ∧ p (l.getD j 0) = true ∧ ∀ k, k < j → p (l.getD k 0) = false := by
  induction l generalizing i with
  | nil => left; simp [firstIdxAux]
  | cons b t ih =>
    simp only [firstIdxAux]
    by_cases hb : p b = true
    · right
      exact ⟨0, by simp, by simp [hb], by simpa using hb, fun k hk => by omega⟩
    · rcases ih (i + 1) with ⟨hno, heq⟩ | ⟨j, hj, heq, hp, hfirst⟩
      · left
        refine ⟨?_, by simp [hb, heq]⟩
        intro x hx
        rcases List.mem_cons.1 hx with rfl | hx
        · simpa using hb
        · exact hno x hx
      · right
        refine ⟨j + 1, by simpa using hj, ?_, by simpa using hp, ?_⟩
        · simp only [hb, if_false, Bool.false_eq_true]; rw [heq]; congr 1; omega
        · intro k hk
          cases k with
          | zero => simpa using hb
          | succ k => simpa using hfirst k (by omega)

theorem maxS'_real (x y : ℝ) : maxS' x y = max x y := by
  unfold maxS'
  by_cases h : x < y
  · have : Scalar.lt x y = true := by rw [real_lt]; exact h
    rw [if_pos this, max_eq_right h.le]
  · have : ¬ (Scalar.lt x y = true) := by rw [real_lt]; exact h
    rw [if_neg this, max_eq_left (not_lt.1 h)]
theorem minS'_real (x y : ℝ) : minS' x y = min x y := by
  unfold minS'
  by_cases h : y < x
  · have : Scalar.lt y x = true := by rw [real_lt]; exact h
    rw [if_pos this, min_eq_right h.le]
  · have : ¬ (Scalar.lt y x = true) := by rw [real_lt]; exact h
    rw [if_neg this, min_eq_left (not_lt.1 h)]

/-- what one visit of piece `i` adds: the two moments of `norm·C_i·x^(−a_i)` over the clipped range -/
theorem kIntStep_exact (a mlim : List ℝ) (xmin xmax : ℝ) (acc : ℝ × ℝ) (i : Nat)
    (hlo : 0 < max (mlim.getD i 0) xmin) (hle : max (mlim.getD i 0) xmin ≤ min (mlim.getD (i + 1) 0) xmax) :
    kIntStep a mlim xmin xmax acc i =
      (acc.1 + kNorm a mlim * kC a mlim i * ∫ x in (max (mlim.getD i 0) xmin)..(min (mlim.getD (i + 1) 0) xmax), x ^ (-(a.getD i 0)),
       acc.2 + kNorm a mlim * kC a mlim i * ∫ x in (max (mlim.getD i 0) xmin)..(min (mlim.getD (i + 1) 0) xmax), x * x ^ (-(a.getD i 0))) := by
  have hmax := maxS'_real (mlim.getD i 0) xmin
  have hmin := minS'_real (mlim.getD (i + 1) 0) xmax
  unfold kIntStep
  simp only [hmax, hmin, real_zero]
  rw [kMom0_eq_integral _ _ _ hlo hle, kMom1_eq_integral _ _ _ hlo hle]

/-- the first visited piece contains `xmin`: `mlim[i0] ≤ xmin < mlim[i0+1]` -/
theorem imin_spec (mlim : List ℝ) (h : IncPos mlim) (xmin : ℝ) (hne : 0 < mlim.length) (h0 : mlim.getD 0 0 ≤ xmin) :
    ∃ j, j < mlim.length ∧ lastIdxAux (fun m => Scalar.le 1 (xmin / m)) mlim 0 none = some j ∧ mlim.getD j 0 ≤ xmin ∧
      ∀ k, j < k → k < mlim.length → xmin < mlim.getD k 0 := by
  rcases lastIdx_spec (fun m => Scalar.le 1 (xmin / m)) mlim 0 none with ⟨hno, _⟩ | ⟨j, hj, heq, hp, hlast⟩
  · exfalso
    have hmem : mlim.getD 0 0 ∈ mlim := by
      rw [List.getD_eq_getElem?_getD, List.getElem?_eq_getElem hne]; simp
    have := hno _ hmem
    simp only [Scalar.le, real_one, decide_eq_false_iff_not, not_le] at this
    have hp0 := h.1 0 hne
    rw [div_lt_one hp0] at this
    linarith
  · refine ⟨j, hj, by simpa using heq, ?_, ?_⟩
    · simp only [Scalar.le, real_one, decide_eq_true_eq] at hp
      rwa [le_div_iff₀ (h.1 j hj), one_mul] at hp
    · intro k hk hk2
      have := hlast k hk hk2
      simp only [Scalar.le, real_one, decide_eq_false_iff_not, not_le] at this
      rwa [div_lt_one (h.1 k hk2)] at this

/-- the loop stops before the first limit above `xmax` -/
theorem imax_spec (mlim : List ℝ) (h : IncPos mlim) (xmax : ℝ) (hne : 0 < mlim.length)
    (hlt : xmax < mlim.getD (mlim.length - 1) 0) :
    ∃ j, j < mlim.length ∧ firstIdxAux (fun m => Scalar.lt (xmax / m) 1) mlim 0 = some j ∧ xmax < mlim.getD j 0 ∧
      ∀ k, k < j → mlim.getD k 0 ≤ xmax := by
  rcases firstIdx_spec (fun m => Scalar.lt (xmax / m) 1) mlim 0 with ⟨hno, _⟩ | ⟨j, hj, heq, hp, hfirst⟩
  · exfalso
    have hmem : mlim.getD (mlim.length - 1) 0 ∈ mlim := by
      rw [List.getD_eq_getElem?_getD, List.getElem?_eq_getElem (by omega)]; simp
    have := hno _ hmem
    simp only [Scalar.lt, real_one, decide_eq_false_iff_not, not_lt] at this
    have hp0 := h.1 (mlim.length - 1) (by omega)
    rw [le_div_iff₀ hp0, one_mul] at this
    linarith
  · refine ⟨j, hj, by simpa using heq, ?_, ?_⟩
    · simp only [Scalar.lt, real_one, decide_eq_true_eq] at hp
      rwa [div_lt_one (h.1 j hj)] at hp
    · intro k hk
      have := hfirst k hk
      simp only [Scalar.lt, real_one, decide_eq_false_iff_not, not_lt] at this
      rwa [le_div_iff₀ (h.1 k (by omega)), one_mul] at this

theorem inc_mono (mlim : List ℝ) (h : IncPos mlim) (j k : Nat) (hjk : j ≤ k) (hk : k < mlim.length) :
    mlim.getD j 0 ≤ mlim.getD k 0 := by
  induction k with
  | zero => have : j = 0 := by omega
            rw [this]
  | succ k ih =>
    rcases Nat.lt_or_ge j (k + 1) with hlt | hge
    · exact le_trans (ih (by omega) (by omega)) (h.2 k hk).le
    · have : j = k + 1 := by omega
      rw [this]

/-- the exact contribution of piece `i` to the two moments over `[xmin, xmax]` -/
noncomputable def stepSpec (a mlim : List ℝ) (xmin xmax : ℝ) (acc : ℝ × ℝ) (i : Nat) : ℝ × ℝ :=
  (acc.1 + kNorm a mlim * kC a mlim i * ∫ x in (max (mlim.getD i 0) xmin)..(min (mlim.getD (i + 1) 0) xmax), x ^ (-(a.getD i 0)),
   acc.2 + kNorm a mlim * kC a mlim i * ∫ x in (max (mlim.getD i 0) xmin)..(min (mlim.getD (i + 1) 0) xmax), x * x ^ (-(a.getD i 0)))

theorem foldl_congr_mem {β γ : Type} (f g : β → γ → β) (l : List γ) (b : β) (h : ∀ acc, ∀ x ∈ l, f acc x = g acc x) :
    l.foldl f b = l.foldl g b := by
  induction l generalizing b with
  | nil => rfl
  | cons x t ih =>
    simp only [List.foldl_cons]
    rw [h b x (by simp)]
    exact ih _ (fun acc y hy => h acc y (List.mem_cons_of_mem _ hy))

/-- **`integral(xmin, xmax)`** visits exactly the pieces `i0 … i1−1` that meet `[xmin, xmax]` (`i0` holds `xmin`, the clipped ranges
    `[max(l_i,xmin), min(u_i,xmax)]` are proper, consecutive and run from `xmin` to `xmax`) and adds to each moment the exact integral of
    `norm·C_i·x^(−a_i)` over the clipped range -/
theorem kIntegral_spec (a mlim : List ℝ) (h : IncPos mlim) (hlen : mlim.length = a.length + 1) (xmin xmax : ℝ)
    (h0 : mlim.getD 0 0 ≤ xmin) (hlt : xmin < xmax) (h1 : xmax ≤ mlim.getD (mlim.length - 1) 0) :
    ∃ i0 i1, i0 < i1 ∧ i1 < mlim.length ∧
      mlim.getD i0 0 ≤ xmin ∧ xmin < mlim.getD (i0 + 1) 0 ∧ mlim.getD (i1 - 1) 0 ≤ xmax ∧ xmax ≤ mlim.getD i1 0 ∧
      (∀ i, i0 ≤ i → i < i1 → 0 < max (mlim.getD i 0) xmin ∧ max (mlim.getD i 0) xmin ≤ min (mlim.getD (i + 1) 0) xmax) ∧
      kIntegral a mlim xmin xmax = .ok ((List.range' i0 (i1 - i0)).foldl (stepSpec a mlim xmin xmax) (0, 0)) := by
  have hne : 0 < mlim.length := by omega
  obtain ⟨j0, hj0, heq0, hle0, hgt0⟩ := imin_spec mlim h xmin hne h0
  have hxpos : 0 < xmin := lt_of_lt_of_le (h.1 0 hne) h0
  -- the index at which the loop stops
  have himax : ∃ j1, j1 < mlim.length ∧
      (if Scalar.beq xmax (mlim.getD (mlim.length - 1) 0) then some (mlim.length - 1)
       else firstIdxAux (fun m => Scalar.lt (xmax / m) 1) mlim 0) = some j1 ∧
      xmax ≤ mlim.getD j1 0 ∧ ∀ k, k < j1 → mlim.getD k 0 ≤ xmax := by
    by_cases he : xmax = mlim.getD (mlim.length - 1) 0
    · refine ⟨mlim.length - 1, by omega, ?_, he.le, ?_⟩
      · have : Scalar.beq xmax (mlim.getD (mlim.length - 1) 0) = true := by rw [real_beq]; exact he
        rw [if_pos this]
      · intro k hk
        rw [he]; exact inc_mono mlim h k _ (by omega) (by omega)
    · have hl : xmax < mlim.getD (mlim.length - 1) 0 := lt_of_le_of_ne h1 he
      obtain ⟨j1, hj1, heq1, hgt1, hle1⟩ := imax_spec mlim h xmax hne hl
      refine ⟨j1, hj1, ?_, hgt1.le, hle1⟩
      have : ¬ (Scalar.beq xmax (mlim.getD (mlim.length - 1) 0) = true) := by rw [real_beq]; exact he
      rw [if_neg this, heq1]
  obtain ⟨j1, hj1, heq1, hge1, hle1⟩ := himax
  have hj01 : j0 < j1 := by
    by_contra hcon
    push Not at hcon
    have := inc_mono mlim h j1 j0 hcon hj0
    linarith
  have hnext : xmin < mlim.getD (j0 + 1) 0 := hgt0 (j0 + 1) (by omega) (by omega)
  have hpieces : ∀ i, j0 ≤ i → i < j1 →
      0 < max (mlim.getD i 0) xmin ∧ max (mlim.getD i 0) xmin ≤ min (mlim.getD (i + 1) 0) xmax := by
    intro i hi0 hi1
    refine ⟨lt_of_lt_of_le hxpos (le_max_right _ _), ?_⟩
    have c1 : mlim.getD i 0 ≤ mlim.getD (i + 1) 0 := (h.2 i (by omega)).le
    have c2 : mlim.getD i 0 ≤ xmax := hle1 i hi1
    have c3 : xmin ≤ mlim.getD (i + 1) 0 := (hgt0 (i + 1) (by omega) (by omega)).le
    exact max_le (le_min c1 c2) (le_min c3 hlt.le)
  refine ⟨j0, j1, hj01, hj1, hle0, hnext, hle1 (j1 - 1) (by omega), hge1, hpieces, ?_⟩
  unfold kIntegral
  have g1 : ¬ (Scalar.lt xmin (mlim.getD 0 0) = true) := by rw [real_lt]; exact not_lt.2 h0
  have g2 : ¬ (Scalar.lt (mlim.getD (mlim.length - 1) 0) xmax = true) := by rw [real_lt]; exact not_lt.2 h1
  simp only [real_zero] at g1 g2 ⊢
  rw [if_neg g1, if_neg g2]
  simp only [real_one] at heq0 heq1 ⊢
  rw [heq0, heq1]
  have hneq : (j0 == j1) = false := by simp; omega
  simp only [hneq, Bool.false_eq_true, if_false]
  congr 1
  apply foldl_congr_mem
  intro acc i hi
  rw [List.mem_range'_1] at hi
  have hp := hpieces i hi.1 (by omega)
  exact kIntStep_exact a mlim xmin xmax acc i hp.1 hp.2

structure Statement : Prop where
  mom0 : ∀ xmin xmax a : ℝ, 0 < xmin → xmin ≤ xmax → Generated.kroupa_mom0 xmin xmax a = ∫ x in xmin..xmax, x ^ (-a)
  mom1 : ∀ xmin xmax a : ℝ, 0 < xmin → xmin ≤ xmax → Generated.kroupa_mom1 xmin xmax a = ∫ x in xmin..xmax, x * x ^ (-a)
  continuous : ∀ (a mlim : List ℝ) (i : Nat), 0 < mlim.getD (i + 1) 0 → 0 < mlim.getD i 0 →
    kC a mlim i * (mlim.getD (i + 1) 0) ^ (-(a.getD i 0)) = kC a mlim (i + 1) * (mlim.getD (i + 1) 0) ^ (-(a.getD (i + 1) 0))
  normalised : ∀ (a mlim : List ℝ), mlim.length = a.length + 1 →
    (∀ j, j + 1 < mlim.length → 0 < mlim.getD j 0 ∧ mlim.getD j 0 ≤ mlim.getD (j + 1) 0) →
    kSum a mlim a.length ≠ 0 → totalProb a mlim a.length = 1
  sampled : ∀ x slope xmin xmax : ℝ, 0 ≤ x → x ≤ 1 → 0 < xmin → xmin ≤ xmax →
    xmin ≤ Generated.kroupa_getmass x slope xmin xmax ∧ Generated.kroupa_getmass x slope xmin xmax ≤ xmax
  /-- the density is positive wherever it is defined (positive, strictly increasing limits) -/
  positive : ∀ (a mlim : List ℝ), IncPos mlim → 0 < a.length → mlim.length = a.length + 1 → ∀ x y : ℝ, 0 < x →
    kEval a mlim x = some y → 0 < y
  /-- `integral(xmin, xmax)` = the two moments of the density over `[xmin, xmax]`, piece by piece -/
  integral : ∀ (a mlim : List ℝ), IncPos mlim → mlim.length = a.length + 1 → ∀ xmin xmax : ℝ,
    mlim.getD 0 0 ≤ xmin → xmin < xmax → xmax ≤ mlim.getD (mlim.length - 1) 0 →
    ∃ i0 i1, i0 < i1 ∧ i1 < mlim.length ∧
      mlim.getD i0 0 ≤ xmin ∧ xmin < mlim.getD (i0 + 1) 0 ∧ mlim.getD (i1 - 1) 0 ≤ xmax ∧ xmax ≤ mlim.getD i1 0 ∧
      (∀ i, i0 ≤ i → i < i1 → 0 < max (mlim.getD i 0) xmin ∧ max (mlim.getD i 0) xmin ≤ min (mlim.getD (i + 1) 0) xmax) ∧
      kIntegral a mlim xmin xmax = .ok ((List.range' i0 (i1 - i0)).foldl (stepSpec a mlim xmin xmax) (0, 0))

/-- **C20** over exact reals. (The earlier version left the piece-selection loop of `integral()` and the positivity of the normalisation to
    the correspondence; both are proved now. What stays outside Lean: numpy's float evaluation and `np.random` in `sample`.) -/
theorem C20_partial : Statement where
  mom0 := fun xmin xmax a h1 h2 => by rw [gen_mom0]; exact kMom0_eq_integral xmin xmax a h1 h2
  mom1 := fun xmin xmax a h1 h2 => by rw [gen_mom1]; exact kMom1_eq_integral xmin xmax a h1 h2
  continuous := fun a mlim i h1 h0 => continuity a mlim i h1 h0 (Or.inr h0)
  normalised := integrates_to_one
  sampled := fun x slope xmin xmax h0 h1 h2 h3 => by rw [gen_getmass]; exact kGetmass_in_range x slope xmin xmax h0 h1 h2 h3
  positive := density_pos
  integral := kIntegral_spec

/-- the hypotheses are satisfiable: the default Kroupa limits are positive and strictly increasing -/
example : IncPos [(0.08 : ℝ), 0.5, 120] := by
  constructor
  · intro j hj
    have hj' : j < 3 := by simpa using hj
    interval_cases j <;> simp <;> norm_num
  · intro j hj
    have hj' : j < 2 := by simp at hj; omega
    interval_cases j <;> simp <;> norm_num

end Model.C20
