import SspModel.Lemmas.Pk
import SspModel.Model.Kroupa
import SspModel.Generated.Formulas
/-!
# C20 — the legacy Kroupa density is a normalised, continuous, non-negative PDF
-/
namespace Model.C20
open Model

theorem kMom0_real (xmin xmax a : ℝ) :
    kMom0 xmin xmax a = if a = 1 then Real.log xmax - Real.log xmin else (xmax ^ (1 - a) - xmin ^ (1 - a)) / (1 - a) := by
  unfold kMom0; by_cases h : a = 1 <;> simp [h, Scalar.beq]
theorem kMom1_real (xmin xmax a : ℝ) :
    kMom1 xmin xmax a = if a = 2 then Real.log xmax - Real.log xmin else (xmax ^ (2 - a) - xmin ^ (2 - a)) / (2 - a) := by
  unfold kMom1; by_cases h : a = 2 <;> simp [h, Scalar.beq]

/-- the moment helpers are the moment integral of C12 (including the special exponents 1 and 2) -/
theorem kMom0_eq_Pk (xmin xmax a : ℝ) (h1 : 0 < xmin) (h2 : 0 < xmax) : kMom0 xmin xmax a = PkCore (-a) 1 xmin xmax := by
  rw [kMom0_real, PkCore_real]
  by_cases h : a = 1
  · simp only [h, if_true, neg_neg]; rw [Real.log_div h2.ne' h1.ne']
  · have : ¬ (- -a = 1) := by simpa using h
    simp only [h, this, if_false]
    have e : -a + 1 = 1 - a := by ring
    rw [e]
theorem kMom1_eq_Pk (xmin xmax a : ℝ) (h1 : 0 < xmin) (h2 : 0 < xmax) : kMom1 xmin xmax a = PkCore (-a) 2 xmin xmax := by
  rw [kMom1_real, PkCore_real]
  by_cases h : a = 2
  · simp only [h, if_true, neg_neg]; rw [Real.log_div h2.ne' h1.ne']
  · have : ¬ (- -a = 2) := by simpa using h
    simp only [h, this, if_false]
    have e : -a + 2 = 2 - a := by ring
    rw [e]

theorem kMom0_eq_integral (xmin xmax a : ℝ) (h1 : 0 < xmin) (h2 : xmin ≤ xmax) :
    kMom0 xmin xmax a = ∫ x in xmin..xmax, x ^ (-a) := by
  rw [kMom0_eq_Pk xmin xmax a h1 (lt_of_lt_of_le h1 h2), PkCore_eq_integral (-a) 1 xmin xmax h1 h2]
  congr 1; funext x; congr 1; ring
theorem kMom1_eq_integral (xmin xmax a : ℝ) (h1 : 0 < xmin) (h2 : xmin ≤ xmax) :
    kMom1 xmin xmax a = ∫ x in xmin..xmax, x * x ^ (-a) := by
  rw [kMom1_eq_Pk xmin xmax a h1 (lt_of_lt_of_le h1 h2), PkCore_eq_integral (-a) 2 xmin xmax h1 h2]
  apply intervalIntegral.integral_congr
  intro x hx
  rw [Set.uIcc_of_le h2] at hx
  have hx0 : 0 < x := lt_of_lt_of_le h1 hx.1
  simp only
  have : -a + 2 - 1 = 1 + -a := by ring
  rw [this, Real.rpow_add hx0, Real.rpow_one]

theorem kMom0_pos (xmin xmax a : ℝ) (h1 : 0 < xmin) (h2 : xmin < xmax) : 0 < kMom0 xmin xmax a := by
  rw [kMom0_eq_Pk xmin xmax a h1 (lt_trans h1 h2)]; exact PkCore_pos _ _ _ _ h1 h2

/-! ## continuity constants -/
def Limits (mlim : List ℝ) : Prop := ∀ x ∈ mlim, 0 < x

theorem kProd_real (a mlim : List ℝ) (k : Nat) :
    kProd a mlim (k + 1) = kProd a mlim k * (mlim.getD (k + 2) 0 / mlim.getD (k + 1) 0) ^ (-(a.getD (k + 1) 0)) := by
  simp only [kProd, real_rpow, real_zero]

theorem kC_zero (a mlim : List ℝ) : kC a mlim 0 = (1 / mlim.getD 1 0) ^ (-(a.getD 0 0)) := by
  simp [kC, real_one]
theorem kC_succ (a mlim : List ℝ) (i : Nat) :
    kC a mlim (i + 1) = (1 / mlim.getD (i + 1) 0) ^ (-(a.getD (i + 1) 0)) * kProd a mlim i := by
  simp [kC, real_one]

/-- the density is continuous at every interior limit mlim[i+1] (pieces i and i+1 meet there) -/
theorem continuity (a mlim : List ℝ) (i : Nat) (hm1 : 0 < mlim.getD (i + 1) 0) (hm0 : 0 < mlim.getD i 0) (hi : i = 0 ∨ 0 < mlim.getD i 0) :
    kC a mlim i * (mlim.getD (i + 1) 0) ^ (-(a.getD i 0)) = kC a mlim (i + 1) * (mlim.getD (i + 1) 0) ^ (-(a.getD (i + 1) 0)) := by
  have hone : ∀ (m e : ℝ), 0 < m → (1 / m) ^ e * m ^ e = 1 := by
    intro m e hm
    rw [← Real.mul_rpow (by positivity) hm.le]
    have : 1 / m * m = 1 := by field_simp
    rw [this, Real.one_rpow]
  cases i with
  | zero =>
    rw [kC_zero, kC_succ]
    simp only [kProd, real_one, mul_one]
    rw [hone _ _ hm1, hone _ _ hm1]
  | succ i =>
    rw [kC_succ, kC_succ, kProd_real]
    have e1 : (1 / mlim.getD (i + 1) 0) ^ (-(a.getD (i + 1) 0)) * kProd a mlim i * mlim.getD (i + 1 + 1) 0 ^ (-(a.getD (i + 1) 0))
        = kProd a mlim i * (mlim.getD (i + 2) 0 / mlim.getD (i + 1) 0) ^ (-(a.getD (i + 1) 0)) := by
      rw [Real.div_rpow hm1.le hm0.le, Real.div_rpow (by norm_num) hm0.le, Real.one_rpow]
      field_simp
    rw [e1]
    have e2 : (1 / mlim.getD (i + 1 + 1) 0) ^ (-(a.getD (i + 1 + 1) 0)) * (kProd a mlim i * (mlim.getD (i + 2) 0 / mlim.getD (i + 1) 0) ^ (-(a.getD (i + 1) 0)))
        * mlim.getD (i + 1 + 1) 0 ^ (-(a.getD (i + 1 + 1) 0))
        = ((1 / mlim.getD (i + 2) 0) ^ (-(a.getD (i + 2) 0)) * mlim.getD (i + 2) 0 ^ (-(a.getD (i + 2) 0))) *
          (kProd a mlim i * (mlim.getD (i + 2) 0 / mlim.getD (i + 1) 0) ^ (-(a.getD (i + 1) 0))) := by ring
    rw [e2, hone _ _ hm1, one_mul]

/-! ## normalisation -/
theorem kSum_succ (a mlim : List ℝ) (n : Nat) :
    kSum a mlim (n + 1) = kSum a mlim n + kMom0 (mlim.getD n 0) (mlim.getD (n + 1) 0) (a.getD n 0) * kC a mlim n := by
  simp only [kSum, real_zero]

/-- the pieces' probabilities norm·C_i·∫ x^(−a_i) sum to one -/
noncomputable def totalProb (a mlim : List ℝ) : Nat → ℝ
  | 0 => 0
  | n + 1 => totalProb a mlim n + kNorm a mlim * kC a mlim n * ∫ x in (mlim.getD n 0)..(mlim.getD (n + 1) 0), x ^ (-(a.getD n 0))

theorem totalProb_eq (a mlim : List ℝ) (hinc : ∀ j, j + 1 < mlim.length → 0 < mlim.getD j 0 ∧ mlim.getD j 0 ≤ mlim.getD (j + 1) 0)
    (n : Nat) (hn : n < mlim.length) : totalProb a mlim n = kNorm a mlim * kSum a mlim n := by
  induction n with
  | zero => simp [totalProb, kSum]
  | succ n ih =>
    obtain ⟨h0, h1⟩ := hinc n hn
    rw [totalProb, kSum_succ, ih (by omega), ← kMom0_eq_integral _ _ _ h0 h1]; ring

theorem integrates_to_one (a mlim : List ℝ) (hlen : mlim.length = a.length + 1)
    (hinc : ∀ j, j + 1 < mlim.length → 0 < mlim.getD j 0 ∧ mlim.getD j 0 ≤ mlim.getD (j + 1) 0)
    (hS : kSum a mlim a.length ≠ 0) : totalProb a mlim a.length = 1 := by
  rw [totalProb_eq a mlim hinc a.length (by omega)]
  unfold kNorm; simp only [real_one]; field_simp

/-! ## sampling stays inside the piece -/
theorem kGetmass_in_range (x slope xmin xmax : ℝ) (hx0 : 0 ≤ x) (hx1 : x ≤ 1) (h1 : 0 < xmin) (h2 : xmin ≤ xmax) :
    xmin ≤ kGetmass x slope xmin xmax ∧ kGetmass x slope xmin xmax ≤ xmax := by
  have h2' : 0 < xmax := lt_of_lt_of_le h1 h2
  unfold kGetmass
  by_cases hs : slope = 1
  · have : Scalar.beq slope (1:ℝ) = true := by rw [real_beq]; exact hs
    simp only [real_one, this, if_true, real_exp, real_log]
    have hL : 0 ≤ Real.log xmax - Real.log xmin := by
      have := Real.log_le_log h1 h2; linarith
    constructor
    · have : 1 ≤ Real.exp (x * (Real.log xmax - Real.log xmin)) := Real.one_le_exp (mul_nonneg hx0 hL)
      nlinarith
    · have hle : x * (Real.log xmax - Real.log xmin) ≤ Real.log xmax - Real.log xmin := by nlinarith
      have := Real.exp_le_exp.2 hle
      have e : xmin * Real.exp (Real.log xmax - Real.log xmin) = xmax := by
        rw [Real.exp_sub, Real.exp_log h2', Real.exp_log h1]; field_simp
      calc xmin * Real.exp (x * (Real.log xmax - Real.log xmin))
          ≤ xmin * Real.exp (Real.log xmax - Real.log xmin) := mul_le_mul_of_nonneg_left this h1.le
        _ = xmax := e
  · have : Scalar.beq slope (1:ℝ) = false := by rw [real_beq_false]; exact hs
    simp only [real_one, this, Bool.false_eq_true, if_false, real_rpow]
    set u := 1 - slope with hu
    have hu0 : u ≠ 0 := by intro h; apply hs; linarith
    have hw : (1 - slope) * x * (1 / u * (xmax ^ u - xmin ^ u)) + xmin ^ u = (1 - x) * xmin ^ u + x * xmax ^ u := by
      rw [← hu]; field_simp; ring
    rw [hw]
    set w := (1 - x) * xmin ^ u + x * xmax ^ u with hwd
    have hxu : 0 < xmin ^ u := Real.rpow_pos_of_pos h1 u
    have hXu : 0 < xmax ^ u := Real.rpow_pos_of_pos h2' u
    have hwpos : 0 < w := by
      rcases eq_or_lt_of_le hx0 with h | h
      · rw [hwd, ← h]; simpa using hxu
      · have : 0 < x * xmax ^ u := mul_pos h hXu
        have : 0 ≤ (1 - x) * xmin ^ u := mul_nonneg (by linarith) hxu.le
        rw [hwd]; linarith
    have hback : ∀ m : ℝ, 0 < m → (m ^ u) ^ (1 / u) = m := by
      intro m hm
      rw [← Real.rpow_mul hm.le]
      have : u * (1 / u) = 1 := by field_simp
      rw [this, Real.rpow_one]
    rcases lt_or_gt_of_ne hu0 with hneg | hpos
    · -- u < 0: t ↦ t^u and t ↦ t^(1/u) are antitone
      have hmono : xmax ^ u ≤ xmin ^ u := Real.rpow_le_rpow_of_nonpos h1 h2 hneg.le
      have hwle : w ≤ xmin ^ u := by rw [hwd]; nlinarith
      have hwge : xmax ^ u ≤ w := by rw [hwd]; nlinarith
      have hinv : 1 / u < 0 := one_div_neg.2 hneg
      constructor
      · have := Real.rpow_le_rpow_of_nonpos hwpos hwle hinv.le
        rwa [hback xmin h1] at this
      · have := Real.rpow_le_rpow_of_nonpos hXu hwge hinv.le
        rwa [hback xmax h2'] at this
    · have hmono : xmin ^ u ≤ xmax ^ u := Real.rpow_le_rpow h1.le h2 hpos.le
      have hwge : xmin ^ u ≤ w := by rw [hwd]; nlinarith
      have hwle : w ≤ xmax ^ u := by rw [hwd]; nlinarith
      have hinv : 0 < 1 / u := one_div_pos.2 hpos
      constructor
      · have := Real.rpow_le_rpow hxu.le hwge hinv.le
        rwa [hback xmin h1] at this
      · have := Real.rpow_le_rpow hwpos.le hwle hinv.le
        rwa [hback xmax h2'] at this

/-- the source's helper expressions *are* the model's (after the `fix:` commit), special exponents included -/
theorem gen_mom0 (xmin xmax a : ℝ) : Generated.kroupa_mom0 xmin xmax a = kMom0 xmin xmax a := by
  simp only [Generated.kroupa_mom0, kMom0, real_one]
  have e : (@OfScientific.ofScientific ℝ ScalarLit.instOfSci 10 true 1) = (1:ℝ) := by rw [real_ofSci]; try norm_num
  simp only [e]
theorem gen_mom1 (xmin xmax a : ℝ) : Generated.kroupa_mom1 xmin xmax a = kMom1 xmin xmax a := by
  simp only [Generated.kroupa_mom1, kMom1, real_two]
  have e : (@OfScientific.ofScientific ℝ ScalarLit.instOfSci 20 true 1) = (2:ℝ) := by rw [real_ofSci]; try norm_num
  simp only [e]

theorem gen_getmass (x slope xmin xmax : ℝ) : Generated.kroupa_getmass x slope xmin xmax = kGetmass x slope xmin xmax := by
  have e : (@OfScientific.ofScientific ℝ ScalarLit.instOfSci 10 true 1) = (1:ℝ) := by rw [real_ofSci]; try norm_num
  simp only [Generated.kroupa_getmass, kGetmass, real_one, e]

structure Statement : Prop where
  mom0 : ∀ xmin xmax a : ℝ, 0 < xmin → xmin ≤ xmax → Generated.kroupa_mom0 xmin xmax a = ∫ x in xmin..xmax, x ^ (-a)
  mom1 : ∀ xmin xmax a : ℝ, 0 < xmin → xmin ≤ xmax → Generated.kroupa_mom1 xmin xmax a = ∫ x in xmin..xmax, x * x ^ (-a)
  continuous : ∀ (a mlim : List ℝ) (i : Nat), 0 < mlim.getD (i + 1) 0 → 0 < mlim.getD i 0 →
    kC a mlim i * (mlim.getD (i + 1) 0) ^ (-(a.getD i 0)) = kC a mlim (i + 1) * (mlim.getD (i + 1) 0) ^ (-(a.getD (i + 1) 0))
  normalised : ∀ (a mlim : List ℝ), mlim.length = a.length + 1 →
    (∀ j, j + 1 < mlim.length → 0 < mlim.getD j 0 ∧ mlim.getD j 0 ≤ mlim.getD (j + 1) 0) →
    kSum a mlim a.length ≠ 0 → totalProb a mlim a.length = 1
  sampled : ∀ x slope xmin xmax : ℝ, 0 ≤ x → x ≤ 1 → 0 < xmin → xmin ≤ xmax →
    xmin ≤ Generated.kroupa_getmass x slope xmin xmax ∧ Generated.kroupa_getmass x slope xmin xmax ≤ xmax

/-- **C20 (partial)**: not proved in Lean: the piece-selection loop of `integral()` for sub-ranges spanning several pieces
    (checked by correspondence and the sweep) and non-negativity of the normalisation for every limit list. -/
theorem C20_partial : Statement where
  mom0 := fun xmin xmax a h1 h2 => by rw [gen_mom0]; exact kMom0_eq_integral xmin xmax a h1 h2
  mom1 := fun xmin xmax a h1 h2 => by rw [gen_mom1]; exact kMom1_eq_integral xmin xmax a h1 h2
  continuous := fun a mlim i h1 h0 => continuity a mlim i h1 h0 (Or.inr h0)
  normalised := integrates_to_one
  sampled := fun x slope xmin xmax h0 h1 h2 h3 => by rw [gen_getmass]; exact kGetmass_in_range x slope xmin xmax h0 h1 h2 h3

end Model.C20
