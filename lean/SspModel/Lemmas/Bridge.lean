import SspModel.Real
import SspModel.Generated.Formulas
import SspModel.Generated.Constants
import SspModel.Model.Pk
import SspModel.Model.Life
import SspModel.Model.Eject
import SspModel.Model.Kicks
import Mathlib.Tactic.Ring
import Mathlib.Tactic.NormNum
/-!
# Bridges: the expressions extracted from /repo's source *now* (`Generated.*`) equal the
hand-written model (`Model.*`) over ℝ.  A source edit that changes a formula breaks one of these.
-/
namespace Bridge
open Model Scalar

/-- literal normalisation used by all bridges -/
theorem sci_one : (@OfScientific.ofScientific ℝ ScalarLit.instOfSci 10 true 1) = (1:ℝ) := by
  rw [real_ofSci]; norm_num
theorem sci_two : (@OfScientific.ofScientific ℝ ScalarLit.instOfSci 20 true 1) = (2:ℝ) := by
  rw [real_ofSci]; norm_num

theorem gen_dmdt_sev (a0 a1 a2 t : ℝ) : Generated.dmdt_sev a0 a1 a2 t = dmdtAbs a0 a1 a2 t := by
  simp only [Generated.dmdt_sev, dmdtAbs, dmdtRaw, sci_one, real_one]
theorem gen_dmdt_bh (a0 a1 a2 t : ℝ) : Generated.dmdt_bh a0 a1 a2 t = dmdtAbs a0 a1 a2 t := by
  simp only [Generated.dmdt_bh, dmdtAbs, dmdtRaw, sci_one, real_one]
theorem gen_tms_main (a0 a1 a2 m : ℝ) : Generated.tms_main a0 a1 a2 m = tms a0 a1 a2 m := rfl
theorem gen_tms_bh (a0 a1 a2 m : ℝ) : Generated.tms_bh a0 a1 a2 m = tms a0 a1 a2 m := rfl
theorem gen_mto_main (a0 a1 a2 t : ℝ) :
    (if Generated.mto_main_cond a0 t then some (Generated.mto_main_fin a0 a1 a2 t) else none) = mto a0 a1 a2 t := rfl
theorem gen_mto_bh (a0 a1 a2 t : ℝ) :
    (if Generated.mto_bh_cond a0 t then some (Generated.mto_bh_fin a0 a1 a2 t) else none) = mto a0 a1 a2 t := rfl
theorem gen_pk (a k m1 m2 : ℝ) :
    (if Generated.pk_mask a k then Generated.pk_log a k m1 m2 else Generated.pk_main a k m1 m2) = PkCore a k m1 m2 := rfl
theorem gen_resolution : (Generated.resolution : ℝ) = Model.resolution := rfl
theorem gen_mrem (d mb mt : ℝ) : Generated.mrem d mb mt = Mrem d mb mt := rfl
theorem gen_sigmoid (m slope scale : ℝ) : Generated.sigmoid m slope scale = sigmoidRet slope scale m := rfl
theorem gen_maxwellian (x a : ℝ) : Generated.maxwellian x a = maxwellPdf a x := by
  simp only [Generated.maxwellian, maxwellPdf, real_one, real_two, real_three, real_rpow, real_exp, real_sqrt, real_pi]
  try ring_nf
theorem gen_kickSkip : (Generated.kickSkip : ℝ) = (1e-1 : ℝ) := by
  simp only [Generated.kickSkip, real_ofSci]; try norm_num

end Bridge
