import SspModel.Lemmas.Bridge.Basic
import SspModel.Lemmas.Bridge.Sev
import SspModel.Lemmas.Bridge.BHPop
import SspModel.Lemmas.Bridge.Pk
import SspModel.Lemmas.Bridge.Mrem
import SspModel.Lemmas.Bridge.Kicks
/-! All bridges (each property imports only the groups it depends on, so that an edit to one formula breaks exactly
the obligations of the properties that rely on it). -/
