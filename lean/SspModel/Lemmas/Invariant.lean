import Mathlib.Analysis.Calculus.Deriv.MeanValue
import Mathlib.Analysis.SpecialFunctions.ExpDeriv
import Mathlib.MeasureTheory.Integral.IntervalIntegral.FundThmCalculus
/-!
# Forward invariance of a half-line under `g' = k(t)·g + p(t)`, `p ≥ 0`

If a quantity `g` obeys `g'(t) = k(t)·g(t) + p(t)` on `[t0, t1]` with `k` continuous and `p ≥ 0`, then `g(t0) ≥ 0` implies
`g ≥ 0` on the whole interval (integrating factor `exp(−∫k)`). This is what turns "every infinitesimal update keeps a bin's
(N, M) inside its cone" into a statement about exact solutions: deposits contribute the `p` term, mean-preserving removals
(escape, ejection) the `k·g` term.
-/
namespace Invariant
open Set

theorem nonneg_of_linear_rate (g k p : ℝ → ℝ) (t0 t1 : ℝ) (hk : Continuous k)
    (hg : ∀ t ∈ Icc t0 t1, HasDerivAt g (k t * g t + p t) t) (hp : ∀ t ∈ Icc t0 t1, 0 ≤ p t) (h0 : 0 ≤ g t0) :
    ∀ t ∈ Icc t0 t1, 0 ≤ g t := by
  -- integrating factor
  set K : ℝ → ℝ := fun u => ∫ x in t0..u, k x with hK
  have hKd : ∀ t, HasDerivAt K (k t) t := fun t => (hk.integral_hasStrictDerivAt t0 t).hasDerivAt
  set h : ℝ → ℝ := fun t => g t * Real.exp (-K t) with hh
  have hhd : ∀ t ∈ Icc t0 t1, HasDerivAt h (p t * Real.exp (-K t)) t := by
    intro t ht
    have he : HasDerivAt (fun u => Real.exp (-K u)) (Real.exp (-K t) * (-k t)) t := ((hKd t).neg).exp
    have := (hg t ht).mul he
    refine this.congr_deriv ?_
    ring
  have hmono : MonotoneOn h (Icc t0 t1) := by
    apply monotoneOn_of_deriv_nonneg (convex_Icc t0 t1)
    · exact fun t ht => (hhd t ht).continuousAt.continuousWithinAt
    · intro t ht
      rw [interior_Icc] at ht
      exact (hhd t ⟨ht.1.le, ht.2.le⟩).differentiableAt.differentiableWithinAt
    · intro t ht
      rw [interior_Icc] at ht
      rw [(hhd t ⟨ht.1.le, ht.2.le⟩).deriv]
      exact mul_nonneg (hp t ⟨ht.1.le, ht.2.le⟩) (Real.exp_pos _).le
  intro t ht
  have hle : t0 ≤ t1 := le_trans ht.1 ht.2
  have h00 : h t0 = g t0 := by simp [hh, hK]
  have := hmono ⟨le_rfl, hle⟩ ht ht.1
  rw [h00] at this
  have hpos := Real.exp_pos (-K t)
  have : 0 ≤ g t * Real.exp (-K t) := le_trans h0 this
  exact nonneg_of_mul_nonneg_left this hpos

/-- **a remnant bin's (N, M) stays in its cone `lo·N ≤ M ≤ hi·N`** along an exact solution in which objects of mass
    `m(t) ∈ [lo, hi]` are deposited at rate `d(t) ≥ 0` and objects are removed at their mean mass with fractional rate `κ(t)` -/
theorem cone_forward_invariant (N M d m κ : ℝ → ℝ) (lo hi t0 t1 : ℝ) (hκ : Continuous κ)
    (hN : ∀ t ∈ Icc t0 t1, HasDerivAt N (d t + κ t * N t) t)
    (hM : ∀ t ∈ Icc t0 t1, HasDerivAt M (m t * d t + κ t * M t) t)
    (hd : ∀ t ∈ Icc t0 t1, 0 ≤ d t) (hm : ∀ t ∈ Icc t0 t1, lo ≤ m t ∧ m t ≤ hi)
    (h0 : lo * N t0 ≤ M t0 ∧ M t0 ≤ hi * N t0) :
    ∀ t ∈ Icc t0 t1, lo * N t ≤ M t ∧ M t ≤ hi * N t := by
  have hlo := nonneg_of_linear_rate (fun t => M t - lo * N t) κ (fun t => (m t - lo) * d t) t0 t1 hκ
    (fun t ht => by
      have := (hM t ht).sub ((hN t ht).const_mul lo)
      refine this.congr_deriv ?_
      ring)
    (fun t ht => mul_nonneg (by linarith [(hm t ht).1]) (hd t ht)) (by linarith [h0.1])
  have hhi := nonneg_of_linear_rate (fun t => hi * N t - M t) κ (fun t => (hi - m t) * d t) t0 t1 hκ
    (fun t ht => by
      have := ((hN t ht).const_mul hi).sub (hM t ht)
      refine this.congr_deriv ?_
      ring)
    (fun t ht => mul_nonneg (by linarith [(hm t ht).2]) (hd t ht)) (by linarith [h0.2])
  intro t ht
  exact ⟨by linarith [hlo t ht], by linarith [hhi t ht]⟩

end Invariant
