import Mathlib.Analysis.SpecialFunctions.Gaussian.GaussianIntegral
import Mathlib.MeasureTheory.Integral.IntervalIntegral.FundThmCalculus
/-!
# The error function over ℝ (Mathlib has none): `erfR x = (2/√π) ∫₀ˣ e^{-t²} dt`
-/
open Real MeasureTheory Set

/-- error function, defined from the Gaussian integral -/
noncomputable def erfR (x : ℝ) : ℝ := 2 / √π * ∫ t in (0:ℝ)..x, exp (-t ^ 2)

theorem erfR_zero : erfR 0 = 0 := by simp [erfR]

theorem gauss_cont : Continuous fun t : ℝ => exp (-t ^ 2) := by fun_prop

theorem erfR_hasDerivAt (x : ℝ) : HasDerivAt erfR (2 / √π * exp (-x ^ 2)) x := by
  unfold erfR
  have h := intervalIntegral.integral_hasDerivAt_right
    (gauss_cont.intervalIntegrable 0 x) (gauss_cont.stronglyMeasurableAtFilter _ _) gauss_cont.continuousAt
  exact h.const_mul (2 / √π)

theorem erfR_nonneg {x : ℝ} (hx : 0 ≤ x) : 0 ≤ erfR x := by
  unfold erfR
  have : 0 ≤ ∫ t in (0:ℝ)..x, exp (-t ^ 2) :=
    intervalIntegral.integral_nonneg hx (fun t _ => (exp_pos _).le)
  positivity

theorem erfR_le_one {x : ℝ} (hx : 0 ≤ x) : erfR x ≤ 1 := by
  unfold erfR
  have hint : IntegrableOn (fun t : ℝ => exp (-t ^ 2)) (Ioi 0) := by
    have := (integrable_exp_neg_mul_sq (b := 1) one_pos).integrableOn (s := Ioi (0:ℝ))
    simpa using this
  have hle : ∫ t in (0:ℝ)..x, exp (-t ^ 2) ≤ ∫ t in Ioi (0:ℝ), exp (-t ^ 2) := by
    rw [intervalIntegral.integral_of_le hx]
    exact setIntegral_mono_set hint (Filter.Eventually.of_forall fun t => (exp_pos _).le)
      (Filter.Eventually.of_forall Ioc_subset_Ioi_self)
  have hg : ∫ t in Ioi (0:ℝ), exp (-t ^ 2) = √π / 2 := by
    have := integral_gaussian_Ioi 1
    simpa using this
  have hpi : 0 < √π := sqrt_pos.2 pi_pos
  calc 2 / √π * ∫ t in (0:ℝ)..x, exp (-t ^ 2) ≤ 2 / √π * (√π / 2) := by
        apply mul_le_mul_of_nonneg_left (hle.trans_eq hg) (by positivity)
    _ = 1 := by field_simp

theorem erfR_mono : Monotone erfR := by
  apply monotone_of_deriv_nonneg (fun x => (erfR_hasDerivAt x).differentiableAt)
  intro x; rw [(erfR_hasDerivAt x).deriv]; positivity
