import Mathlib.Algebra.Order.Field.Basic
import Mathlib.Data.Rat.Cast.Order
import Mathlib.Data.Real.Basic
import Mathlib.Algebra.Order.Floor.Semiring
import Mathlib.Data.Real.Archimedean
import Mathlib.Tactic.Ring
import Mathlib.Tactic.Linarith
import Mathlib.Tactic.Positivity
import Mathlib.Tactic.FieldSimp
import Mathlib.Tactic.Push
/-!
# Kernel-checkable range bounds for a polynomial on an interval

`evalP p x` evaluates coefficients `p` (lowest order first). `shift p c` are the coefficients of `t ↦ p (c + t)` (Taylor shift,
computed exactly). On `|t| ≤ h` the value differs from the constant term by at most `h · absBound (tail) h`. A Boolean checker over `ℚ`
(`rowOK`) cuts `[lo, hi]` into `n` pieces and asks on each piece for `0 < p`, `p ≤ m` and `p < cap`; `rowOK_sound` lifts a `true`
(obtained by `decide +kernel`) to every real `m ∈ [lo, hi]`.
-/
namespace PolyBound

section Ring
variable {K : Type} [CommRing K]

def evalP : List K → K → K
  | [], _ => 0
  | a :: p, x => a + x * evalP p x

def addL : List K → List K → List K
  | [], q => q
  | p, [] => p
  | a :: p, b :: q => (a + b) :: addL p q

def smulL (c : K) (p : List K) : List K := p.map (c * ·)

/-- coefficients of `t ↦ (c + t) · q(t)` -/
def mulLin (q : List K) (c : K) : List K := addL (smulL c q) (0 :: q)

/-- coefficients of `t ↦ p (c + t)` -/
def shift : List K → K → List K
  | [], _ => []
  | a :: p, c => addL [a] (mulLin (shift p c) c)

theorem evalP_addL (p q : List K) (x : K) : evalP (addL p q) x = evalP p x + evalP q x := by
  induction p generalizing q with
  | nil => simp [addL, evalP]
  | cons a p ih =>
    cases q with
    | nil => simp [addL, evalP]
    | cons b q => simp only [addL, evalP, ih]; ring

theorem evalP_smulL (c : K) (p : List K) (x : K) : evalP (smulL c p) x = c * evalP p x := by
  induction p with
  | nil => simp [smulL, evalP]
  | cons a p ih =>
    simp only [smulL, List.map_cons, evalP] at ih ⊢
    rw [ih]; ring

theorem evalP_mulLin (q : List K) (c x : K) : evalP (mulLin q c) x = (c + x) * evalP q x := by
  unfold mulLin
  rw [evalP_addL, evalP_smulL]
  simp only [evalP]; ring

/-- **Taylor shift is exact** -/
theorem evalP_shift (p : List K) (c t : K) : evalP (shift p c) t = evalP p (c + t) := by
  induction p with
  | nil => simp [shift, evalP]
  | cons a p ih =>
    simp only [shift, evalP_addL, evalP_mulLin, ih, evalP]; ring

variable {L : Type} [CommRing L] (f : K →+* L)

theorem map_addL (p q : List K) : (addL p q).map f = addL (p.map f) (q.map f) := by
  induction p generalizing q with
  | nil => simp [addL]
  | cons a p ih =>
    cases q with
    | nil => simp [addL]
    | cons b q => simp [addL, ih]

theorem map_smulL (c : K) (p : List K) : (smulL c p).map f = smulL (f c) (p.map f) := by
  simp [smulL, List.map_map, Function.comp_def]

theorem map_shift (p : List K) (c : K) : (shift p c).map f = shift (p.map f) (f c) := by
  induction p with
  | nil => simp [shift]
  | cons a p ih =>
    simp only [shift, mulLin, map_addL, map_smulL, List.map_cons, List.map_nil, ih, map_zero]

end Ring

section Field
variable {K : Type} [Field K] [LinearOrder K] [IsStrictOrderedRing K]

/-- `Σ |a_k| h^k` by Horner -/
def absBound : List K → K → K
  | [], _ => 0
  | a :: p, h => |a| + h * absBound p h

theorem absBound_nonneg (p : List K) (h : K) (hh : 0 ≤ h) : 0 ≤ absBound p h := by
  induction p with
  | nil => simp [absBound]
  | cons a p ih => simp only [absBound]; positivity

theorem abs_evalP_le (p : List K) (t h : K) (ht : |t| ≤ h) : |evalP p t| ≤ absBound p h := by
  have hh : 0 ≤ h := le_trans (abs_nonneg t) ht
  induction p with
  | nil => simp [evalP, absBound]
  | cons a p ih =>
    simp only [evalP, absBound]
    calc |a + t * evalP p t| ≤ |a| + |t * evalP p t| := abs_add_le _ _
      _ = |a| + |t| * |evalP p t| := by rw [abs_mul]
      _ ≤ |a| + h * absBound p h := by
        have := mul_le_mul ht ih (abs_nonneg _) hh
        linarith

/-- value on `|t| ≤ h` within `h·absBound(tail)` of the constant term -/
theorem evalP_near (a : K) (p : List K) (t h : K) (ht : |t| ≤ h) :
    a - h * absBound p h ≤ evalP (a :: p) t ∧ evalP (a :: p) t ≤ a + h * absBound p h := by
  have hh : 0 ≤ h := le_trans (abs_nonneg t) ht
  have hb := abs_evalP_le p t h ht
  have : |t * evalP p t| ≤ h * absBound p h := by
    rw [abs_mul]; exact mul_le_mul ht hb (abs_nonneg _) hh
  have := abs_le.1 this
  simp only [evalP]
  constructor <;> linarith [this.1, this.2]

end Field

/-! ## the checker over ℚ and its soundness over ℝ -/

/-- on the piece `[c − h, c + h]`: `0 < p`, `p ≤ m` (via `p ≤ c − h`) and `p < cap` -/
def pieceOK (p : List ℚ) (c h cap : ℚ) : Bool :=
  match shift p c with
  | [] => false
  | a :: q =>
    let e := h * absBound q h
    decide (0 < a - e) && decide (a + e ≤ c - h) && decide (a + e < cap)

theorem absBound_cast (p : List ℚ) (h : ℚ) : absBound (p.map (fun x : ℚ => (x : ℝ))) (h : ℝ) = ((absBound p h : ℚ) : ℝ) := by
  induction p with
  | nil => simp [absBound]
  | cons a p ih => simp only [List.map_cons, absBound, ih]; push_cast; rfl

theorem pieceOK_sound (p : List ℚ) (c h cap : ℚ) (hok : pieceOK p c h cap = true) (m : ℝ) (hm : |m - (c : ℝ)| ≤ (h : ℝ)) :
    0 < evalP (p.map (fun x : ℚ => (x : ℝ))) m ∧ evalP (p.map (fun x : ℚ => (x : ℝ))) m ≤ m ∧
    evalP (p.map (fun x : ℚ => (x : ℝ))) m < (cap : ℝ) := by
  unfold pieceOK at hok
  cases hs : shift p c with
  | nil => rw [hs] at hok; cases hok
  | cons a q =>
    rw [hs] at hok
    simp only [Bool.and_eq_true, decide_eq_true_eq] at hok
    obtain ⟨⟨h1, h2⟩, h3⟩ := hok
    have hmap : shift (p.map (fun x : ℚ => (x : ℝ))) (c : ℝ) = (a : ℝ) :: q.map (fun x : ℚ => (x : ℝ)) := by
      have := map_shift (Rat.castHom ℝ) p c
      simp only [Rat.coe_castHom] at this
      rw [← this, hs]; rfl
    have hev : evalP (p.map (fun x : ℚ => (x : ℝ))) m = evalP ((a : ℝ) :: q.map (fun x : ℚ => (x : ℝ))) (m - c) := by
      rw [← hmap, evalP_shift]; congr 1; ring
    obtain ⟨lo, hi⟩ := evalP_near (a : ℝ) (q.map (fun x : ℚ => (x : ℝ))) (m - c) (h : ℝ) hm
    rw [absBound_cast] at lo hi
    rw [hev]
    have h1' : (0 : ℝ) < (a : ℝ) - (h : ℝ) * ((absBound q h : ℚ) : ℝ) := by exact_mod_cast h1
    have h2' : (a : ℝ) + (h : ℝ) * ((absBound q h : ℚ) : ℝ) ≤ (c : ℝ) - (h : ℝ) := by exact_mod_cast h2
    have h3' : (a : ℝ) + (h : ℝ) * ((absBound q h : ℚ) : ℝ) < (cap : ℝ) := by exact_mod_cast h3
    have hmc := abs_le.1 hm
    refine ⟨by linarith, by linarith [hmc.1], by linarith⟩

/-- `n` pieces of half-width `h = (hi − lo)/(2n)` centred at `lo + (2i+1)h` -/
def rowOK (p : List ℚ) (lo hi cap : ℚ) (n : Nat) : Bool :=
  let h := (hi - lo) / (2 * n)
  (List.range n).all fun i => pieceOK p (lo + (2 * i + 1) * h) h cap

/-- every point of `[lo, hi]` lies within `h` of one of the `n` centres -/
theorem covered (lo hi : ℝ) (n : Nat) (hn : 0 < n) (hlh : lo < hi) (m : ℝ) (h1 : lo ≤ m) (h2 : m ≤ hi) :
    ∃ i < n, |m - (lo + (2 * (i : ℝ) + 1) * ((hi - lo) / (2 * n)))| ≤ (hi - lo) / (2 * n) := by
  set h := (hi - lo) / (2 * n) with hh
  have hnpos : (0 : ℝ) < n := by exact_mod_cast hn
  have hpos : 0 < h := by rw [hh]; apply div_pos (by linarith) (by positivity)
  set k := ⌊(m - lo) / (2 * h)⌋₊ with hk
  have hx0 : 0 ≤ (m - lo) / (2 * h) := div_nonneg (by linarith) (by positivity)
  have hk1 : (k : ℝ) ≤ (m - lo) / (2 * h) := Nat.floor_le hx0
  have hk2 : (m - lo) / (2 * h) < k + 1 := Nat.lt_floor_add_one _
  have h2h : 0 < 2 * h := by positivity
  rw [le_div_iff₀ h2h] at hk1
  rw [div_lt_iff₀ h2h] at hk2
  have hnh : 2 * h * n = hi - lo := by rw [hh]; field_simp
  by_cases hkn : k < n
  · refine ⟨k, hkn, ?_⟩
    rw [abs_le]; constructor <;> nlinarith
  · push Not at hkn
    -- only possible at the right end point
    have hkn' : (n : ℝ) ≤ k := by exact_mod_cast hkn
    have hn1 : ((n - 1 : ℕ) : ℝ) = (n : ℝ) - 1 := by
      rw [Nat.cast_sub hn]; simp
    refine ⟨n - 1, Nat.sub_lt hn Nat.one_pos, ?_⟩
    rw [hn1, abs_le]
    constructor <;> nlinarith

theorem rowOK_sound (p : List ℚ) (lo hi cap : ℚ) (n : Nat) (hn : 0 < n) (hlh : lo < hi) (hok : rowOK p lo hi cap n = true)
    (m : ℝ) (h1 : (lo : ℝ) ≤ m) (h2 : m ≤ (hi : ℝ)) :
    0 < evalP (p.map (fun x : ℚ => (x : ℝ))) m ∧ evalP (p.map (fun x : ℚ => (x : ℝ))) m ≤ m ∧
    evalP (p.map (fun x : ℚ => (x : ℝ))) m < (cap : ℝ) := by
  unfold rowOK at hok
  rw [List.all_eq_true] at hok
  have hlh' : (lo : ℝ) < (hi : ℝ) := by exact_mod_cast hlh
  obtain ⟨i, hi', hc⟩ := covered (lo : ℝ) (hi : ℝ) n hn hlh' m h1 h2
  have := hok i (List.mem_range.2 hi')
  apply pieceOK_sound p _ _ cap this m
  push_cast
  exact hc

end PolyBound
