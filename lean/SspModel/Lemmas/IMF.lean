import SspModel.Lemmas.Pk
import SspModel.Model.IMF
import Mathlib.Algebra.BigOperators.Group.List.Basic
/-! Helper lemmas for the IMF constants over ℝ -/
namespace Model
open Scalar

/-- a segment list (in any order) with positive, proper segments -/
def SegsPos (segs : List (Seg ℝ)) : Prop := ∀ s ∈ segs, 0 < s.1 ∧ s.1 < s.2.1

theorem imfQs_length (segs : List (Seg ℝ)) (q : ℝ) : (imfQs segs q).length = segs.length := by
  induction segs generalizing q with
  | nil => simp [imfQs]
  | cons s rest ih =>
    cases rest with
    | nil => simp [imfQs]
    | cons s' rest' =>
      obtain ⟨lo, hi, a⟩ := s; obtain ⟨lo', hi', a'⟩ := s'
      simp only [imfQs, List.length_cons]
      have := ih (q * rpow lo (a - a'))
      simp only [List.length_cons] at this
      omega

theorem imfQs_pos (segs : List (Seg ℝ)) (q : ℝ) (hq : 0 < q) (hs : SegsPos segs) : ∀ x ∈ imfQs segs q, 0 < x := by
  induction segs generalizing q with
  | nil => simp [imfQs]
  | cons s rest ih =>
    cases rest with
    | nil => simp [imfQs]; exact hq
    | cons s' rest' =>
      obtain ⟨lo, hi, a⟩ := s; obtain ⟨lo', hi', a'⟩ := s'
      simp only [imfQs]
      intro x hx
      rcases List.mem_cons.1 hx with rfl | hx
      · exact hq
      · have hlo := (hs (lo, hi, a) List.mem_cons_self).1
        refine ih (q * rpow lo (a - a')) ?_ (fun s h => hs s (List.mem_cons_of_mem _ h)) x hx
        rw [real_rpow]; exact mul_pos hq (Real.rpow_pos_of_pos hlo _)

/-- consecutive running products differ by the continuity factor -/
theorem imfQs_step (segs : List (Seg ℝ)) (q : ℝ) (i : Nat) (h : i + 1 < segs.length) :
    (imfQs segs q).getD (i + 1) 0 =
      (imfQs segs q).getD i 0 * (segs.getD i (0, 0, 0)).1 ^ ((segs.getD i (0, 0, 0)).2.2 - (segs.getD (i + 1) (0, 0, 0)).2.2) := by
  induction segs generalizing q i with
  | nil => simp at h
  | cons s rest ih =>
    cases rest with
    | nil => simp at h
    | cons s' rest' =>
      obtain ⟨lo, hi, a⟩ := s; obtain ⟨lo', hi', a'⟩ := s'
      simp only [imfQs]
      cases i with
      | zero =>
        cases rest' with
        | nil => simp [imfQs, List.getD]
        | cons s'' r =>
          obtain ⟨lo'', hi'', a''⟩ := s''
          simp [imfQs, List.getD]
      | succ i =>
        have := ih (q * rpow lo (a - a')) i (by simpa using h)
        simpa [List.getD] using this

theorem imfS_cons (lo hi a q : ℝ) (segs : List (Seg ℝ)) (qs : List ℝ) :
    imfS ((lo, hi, a) :: segs) (q :: qs) = PkCore a 1 lo hi * q + imfS segs qs := by
  simp only [imfS, real_one]

theorem imfS_eq_sum (segs : List (Seg ℝ)) (qs : List ℝ) :
    imfS segs qs = (List.zipWith (fun (s : Seg ℝ) q => PkCore s.2.2 1 s.1 s.2.1 * q) segs qs).sum := by
  induction segs generalizing qs with
  | nil => simp [imfS]
  | cons s rest ih =>
    obtain ⟨lo, hi, a⟩ := s
    cases qs with
    | nil => simp [imfS]
    | cons q qs => rw [imfS_cons, ih qs]; simp

theorem imfS_map_mul (segs : List (Seg ℝ)) (qs : List ℝ) (c : ℝ) :
    imfS segs (qs.map (c * ·)) = c * imfS segs qs := by
  induction segs generalizing qs with
  | nil => simp [imfS]
  | cons s rest ih =>
    obtain ⟨lo, hi, a⟩ := s
    cases qs with
    | nil => simp [imfS]
    | cons q qs => rw [List.map_cons, imfS_cons, imfS_cons, ih qs]; ring

theorem imfS_reverse (segs : List (Seg ℝ)) (qs : List ℝ) (h : segs.length = qs.length) :
    imfS segs.reverse qs.reverse = imfS segs qs := by
  rw [imfS_eq_sum, imfS_eq_sum, ← List.reverse_zipWith h, List.sum_reverse]

theorem imfS_pos (segs : List (Seg ℝ)) (qs : List ℝ) (hs : SegsPos segs) (hq : ∀ x ∈ qs, 0 < x)
    (hne : segs ≠ []) (hl : segs.length = qs.length) : 0 < imfS segs qs := by
  induction segs generalizing qs with
  | nil => exact absurd rfl hne
  | cons s rest ih =>
    obtain ⟨lo, hi, a⟩ := s
    cases qs with
    | nil => simp at hl
    | cons q qs =>
      rw [imfS_cons]
      have hseg := hs (lo, hi, a) List.mem_cons_self
      have hP := PkCore_pos a 1 lo hi hseg.1 hseg.2
      have hq0 := hq q List.mem_cons_self
      have h1 : 0 < PkCore a 1 lo hi * q := mul_pos hP hq0
      cases rest with
      | nil => cases qs with
        | nil => simp only [imfS, real_zero, add_zero]; exact h1
        | cons _ _ => simp at hl
      | cons s' rest' =>
        have := ih qs (fun s h => hs s (List.mem_cons_of_mem _ h)) (fun x h => hq x (List.mem_cons_of_mem _ h))
          (by simp) (by simpa using hl)
        linarith

/-- **normalisation**: Σ_i A_i · Pk(a_i, 1, lo_i, hi_i) = 1 -/
theorem imfA_normalised (segs : List (Seg ℝ)) (hs : SegsPos segs) (hne : segs ≠ []) :
    imfS segs (imfA segs) = 1 := by
  unfold imfA
  simp only
  set rev := segs.reverse with hrev
  set qs := imfQs rev (1 : ℝ) with hqs
  have hrevpos : SegsPos rev := fun s h => hs s (List.mem_reverse.1 h)
  have hlen : rev.length = qs.length := (imfQs_length rev _).symm
  have hqpos : ∀ x ∈ qs, 0 < x := by
    have := imfQs_pos rev (1:ℝ) one_pos hrevpos
    simpa [hqs, real_one] using this
  have hSpos : 0 < imfS rev qs := imfS_pos rev qs hrevpos hqpos (by simpa [hrev] using hne) hlen
  have h1 : imfS segs ((qs.map fun q => rpow (imfS rev qs) (-1) * q).reverse)
      = imfS rev (qs.map fun q => rpow (imfS rev qs) (-1) * q) := by
    have := imfS_reverse rev (qs.map fun q => rpow (imfS rev qs) (-1) * q) (by simpa using hlen)
    rw [hrev, List.reverse_reverse] at this
    rw [← hrev] at this
    exact this
  have hone : (@OfNat.ofNat ℝ 1 ScalarLit.instOfNat) = (1:ℝ) := real_one
  simp only [hone] at h1 ⊢
  rw [h1, imfS_map_mul, real_rpow, Real.rpow_neg_one]
  exact inv_mul_cancel₀ hSpos.ne'

theorem imfA_length (segs : List (Seg ℝ)) : (imfA segs).length = segs.length := by
  unfold imfA; simp [imfQs_length]

/-- all constants are positive -/
theorem imfA_pos (segs : List (Seg ℝ)) (hs : SegsPos segs) (hne : segs ≠ []) : ∀ A ∈ imfA segs, 0 < A := by
  unfold imfA
  simp only
  set rev := segs.reverse with hrev
  set qs := imfQs rev (1 : ℝ) with hqs
  have hrevpos : SegsPos rev := fun s h => hs s (List.mem_reverse.1 h)
  have hlen : rev.length = qs.length := (imfQs_length rev _).symm
  have hqpos : ∀ x ∈ qs, 0 < x := by
    have := imfQs_pos rev (1:ℝ) one_pos hrevpos
    simpa [hqs, real_one] using this
  have hSpos : 0 < imfS rev qs := imfS_pos rev qs hrevpos hqpos (by simpa [hrev] using hne) hlen
  intro A hA
  have hone : (@OfNat.ofNat ℝ 1 ScalarLit.instOfNat) = (1:ℝ) := real_one
  simp only [hone] at hA
  rw [List.mem_reverse, List.mem_map] at hA
  obtain ⟨q, hq, rfl⟩ := hA
  rw [real_rpow, Real.rpow_neg_one]
  exact mul_pos (inv_pos.2 hSpos) (hqpos q hq)

end Model
