import SspModel.Real
import SspModel.Model.Pk
import Mathlib.Analysis.SpecialFunctions.Integrals.Basic
import Mathlib.Analysis.SpecialFunctions.Pow.Deriv
import Mathlib.Analysis.SpecialFunctions.Log.Deriv
/-! Helper lemmas about `Model.PkCore` over ℝ. -/
namespace Model
open Scalar intervalIntegral Set

theorem PkCore_real (a k m1 m2 : ℝ) :
    PkCore a k m1 m2 = if -a = k then Real.log (m2 / m1) else (m2 ^ (a + k) - m1 ^ (a + k)) / (a + k) := by
  unfold PkCore
  by_cases h : -a = k <;> simp [h]

theorem PkCore_eq_integral (a k m1 m2 : ℝ) (h1 : 0 < m1) (h2 : m1 ≤ m2) :
    PkCore a k m1 m2 = ∫ x in m1..m2, x ^ (a + k - 1) := by
  rw [PkCore_real]
  have h2' : 0 < m2 := lt_of_lt_of_le h1 h2
  split
  · rename_i h
    have hk : a + k = 0 := by linarith
    have : a + k - 1 = -1 := by linarith
    rw [this]
    have := integral_inv_of_pos h1 h2'
    simpa [Real.rpow_neg_one] using this.symm
  · rename_i h
    have hk : a + k ≠ 0 := by intro h0; apply h; linarith
    have hne : a + k - 1 ≠ -1 := by intro h0; apply hk; linarith
    have h0 : (0:ℝ) ∉ Set.uIcc m1 m2 := by
      rw [Set.uIcc_of_le h2]; intro hm; exact absurd hm.1 (not_le.2 h1)
    rw [integral_rpow (Or.inr ⟨hne, h0⟩)]
    simp

theorem rpow_intervalIntegrable (r m1 m2 : ℝ) (h1 : 0 < m1) (h2 : m1 ≤ m2) :
    IntervalIntegrable (fun x : ℝ => x ^ r) MeasureTheory.volume m1 m2 := by
  apply ContinuousOn.intervalIntegrable
  rw [uIcc_of_le h2]
  intro x hx
  exact (Real.continuousAt_rpow_const x r (Or.inl (ne_of_gt (lt_of_lt_of_le h1 hx.1)))).continuousWithinAt

theorem PkCore_pos (a k m1 m2 : ℝ) (h1 : 0 < m1) (h2 : m1 < m2) : 0 < PkCore a k m1 m2 := by
  rw [PkCore_eq_integral a k m1 m2 h1 h2.le]
  apply intervalIntegral_pos_of_pos_on (rpow_intervalIntegrable _ m1 m2 h1 h2.le) _ h2
  intro x hx
  exact Real.rpow_pos_of_pos (lt_trans h1 hx.1) _

theorem PkCore_self (a k m : ℝ) (h : 0 < m) : PkCore a k m m = 0 := by
  rw [PkCore_eq_integral a k m m h le_rfl]; simp

/-- swapping the edges flips the sign (both branches) -/
theorem PkCore_swap (a k m1 m2 : ℝ) (_h1 : 0 < m1) (_h2 : 0 < m2) :
    PkCore a k m2 m1 = - PkCore a k m1 m2 := by
  rw [PkCore_real, PkCore_real]
  split
  · rw [← Real.log_inv, inv_div]
  · ring

theorem PkCore_nonpos_of_ge (a k m1 m2 : ℝ) (h2 : 0 < m2) (h : m2 ≤ m1) : PkCore a k m1 m2 ≤ 0 := by
  have h1 : 0 < m1 := lt_of_lt_of_le h2 h
  rcases eq_or_lt_of_le h with rfl | hlt
  · rw [PkCore_self a k m2 h2]
  · rw [PkCore_swap a k m2 m1 h2 h1]
    have := PkCore_pos a k m2 m1 h2 hlt
    linarith

theorem PkCore_add (a k m1 m2 m3 : ℝ) (h1 : 0 < m1) (h2 : m1 ≤ m2) (h3 : m2 ≤ m3) :
    PkCore a k m1 m2 + PkCore a k m2 m3 = PkCore a k m1 m3 := by
  rw [PkCore_eq_integral a k m1 m2 h1 h2, PkCore_eq_integral a k m2 m3 (lt_of_lt_of_le h1 h2) h3,
    PkCore_eq_integral a k m1 m3 h1 (le_trans h2 h3)]
  exact integral_add_adjacent_intervals (rpow_intervalIntegrable _ m1 m2 h1 h2)
    (rpow_intervalIntegrable _ m2 m3 (lt_of_lt_of_le h1 h2) h3)

/-- the implied mean mass (second over first moment) lies strictly inside the interval -/
theorem mean_in_interval (a m1 m2 : ℝ) (h1 : 0 < m1) (h2 : m1 < m2) :
    m1 < PkCore a 2 m1 m2 / PkCore a 1 m1 m2 ∧ PkCore a 2 m1 m2 / PkCore a 1 m1 m2 < m2 := by
  have hP1 := PkCore_pos a 1 m1 m2 h1 h2
  rw [lt_div_iff₀ hP1, div_lt_iff₀ hP1]
  rw [PkCore_eq_integral a 2 m1 m2 h1 h2.le, PkCore_eq_integral a 1 m1 m2 h1 h2.le]
  have e2 : a + 2 - 1 = a + 1 := by ring
  have e1 : a + 1 - 1 = a := by ring
  rw [e2, e1]
  have hI1 := rpow_intervalIntegrable a m1 m2 h1 h2.le
  have hI2 := rpow_intervalIntegrable (a + 1) m1 m2 h1 h2.le
  constructor
  · have : 0 < ∫ x in m1..m2, (x ^ (a + 1) - m1 * x ^ a) := by
      apply intervalIntegral_pos_of_pos_on (hI2.sub (hI1.const_mul m1)) _ h2
      intro x hx
      have hx0 : 0 < x := lt_trans h1 hx.1
      rw [Real.rpow_add_one hx0.ne']
      have := Real.rpow_pos_of_pos hx0 a
      nlinarith [hx.1]
    rw [integral_sub hI2 (hI1.const_mul m1), integral_const_mul] at this
    linarith
  · have : 0 < ∫ x in m1..m2, (m2 * x ^ a - x ^ (a + 1)) := by
      apply intervalIntegral_pos_of_pos_on ((hI1.const_mul m2).sub hI2) _ h2
      intro x hx
      have hx0 : 0 < x := lt_trans h1 hx.1
      rw [Real.rpow_add_one hx0.ne']
      have := Real.rpow_pos_of_pos hx0 a
      nlinarith [hx.2]
    rw [integral_sub (hI1.const_mul m2) hI2, integral_const_mul] at this
    linarith

/-- d/dm Pk(α,1,l,m) = m^α -/
theorem PkCore_hasDerivAt_upper (α l m : ℝ) (hl : 0 < l) (hm : 0 < m) :
    HasDerivAt (fun x => PkCore α 1 l x) (m ^ α) m := by
  have hfun : (fun x => PkCore α 1 l x) =
      fun x => if -α = 1 then Real.log (x / l) else (x ^ (α + 1) - l ^ (α + 1)) / (α + 1) := by
    funext x; rw [PkCore_real]
  rw [hfun]
  by_cases h : -α = 1
  · simp only [h, if_true]
    have hα : α = -1 := by linarith
    have h1 : HasDerivAt (fun x : ℝ => x / l) (1 / l) m := by
      simpa using (hasDerivAt_id m).div_const l
    have h2 := h1.log (by positivity)
    have hv : 1 / l / (m / l) = m ^ α := by
      rw [hα, Real.rpow_neg_one]; field_simp
    exact h2.congr_deriv hv
  · simp only [h, if_false]
    have hne : α + 1 ≠ 0 := by intro h0; apply h; linarith
    have h1 : HasDerivAt (fun x : ℝ => x ^ (α + 1)) ((α + 1) * m ^ (α + 1 - 1)) m :=
      Real.hasDerivAt_rpow_const (Or.inl hm.ne')
    have h2 := (h1.sub_const (l ^ (α + 1))).div_const (α + 1)
    have hv : (α + 1) * m ^ (α + 1 - 1) / (α + 1) = m ^ α := by
      have : α + 1 - 1 = α := by ring
      rw [this]; field_simp
    exact h2.congr_deriv hv

theorem resolution_real : (resolution : ℝ) = 1e-15 := by
  unfold resolution
  rw [real_ofSci]

theorem resolution_pos : (0:ℝ) < resolution := by rw [resolution_real]; norm_num

end Model
