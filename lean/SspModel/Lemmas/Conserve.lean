import Mathlib.Analysis.Calculus.MeanValue
import Mathlib.Analysis.Calculus.Deriv.MeanValue
import Mathlib.Analysis.Calculus.Deriv.Add
import Mathlib.MeasureTheory.Integral.IntervalIntegral.FundThmCalculus
/-!
# Trajectory lemmas for exact solutions

What the instantaneous identities of the derivative functions imply along an exact solution on `[t0, t1]`:
a quantity whose rate vanishes is conserved, one whose rate is non-positive never grows, and a total whose rate is a
continuous function `r` changes by `∫ r`. (dopri5's output is not an exact solution; these are the statements the
properties make about the ODE system itself.)
-/
namespace Conserve
open Set

theorem const_of_rate_zero (f : ℝ → ℝ) (t0 t1 : ℝ) (h : ∀ t ∈ Icc t0 t1, HasDerivAt f 0 t) :
    ∀ t ∈ Icc t0 t1, f t = f t0 := by
  have hcont : ContinuousOn f (Icc t0 t1) := fun t ht => (h t ht).continuousAt.continuousWithinAt
  exact constant_of_has_deriv_right_zero hcont (fun t ht => (h t ⟨ht.1, ht.2.le⟩).hasDerivWithinAt)

theorem antitone_of_rate_nonpos (f f' : ℝ → ℝ) (t0 t1 : ℝ) (h : ∀ t ∈ Icc t0 t1, HasDerivAt f (f' t) t)
    (hn : ∀ t ∈ Icc t0 t1, f' t ≤ 0) : AntitoneOn f (Icc t0 t1) := by
  apply antitoneOn_of_deriv_nonpos (convex_Icc t0 t1)
  · exact fun t ht => (h t ht).continuousAt.continuousWithinAt
  · intro t ht
    rw [interior_Icc] at ht
    exact (h t ⟨ht.1.le, ht.2.le⟩).differentiableAt.differentiableWithinAt
  · intro t ht
    rw [interior_Icc] at ht
    rw [(h t ⟨ht.1.le, ht.2.le⟩).deriv]
    exact hn t ⟨ht.1.le, ht.2.le⟩

/-- a finite family of components whose rates cancel: the total is conserved -/
theorem total_const {n : ℕ} (y F : Fin n → ℝ → ℝ) (t0 t1 : ℝ)
    (hsol : ∀ i, ∀ t ∈ Icc t0 t1, HasDerivAt (y i) (F i t) t)
    (hsum : ∀ t ∈ Icc t0 t1, ∑ i, F i t = 0) :
    ∀ t ∈ Icc t0 t1, ∑ i, y i t = ∑ i, y i t0 := by
  apply const_of_rate_zero (fun s => ∑ i, y i s) t0 t1
  intro t ht
  have := HasDerivAt.fun_sum (u := Finset.univ) (fun i _ => hsol i t ht)
  rw [hsum t ht] at this
  exact this

/-- … and if the rates add up to a continuous `r`, the total changes by `∫ r` (N(t) = N0 + ∫ rate) -/
theorem total_eq_integral {n : ℕ} (y F : Fin n → ℝ → ℝ) (r : ℝ → ℝ) (t0 t1 : ℝ) (hle : t0 ≤ t1)
    (hsol : ∀ i, ∀ t ∈ Icc t0 t1, HasDerivAt (y i) (F i t) t)
    (hsum : ∀ t ∈ Icc t0 t1, ∑ i, F i t = r t) (hr : ContinuousOn r (Icc t0 t1)) :
    ∑ i, y i t1 = ∑ i, y i t0 + ∫ t in t0..t1, r t := by
  have hd : ∀ t ∈ uIcc t0 t1, HasDerivAt (fun s => ∑ i, y i s) (r t) t := by
    intro t ht
    rw [uIcc_of_le hle] at ht
    have := HasDerivAt.fun_sum (u := Finset.univ) (fun i _ => hsol i t ht)
    rw [hsum t ht] at this
    exact this
  have hint : IntervalIntegrable r MeasureTheory.volume t0 t1 := by
    apply ContinuousOn.intervalIntegrable
    rwa [uIcc_of_le hle]
  have := intervalIntegral.integral_eq_sub_of_hasDerivAt hd hint
  linarith

/-- a total whose rate is the continuous function `r`: `N(t1) = N(t0) + ∫ r` -/
theorem eq_integral_of_rate (f r : ℝ → ℝ) (t0 t1 : ℝ) (hle : t0 ≤ t1) (hf : ∀ t ∈ Icc t0 t1, HasDerivAt f (r t) t)
    (hr : ContinuousOn r (Icc t0 t1)) : f t1 = f t0 + ∫ t in t0..t1, r t := by
  have hd : ∀ t ∈ uIcc t0 t1, HasDerivAt f (r t) t := by
    intro t ht; rw [uIcc_of_le hle] at ht; exact hf t ht
  have hint : IntervalIntegrable r MeasureTheory.volume t0 t1 := by
    apply ContinuousOn.intervalIntegrable; rwa [uIcc_of_le hle]
  have := intervalIntegral.integral_eq_sub_of_hasDerivAt hd hint
  linarith

/-- **a scaled exact solution is an exact solution** when the right-hand side is homogeneous of degree one in the extensive
    components (numbers and masses) and does not depend on the scale otherwise (slopes enter through `F`'s time/parameter argument) -/
theorem scaled_solution {n : ℕ} (y : Fin n → ℝ → ℝ) (F : ℝ → (Fin n → ℝ) → Fin n → ℝ) (l t : ℝ)
    (hsol : ∀ i, HasDerivAt (y i) (F t (fun j => y j t) i) t)
    (hhom : ∀ v : Fin n → ℝ, ∀ i, F t (fun j => l * v j) i = l * F t v i) :
    ∀ i, HasDerivAt (fun s => l * y i s) (F t (fun j => l * y j t) i) t := by
  intro i
  rw [hhom]
  exact (hsol i).const_mul l

end Conserve
