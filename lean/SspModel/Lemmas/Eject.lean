import SspModel.Real
import SspModel.Model.Eject
import Mathlib.Tactic.Linarith
import Mathlib.Tactic.FieldSimp
import Mathlib.Tactic.Ring
import Mathlib.Tactic.Positivity
/-! Helper lemmas for the BH ejection loops over ℝ -/
namespace Model
open Scalar

theorem sumFst_nil : sumFst ([] : List (ℝ × ℝ)) = 0 := by simp [sumFst]
theorem sumFst_cons (m n : ℝ) (t : List (ℝ × ℝ)) : sumFst ((m, n) :: t) = m + sumFst t := rfl

theorem sumFst_nonneg (l : List (ℝ × ℝ)) (h : ∀ b ∈ l, 0 ≤ b.1) : 0 ≤ sumFst l := by
  induction l with
  | nil => simp [sumFst_nil]
  | cons b t ih =>
    obtain ⟨m, n⟩ := b
    rw [sumFst_cons]
    have := h (m, n) List.mem_cons_self
    have := ih (fun b hb => h b (List.mem_cons_of_mem _ hb))
    simp only at *; linarith

theorem sumFst_append (a b : List (ℝ × ℝ)) : sumFst (a ++ b) = sumFst a + sumFst b := by
  induction a with
  | nil => simp [sumFst_nil]
  | cons x t ih => obtain ⟨m, n⟩ := x; simp only [List.cons_append, sumFst_cons, ih]; ring

theorem sumFst_reverse (a : List (ℝ × ℝ)) : sumFst a.reverse = sumFst a := by
  induction a with
  | nil => simp
  | cons x t ih =>
    obtain ⟨m, n⟩ := x
    simp only [List.reverse_cons, sumFst_append, ih, sumFst_cons, sumFst_nil]; ring

/-- unfolding of the loop over ℝ -/
theorem dynEjectLoop_cons (m n : ℝ) (rest : List (ℝ × ℝ)) (mej : ℝ) :
    dynEjectLoop ((m, n) :: rest) mej =
      if m < mej then
        (match dynEjectLoop rest (mej - m) with
          | .ok (r, d) => .ok ((0, 0) :: r, d)
          | .error e => .error e)
      else .ok ((m - mej, n - mej / (m / n)) :: rest, !(decide (m = 0))) := by
  simp only [dynEjectLoop, Scalar.lt, Scalar.beq, real_zero]
  by_cases h : m < mej
  · simp only [h, decide_true, if_true]
    cases dynEjectLoop rest (mej - m) with
    | error e => rfl
    | ok v => obtain ⟨r, d⟩ := v; simp only [real_zero]
  · simp [h]

/-- exact budget -/
theorem dynEjectLoop_mass (l : List (ℝ × ℝ)) (mej : ℝ) (r : List (ℝ × ℝ)) (d : Bool)
    (h : dynEjectLoop l mej = .ok (r, d)) : sumFst r = sumFst l - mej := by
  induction l generalizing mej r d with
  | nil => simp [dynEjectLoop] at h
  | cons hd tl ih =>
    obtain ⟨m, n⟩ := hd
    rw [dynEjectLoop_cons] at h
    split at h
    · split at h
      · rename_i r' d' hrec
        cases h
        have := ih _ _ _ hrec
        simp only [sumFst_cons]; linarith
      · cases h
    · cases h
      simp only [sumFst_cons]; ring

/-- with a positive amount to eject the result is always defined (no 0/0) -/
theorem dynEjectLoop_defined (l : List (ℝ × ℝ)) (mej : ℝ) (hpos : 0 < mej) (r : List (ℝ × ℝ)) (d : Bool)
    (h : dynEjectLoop l mej = .ok (r, d)) : d = true := by
  induction l generalizing mej r d with
  | nil => simp [dynEjectLoop] at h
  | cons hd tl ih =>
    obtain ⟨m, n⟩ := hd
    rw [dynEjectLoop_cons] at h
    split at h
    · rename_i hlt
      split at h
      · rename_i r' d' hrec
        cases h
        exact ih (mej - m) (by linarith) _ _ hrec
      · cases h
    · rename_i hge
      cases h
      have : m ≠ 0 := by intro h0; apply hge; linarith
      simp [this]

/-- the shape of the result: bins above the cut emptied, bins below untouched, one bin partly depleted -/
theorem dynEjectLoop_shape (l : List (ℝ × ℝ)) (mej : ℝ) (h0 : 0 ≤ mej) (r : List (ℝ × ℝ)) (d : Bool)
    (h : dynEjectLoop l mej = .ok (r, d)) :
    ∃ (pre : List (ℝ × ℝ)) (b : ℝ × ℝ) (post : List (ℝ × ℝ)) (x : ℝ),
      l = pre ++ b :: post ∧
      r = pre.map (fun _ => ((0:ℝ), (0:ℝ))) ++ (b.1 - x, b.2 - x / (b.1 / b.2)) :: post ∧
      x = mej - sumFst pre ∧ x ≤ b.1 ∧ 0 ≤ x := by
  induction l generalizing mej r d with
  | nil => simp [dynEjectLoop] at h
  | cons hd tl ih =>
    obtain ⟨m, n⟩ := hd
    rw [dynEjectLoop_cons] at h
    split at h
    · rename_i hlt
      split at h
      · rename_i r' d' hrec
        cases h
        obtain ⟨pre, b, post, x, hl, hr, hx, hxb, hx0⟩ := ih (mej - m) (by linarith) _ _ hrec
        refine ⟨(m, n) :: pre, b, post, x, ?_, ?_, ?_, hxb, hx0⟩
        · simp [hl]
        · simp [hr]
        · simp only [sumFst_cons]; linarith
      · cases h
    · rename_i hge
      cases h
      refine ⟨[], (m, n), tl, mej, by simp, by simp, by simp [sumFst_nil], le_of_not_gt hge, h0⟩

/-- the partly depleted bin keeps its mean mass -/
theorem partial_mean (M N x : ℝ) (hM : M ≠ 0) (hN : N ≠ 0) (hx : x ≠ M) :
    (M - x) / (N - x / (M / N)) = M / N := by
  have h1 : N - x / (M / N) = N * (M - x) / M := by field_simp
  rw [h1]
  have h2 : M - x ≠ 0 := fun h => hx (by linarith)
  field_simp

theorem partial_nonneg (M N x : ℝ) (hM : 0 ≤ M) (hN : 0 ≤ N) (hx0 : 0 ≤ x) (hx : x ≤ M) :
    0 ≤ M - x ∧ 0 ≤ N - x / (M / N) ∧ N - x / (M / N) ≤ N := by
  refine ⟨by linarith, ?_, ?_⟩
  · rcases eq_or_lt_of_le hM with h0 | hpos
    · rw [← h0]; simp; exact hN
    · rcases eq_or_lt_of_le hN with hn0 | hnpos
      · rw [← hn0]; simp
      · have h1 : x / (M / N) = x * N / M := by field_simp
        rw [h1, sub_nonneg, div_le_iff₀ hpos]
        nlinarith
  · have : 0 ≤ x / (M / N) := by positivity
    linarith

/-- nothing becomes negative and nothing grows -/
theorem dynEjectLoop_nonneg (l : List (ℝ × ℝ)) (mej : ℝ) (h0 : 0 ≤ mej)
    (hl : ∀ b ∈ l, 0 ≤ b.1 ∧ 0 ≤ b.2) (r : List (ℝ × ℝ)) (d : Bool)
    (h : dynEjectLoop l mej = .ok (r, d)) : ∀ b ∈ r, 0 ≤ b.1 ∧ 0 ≤ b.2 := by
  induction l generalizing mej r d with
  | nil => simp [dynEjectLoop] at h
  | cons hd tl ih =>
    obtain ⟨m, n⟩ := hd
    rw [dynEjectLoop_cons] at h
    have hmn := hl (m, n) List.mem_cons_self
    have htl : ∀ b ∈ tl, 0 ≤ b.1 ∧ 0 ≤ b.2 := fun b hb => hl b (List.mem_cons_of_mem _ hb)
    split at h
    · rename_i hlt
      split at h
      · rename_i r' d' hrec
        cases h
        intro b hb
        rcases List.mem_cons.1 hb with rfl | hb
        · simp
        · exact ih (mej - m) (by linarith) htl _ _ hrec b hb
      · cases h
    · rename_i hge
      cases h
      intro b hb
      rcases List.mem_cons.1 hb with rfl | hb
      · have := partial_nonneg m n mej hmn.1 hmn.2 h0 (le_of_not_gt hge)
        exact ⟨this.1, this.2.1⟩
      · exact htl b hb

/-- asking for more than exists raises -/
theorem dynEjectLoop_over (l : List (ℝ × ℝ)) (mej : ℝ) (hl : ∀ b ∈ l, 0 ≤ b.1) (h : sumFst l < mej) :
    dynEjectLoop l mej = .error .overEject := by
  induction l generalizing mej with
  | nil => simp [dynEjectLoop]
  | cons hd tl ih =>
    obtain ⟨m, n⟩ := hd
    rw [dynEjectLoop_cons]
    have htl : ∀ b ∈ tl, 0 ≤ b.1 := fun b hb => hl b (List.mem_cons_of_mem _ hb)
    have hs := sumFst_nonneg tl htl
    rw [sumFst_cons] at h
    have hlt : m < mej := by linarith
    rw [if_pos hlt, ih (mej - m) htl (by linarith)]

/-- … and anything up to the total succeeds -/
theorem dynEjectLoop_ok (l : List (ℝ × ℝ)) (mej : ℝ) (hpos : 0 < mej) (h : mej ≤ sumFst l) :
    ∃ r d, dynEjectLoop l mej = .ok (r, d) := by
  induction l generalizing mej with
  | nil => rw [sumFst_nil] at h; linarith
  | cons hd tl ih =>
    obtain ⟨m, n⟩ := hd
    rw [dynEjectLoop_cons]
    rw [sumFst_cons] at h
    by_cases hlt : m < mej
    · rw [if_pos hlt]
      obtain ⟨r, d, hr⟩ := ih (mej - m) (by linarith) (by linarith)
      rw [hr]; exact ⟨_, _, rfl⟩
    · rw [if_neg hlt]; exact ⟨_, _, rfl⟩

theorem dynEjectRev_real (l : List (ℝ × ℝ)) (mej : ℝ) :
    dynEjectRev l mej = if 0 < mej then dynEjectLoop l mej else .ok (l, true) := by
  unfold dynEjectRev
  by_cases h : 0 < mej <;> simp [h, Scalar.lt]

end Model
