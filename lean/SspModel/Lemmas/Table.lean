import Mathlib.Data.Real.Basic
import Mathlib.Tactic.Linarith
import Mathlib.Tactic.Positivity
import Mathlib.Tactic.FieldSimp
import Mathlib.Tactic.Ring
import Mathlib.Tactic.NormNum
import SspModel.TableCheck
/-!
# Soundness of the packed-table checker and the bounds linear interpolation inherits from its knots
-/
namespace Tab

theorem check_sound : ∀ (n p prevBH : Nat), check n p prevBH = true →
    (∀ r ∈ rows n p, rowOK r = true) ∧
    ((rows n p).filter (·.ty == 14)).Pairwise (fun a b => a.mi < b.mi) ∧
    (∀ r ∈ (rows n p).filter (·.ty == 14), prevBH < r.mi) := by
  intro n
  induction n with
  | zero => intro p prev _; simp [rows]
  | succ n ih =>
    intro p prev h
    simp only [check, Bool.and_eq_true] at h
    obtain ⟨⟨h1, h2⟩, h3⟩ := h
    obtain ⟨ihok, ihpw, ihlt⟩ := ih _ _ h3
    refine ⟨?_, ?_, ?_⟩
    · intro r hr
      simp only [rows, List.mem_cons] at hr
      rcases hr with rfl | hr
      · exact h2
      · exact ihok r hr
    · simp only [rows]
      by_cases hty : (decodeRow (p % B)).ty == 14
      · simp only [List.filter_cons, hty, if_true, List.pairwise_cons]
        refine ⟨fun r hr => ?_, ihpw⟩
        have := ihlt r hr
        simpa [hty] using this
      · simp only [List.filter_cons, hty, Bool.false_eq_true, if_false]
        exact ihpw
    · intro r hr
      simp only [rows, List.filter_cons] at hr
      by_cases hty : (decodeRow (p % B)).ty == 14
      · simp only [hty, if_true, List.mem_cons] at hr h1
        simp only [decide_eq_true_eq] at h1
        rcases hr with rfl | hr
        · exact h1
        · have := ihlt r hr
          simp only [hty, if_true] at this
          omega
      · simp only [hty, Bool.false_eq_true, if_false] at hr
        have := ihlt r hr
        simpa [hty] using this

/-- what `rowOK` says about a type-14 row, as real numbers: 0 < mf ≤ mi -/
theorem rowOK_bh_real (r : Row) (h : rowOK r = true) (hty : r.ty = 14) :
    (0:ℝ) < (r.mf : ℝ) / 100000 ∧ (r.mf : ℝ) / 100000 ≤ (r.mi : ℝ) / 10 := by
  unfold rowOK at h
  simp only [hty, bne_self_eq_false, Bool.false_or, Bool.and_eq_true, decide_eq_true_eq] at h
  obtain ⟨⟨h1, h2⟩, _⟩ := h
  constructor
  · have : (0:ℝ) < (r.mf : ℝ) := by exact_mod_cast h1
    positivity
  · have : (r.mf : ℝ) ≤ (r.mi : ℝ) * 10000 := by exact_mod_cast h2
    rw [div_le_div_iff₀ (by norm_num) (by norm_num)]
    linarith

theorem rowOK_fb_real (r : Row) (h : rowOK r = true) : (r.fb : ℝ) / 100000 ≤ 1 := by
  unfold rowOK at h
  simp only [Bool.and_eq_true, decide_eq_true_eq] at h
  have : (r.fb : ℝ) ≤ 100000 := by exact_mod_cast h.2
  rw [div_le_one (by norm_num)]; exact this

end Tab

/-- linear interpolation on one segment stays between the end values and below the identity -/
theorem lin_seg_bounds (x0 x1 y0 y1 x : ℝ) (hx : x0 < x1) (h0 : x0 ≤ x) (h1 : x ≤ x1)
    (hy0 : 0 < y0) (hy1 : 0 < y1) (hle0 : y0 ≤ x0) (hle1 : y1 ≤ x1) :
    let s := y0 + (y1 - y0) * ((x - x0) / (x1 - x0))
    min y0 y1 ≤ s ∧ 0 < s ∧ s ≤ x := by
  intro s
  have hd : 0 < x1 - x0 := by linarith
  obtain ⟨lam, hlam⟩ : ∃ lam, lam = (x - x0) / (x1 - x0) := ⟨_, rfl⟩
  have hl0 : 0 ≤ lam := by rw [hlam]; exact div_nonneg (by linarith) hd.le
  have hl1 : lam ≤ 1 := by rw [hlam, div_le_one hd]; linarith
  have hs : s = (1 - lam) * y0 + lam * y1 := by simp only [s, ← hlam]; ring
  have hxs : x = (1 - lam) * x0 + lam * x1 := by rw [hlam]; field_simp; ring
  have hmin0 : min y0 y1 ≤ y0 := min_le_left _ _
  have hmin1 : min y0 y1 ≤ y1 := min_le_right _ _
  have hminpos : 0 < min y0 y1 := lt_min hy0 hy1
  have key : min y0 y1 ≤ s := by
    rw [hs]
    nlinarith [mul_nonneg (sub_nonneg.2 hl1) (sub_nonneg.2 hmin0), mul_nonneg hl0 (sub_nonneg.2 hmin1)]
  refine ⟨key, lt_of_lt_of_le hminpos key, ?_⟩
  rw [hs]
  nlinarith [mul_nonneg (sub_nonneg.2 hl1) (sub_nonneg.2 hle0), mul_nonneg hl0 (sub_nonneg.2 hle1), hxs]
