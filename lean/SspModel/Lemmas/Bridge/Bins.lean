import SspModel.Real
import SspModel.Generated.Formulas
import SspModel.Model.Bins
import Mathlib.Tactic.NormNum
/-!
# Bridge (Bins): carving masks and bin lookup

The masks with which `MassBins.__init__` carves the remnant bins and the two comparisons of `determine_index`, as they are in the
source now, are the model's.
-/
namespace Bridge
open Model Scalar

theorem gen_carveWD (ms : List (Bin ℝ)) (x : ℝ) :
    carveWD ms x = setLastUpper (ms.filter fun b => Generated.carve_WD_mask b.1 b.2 x) x := rfl
theorem gen_carveBH (ms : List (Bin ℝ)) (x : ℝ) :
    carveBH ms x = setFirstLower (ms.filter fun b => Generated.carve_BH_mask b.1 b.2 x) x := rfl
theorem gen_carveNS (ms : List (Bin ℝ)) :
    carveNS ms (14e-1 : ℝ) = ms.filter fun b => Generated.carve_NS_mask b.1 b.2 := rfl
theorem gen_carve_edges (x : ℝ) : Generated.carve_WD_edge_is_WDmax x = 1 ∧ Generated.carve_BH_edge_is_BHmin x = 1 := by
  simp only [Generated.carve_WD_edge_is_WDmax, Generated.carve_BH_edge_is_BHmin, real_one, and_self]

/-- an integer bin count is divided over `len(m_break) - 1` segments (the binning breaks', not the IMF's) -/
theorem gen_nseg (x : ℝ) : Generated.bins_nseg_is_breaks_minus_one x = 1 := by
  simp only [Generated.bins_nseg_is_breaks_minus_one, real_one]

theorem gen_lastLowerLe_cons (l u m : ℝ) (t : List (Bin ℝ)) (i : Nat) (acc : Option Nat) :
    lastLowerLe ((l, u) :: t) m i acc = lastLowerLe t m (i + 1) (if Generated.lookup_le l m then some i else acc) := rfl
theorem gen_lookup_over (u m : ℝ) : Generated.lookup_over u m = le u m := rfl
theorem gen_lookup_last (x : ℝ) : Generated.lookup_last_bin_test x = 1 := by
  simp only [Generated.lookup_last_bin_test, real_one]

end Bridge
