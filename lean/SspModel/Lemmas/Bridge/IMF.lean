import SspModel.Real
import SspModel.Generated.Formulas
import SspModel.Model.IMF
/-!
# Bridge (IMF): which segment a mass / a bin belongs to, and the continuity recursion

The conditions that `PowerLawIMF.__call__` and `binned_eval` hand to `np.select` (first, middle and last segment in extrapolate mode; the
in-range form otherwise — with the slices the middle segments are paired by) and the recursion `A_{i-1} = A_i·mb_i^(a_i − a_{i−1})`, as
they are in the source now, are the ones `Model.evalBounds`, `Model.binMasks` and `Model.imfQs` use.
-/
namespace Bridge
open Model Scalar

theorem gen_evalBounds (ext : Nat) (segs : List (Seg ℝ)) (m : ℝ) :
    evalBounds ext segs m =
      (let nc := segs.length
       if ext == 0 then
         if nc == 1 then [true]
         else (List.range nc).zipWith (fun i (s : Seg ℝ) =>
           if i == 0 then Generated.call_first m s.2.1
           else if i == nc - 1 then Generated.call_last m s.1
           else Generated.call_mid m s.1 s.2.1) segs
       else segs.map fun s => Generated.call_in m s.1 s.2.1) := rfl

theorem gen_binMasks (ext : Nat) (segs : List (Seg ℝ)) (lo hi : ℝ) :
    binMasks ext segs lo hi =
      (let nc := segs.length
       if ext == 0 then
         if nc == 1 then [true]
         else (List.range nc).zipWith (fun i (s : Seg ℝ) =>
           if i == 0 then Generated.bin_first lo hi s.2.1
           else if i == nc - 1 then Generated.bin_last lo hi s.1
           else Generated.bin_mid lo hi s.1 s.2.1) segs
       else segs.map fun s => Generated.bin_in lo hi s.1 s.2.1) := rfl

/-- the running product of the model is the source's recursion step -/
theorem gen_imfQs_step (lo hi a lo' hi' a' q : ℝ) (rest : List (Seg ℝ)) :
    imfQs ((lo, hi, a) :: (lo', hi', a') :: rest) q = q :: imfQs ((lo', hi', a') :: rest) (Generated.imf_A_step q lo a a') := rfl

end Bridge
