import SspModel.Real
import SspModel.Generated.Formulas
import SspModel.Generated.Constants
import SspModel.Model.Kicks
import Mathlib.Tactic.Ring
import Mathlib.Tactic.NormNum
/-!
# Bridge (Kicks): kicks.py retention formulas and the skip threshold
The expressions extracted from /repo's source *now* (`Generated.*`) equal the hand-written model (`Model.*`) over ℝ.
A source edit that changes one of these formulas breaks the lemma here and with it every property that imports this file.
-/
namespace Bridge
open Model Scalar

theorem gen_sigmoid (m slope scale : ℝ) : Generated.sigmoid m slope scale = sigmoidRet slope scale m := rfl
theorem gen_maxwellian (x a : ℝ) : Generated.maxwellian x a = maxwellPdf a x := by
  simp only [Generated.maxwellian, maxwellPdf, real_one, real_two, real_three, real_rpow, real_exp, real_sqrt, real_pi]
  try ring_nf
theorem gen_kickSkip : (Generated.kickSkip : ℝ) = (1e-1 : ℝ) := by
  simp only [Generated.kickSkip, real_ofSci]; try norm_num

end Bridge
