import SspModel.Real
import SspModel.Generated.Formulas
import SspModel.Generated.Constants
import SspModel.Model.Pk
/-!
# Bridge (Pk): `masses.Pk` (both branches and the branch condition) and the thin-bin resolution constant
The expressions extracted from /repo's source *now* (`Generated.*`) equal the hand-written model (`Model.*`) over ℝ.
A source edit that changes one of these formulas breaks the lemma here and with it every property that imports this file.
-/
namespace Bridge
open Model Scalar

theorem gen_pk (a k m1 m2 : ℝ) :
    (if Generated.pk_mask a k then Generated.pk_log a k m1 m2 else Generated.pk_main a k m1 m2) = PkCore a k m1 m2 := rfl
theorem gen_resolution : (Generated.resolution : ℝ) = Model.resolution := rfl

end Bridge
