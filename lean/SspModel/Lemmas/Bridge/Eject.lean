import SspModel.Real
import SspModel.Generated.Formulas
import SspModel.Generated.Constants
import SspModel.Model.Eject
import SspModel.Model.Kicks
import Mathlib.Tactic.NormNum
/-!
# Bridge (Eject): loop bodies of `EvolvedMF._dyn_eject_BH` and `kicks._unbound_natal_kicks`

One step of the model's ejection loop (`dynEjectLoop`) and of the kick bookkeeping (`unboundKicksAux`), written with the expressions
extracted from the source now (`Generated.eject_*`, `Generated.kick_*`): the while-condition, the whole-bin test, the budget update, the
zeroed entries, the partial removal, the initial budget; the retention argument, the ejecta accumulator and the two in-place scalings.
-/
namespace Bridge
open Model Scalar

theorem gen_dynEjectLoop_cons (m n mej : ℝ) (rest : List (ℝ × ℝ)) :
    dynEjectLoop ((m, n) :: rest) mej =
      if Generated.eject_whole m mej then
        (match dynEjectLoop rest (Generated.eject_budget m mej) with
         | .ok (r, d) => .ok ((Generated.eject_zeroM m, Generated.eject_zeroN n) :: r, d)
         | .error e => .error e)
      else .ok ((Generated.eject_partM m n mej, Generated.eject_partN m n mej) :: rest, !(beq m 0)) := by
  have hw : Generated.eject_whole m mej = lt m mej := rfl
  rw [hw]
  simp only [dynEjectLoop, Generated.eject_budget, Generated.eject_zeroM, Generated.eject_zeroN, Generated.eject_partM,
    Generated.eject_partN]
  by_cases h : lt m mej = true
  · rw [if_pos h, if_pos h]
    cases dynEjectLoop rest (mej - m) with
    | error e => rfl
    | ok v => rfl
  · rw [if_neg h, if_neg h]
    simp only [real_zero]

theorem gen_dynEjectRev (bins : List (ℝ × ℝ)) (mej : ℝ) :
    dynEjectRev bins mej = if Generated.eject_cond mej then dynEjectLoop bins mej else .ok (bins, true) := by
  have hc : Generated.eject_cond mej = lt 0 mej := by simp only [Generated.eject_cond, real_zero]
  rw [hc]; unfold dynEjectRev; simp only [real_zero]

theorem gen_eject_initial (Mtot ret : ℝ) : Generated.eject_initial Mtot ret = Mtot * (1 - ret) := by
  simp only [Generated.eject_initial]
  have : (@OfScientific.ofScientific ℝ ScalarLit.instOfSci 10 true 1) = (1:ℝ) := by rw [real_ofSci]; norm_num
  rw [this]

theorem gen_unboundKicksAux_cons (fret : ℝ → ℝ) (m n acc : ℝ) (rest : List (ℝ × ℝ)) :
    unboundKicksAux fret ((m, n) :: rest) acc =
      if lt n (Generated.kickSkip : ℝ) then
        ((m, n) :: (unboundKicksAux fret rest acc).1, (unboundKicksAux fret rest acc).2)
      else
        let ret := fret (Generated.kick_arg m n)
        ((Generated.kick_M m ret, Generated.kick_N n ret) :: (unboundKicksAux fret rest (Generated.kick_acc acc m ret)).1,
         (unboundKicksAux fret rest (Generated.kick_acc acc m ret)).2) := by
  have hk : (Generated.kickSkip : ℝ) = (1e-1 : ℝ) := rfl
  rw [hk]
  simp only [unboundKicksAux, Generated.kick_arg, Generated.kick_M, Generated.kick_N, Generated.kick_acc]

/-- one step of the target-fraction loop of `EvolvedMFWithBH._dyn_eject_BH`, in the source's own expressions -/
theorem gen_targetEjectRev_cons (m n MBH Mtot f : ℝ) (rest : List (ℝ × ℝ)) :
    targetEjectRev ((m, n) :: rest) MBH Mtot f =
      if Generated.target_cond f MBH Mtot then
        if Generated.target_whole m MBH Mtot f then
          ((0, 0) :: (targetEjectRev rest (Generated.target_MBH m MBH) (Generated.target_Mtot m Mtot) f).1,
           (targetEjectRev rest (Generated.target_MBH m MBH) (Generated.target_Mtot m Mtot) f).2)
        else
          let req := Mrem (Generated.target_dfreq (MBH / Mtot) f) MBH Mtot
          ((Generated.target_partM m n req, Generated.target_partN m n req) :: rest, !(beq m 0))
      else ((m, n) :: rest, true) := by
  have h1 : Generated.target_cond f MBH Mtot = lt f (MBH / Mtot) := rfl
  have h2 : Generated.target_whole m MBH Mtot f = le f ((MBH - m) / (Mtot - m)) := rfl
  rw [h1, h2]
  simp only [targetEjectRev, Generated.target_MBH, Generated.target_Mtot, Generated.target_dfreq, Generated.target_partM,
    Generated.target_partN, real_zero]

theorem gen_target_mreq (x : ℝ) : Generated.target_mreq_is_Mrem x = 1 := by
  simp only [Generated.target_mreq_is_Mrem, real_one]

end Bridge
