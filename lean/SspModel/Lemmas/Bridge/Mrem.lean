import SspModel.Real
import SspModel.Generated.Formulas
import SspModel.Generated.Constants
import SspModel.Model.Eject
/-!
# Bridge (Mrem): closed-form removal amount of `EvolvedMFWithBH._dyn_eject_BH`
The expressions extracted from /repo's source *now* (`Generated.*`) equal the hand-written model (`Model.*`) over ℝ.
A source edit that changes one of these formulas breaks the lemma here and with it every property that imports this file.
-/
namespace Bridge
open Model Scalar

theorem gen_mrem (d mb mt : ℝ) : Generated.mrem d mb mt = Mrem d mb mt := rfl

end Bridge
