import SspModel.Real
import SspModel.Generated.Formulas
import SspModel.Generated.Constants
import Mathlib.Tactic.NormNum
/-!
# Bridge (Basic): literal normalisation
The expressions extracted from /repo's source *now* (`Generated.*`) equal the hand-written model (`Model.*`) over ℝ.
A source edit that changes one of these formulas breaks the lemma here and with it every property that imports this file.
-/
namespace Bridge
open Model Scalar

/-- literal normalisation used by all bridges -/
theorem sci_one : (@OfScientific.ofScientific ℝ ScalarLit.instOfSci 10 true 1) = (1:ℝ) := by
  rw [real_ofSci]; norm_num
theorem sci_two : (@OfScientific.ofScientific ℝ ScalarLit.instOfSci 20 true 1) = (2:ℝ) := by
  rw [real_ofSci]; norm_num

end Bridge
