import SspModel.Real
import SspModel.Generated.Formulas
/-!
# Bridge (Sched): shape of the integration schedule and of the extraction loop

Syntactic obligations: the translator emits these constants only when `/repo`'s source still has the shape the model `Model/Schedule`
assumes — `self.t = np.sort(np.r_[tms_u[tms_u < max(tout)], tout])`; the loop over `self.t` starts with `sol.integrate(ti)`; rows are
selected with `np.flatnonzero(self.tout == ti)`; every row unpacks *its own copy* of the solver state (and reads it only there); the
convergence flag is `sol.successful()` read after the loop, with a warning when it is false — in both `_evolve` methods.
A refactor that keeps the behaviour breaks them too; the check then searches for a failing schedule and reports which.
-/
namespace Bridge

theorem gen_sched_shape (x : ℝ) :
    Generated.sched_grid_shape x = 1 ∧
    Generated.sched_integrate_first x = 1 ∧ Generated.sched_rows_by_equality x = 1 ∧ Generated.sched_row_owns_copy x = 1 ∧
    Generated.sched_flag_after_loop x = 1 ∧
    Generated.schedbh_integrate_first x = 1 ∧ Generated.schedbh_rows_by_equality x = 1 ∧ Generated.schedbh_row_owns_copy x = 1 ∧
    Generated.schedbh_flag_after_loop x = 1 := by
  simp only [Generated.sched_grid_shape, Generated.sched_integrate_first, Generated.sched_rows_by_equality,
    Generated.sched_row_owns_copy, Generated.sched_flag_after_loop, Generated.schedbh_integrate_first,
    Generated.schedbh_rows_by_equality, Generated.schedbh_row_owns_copy, Generated.schedbh_flag_after_loop, Model.real_one, and_self]

end Bridge
