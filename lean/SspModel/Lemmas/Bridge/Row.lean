import SspModel.Real
import SspModel.Generated.Formulas
import SspModel.Model.Extract
import SspModel.Model.Eject
import Mathlib.Tactic.NormNum
/-!
# Bridge (Row): row extraction and the row-level ejection budget

The expressions with which `_evolve` turns `(Ns, alpha)` into `(Ms, ms)` (both classes, thin-bin rule included) and the budget arithmetic
around the ejection (`M_eject`, `M_ret`, kick-all shortcut, kicks subtracted, over-budget test), as they are in the source now, are the model's.
-/
namespace Bridge
open Model Scalar

/-- row extraction of one star bin, both classes' copies of the code -/
theorem gen_extractStar (n a lo hi : ℝ) :
    extractStar n a lo hi =
      match Pk a 1 lo hi, Pk a 2 lo hi with
      | some p1, some p2 => some (Generated.row_Ms (Generated.row_As n p1) p2, Generated.row_ms (Generated.row_Ms (Generated.row_As n p1) p2) n)
      | _, _ => some (Generated.row_thin n lo, Generated.row_ms (Generated.row_thin n lo) n) := by
  unfold extractStar
  simp only [Generated.row_Ms, Generated.row_As, Generated.row_ms, Generated.row_thin, real_one, real_two]
  cases Pk a 1 lo hi <;> cases Pk a 2 lo hi <;> rfl

theorem gen_row_same_in_both_classes (n p1 A p2 lo Ms : ℝ) :
    Generated.rowbh_As n p1 = Generated.row_As n p1 ∧ Generated.rowbh_Ms A p2 = Generated.row_Ms A p2 ∧
    Generated.rowbh_thin n lo = Generated.row_thin n lo ∧ Generated.rowbh_ms Ms n = Generated.row_ms Ms n := ⟨rfl, rfl, rfl, rfl⟩

/-- the budget arithmetic of one output row around the ejection -/
theorem gen_row_budget (formed ret mej kicked mret mmin nmin : ℝ) :
    Generated.row_mej formed ret = formed * (1 - ret) ∧ Generated.row_mret formed mej = formed - mej ∧
    Generated.row_shortcut mret mmin nmin = (le 0 (mret / mmin) && lt (mret / mmin) nmin) ∧
    Generated.row_after_kicks mej kicked = mej - kicked ∧ Generated.row_over_budget mej = lt mej 0 := by
  have e1 : (@OfScientific.ofScientific ℝ ScalarLit.instOfSci 10 true 1) = (1:ℝ) := by rw [real_ofSci]; norm_num
  have e0 : (@OfScientific.ofScientific ℝ ScalarLit.instOfSci 0 true 1) = (0:ℝ) := by rw [real_ofSci]; norm_num
  refine ⟨?_, rfl, ?_, rfl, ?_⟩
  · simp only [Generated.row_mej, e1]
  · simp only [Generated.row_shortcut, e0]
  · simp only [Generated.row_over_budget, real_zero]

end Bridge
