import SspModel.Real
import SspModel.Generated.Formulas
import SspModel.Generated.Constants
import SspModel.Model.Life
import SspModel.Lemmas.Bridge.Basic
/-!
# Bridge (Sev): lifetimes, turn-off mass and sweep speed of `EvolvedMF` (evolve_mf.py `compute_tms`, `compute_mto`, `_derivs_sev`)
The expressions extracted from /repo's source *now* (`Generated.*`) equal the hand-written model (`Model.*`) over ℝ.
A source edit that changes one of these formulas breaks the lemma here and with it every property that imports this file.
-/
namespace Bridge
open Model Scalar

theorem gen_dmdt_sev (a0 a1 a2 t : ℝ) : Generated.dmdt_sev a0 a1 a2 t = dmdtAbs a0 a1 a2 t := by
  simp only [Generated.dmdt_sev, dmdtAbs, dmdtRaw, sci_one, real_one]
theorem gen_tms_main (a0 a1 a2 m : ℝ) : Generated.tms_main a0 a1 a2 m = tms a0 a1 a2 m := rfl
theorem gen_mto_main (a0 a1 a2 t : ℝ) :
    (if Generated.mto_main_cond a0 t then some (Generated.mto_main_fin a0 a1 a2 t) else none) = mto a0 a1 a2 t := rfl

end Bridge
