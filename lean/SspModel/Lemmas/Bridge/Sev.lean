import SspModel.Real
import SspModel.Generated.Formulas
import SspModel.Generated.Constants
import SspModel.Model.Life
import SspModel.Model.Sev
import SspModel.Lemmas.Bridge.Basic
/-!
# Bridge (Sev): lifetimes, turn-off mass and sweep speed of `EvolvedMF` (evolve_mf.py `compute_tms`, `compute_mto`, `_derivs_sev`)
The expressions extracted from /repo's source *now* (`Generated.*`) equal the hand-written model (`Model.*`) over ℝ.
A source edit that changes one of these formulas breaks the lemma here and with it every property that imports this file.
-/
namespace Bridge
open Model Scalar

theorem gen_dmdt_sev (a0 a1 a2 t : ℝ) : Generated.dmdt_sev a0 a1 a2 t = dmdtAbs a0 a1 a2 t := by
  simp only [Generated.dmdt_sev, dmdtAbs, dmdtRaw, sci_one, real_one]
theorem gen_tms_main (a0 a1 a2 m : ℝ) : Generated.tms_main a0 a1 a2 m = tms a0 a1 a2 m := rfl
theorem gen_mto_main (a0 a1 a2 t : ℝ) :
    (if Generated.mto_main_cond a0 t then some (Generated.mto_main_fin a0 a1 a2 t) else none) = mto a0 a1 a2 t := rfl

/-- the flux of the turn-off bin: the model's `sevDNdm` is the source's `Aj * mto ** alphaj` with `Aj = Nj / Pk(alphaj, 1, m1, mto)`
    under the source's "avoid hitting the bin edge" condition -/
theorem gen_sevDNdm (nmin Nj aj m1 mto : ℝ) :
    sevDNdm nmin Nj aj m1 mto =
      if Generated.sev_active mto m1 Nj nmin then
        (match Pk aj 1 m1 mto with
         | some p => (Generated.sev_dNdm (Generated.sev_Aj Nj p) mto aj, true)
         | none => (0, false))
      else (0, true) := by
  have hact : Generated.sev_active mto m1 Nj nmin = (lt m1 mto && lt nmin Nj) := rfl
  rw [hact]
  unfold sevDNdm
  by_cases h : (lt m1 mto && lt nmin Nj) = true
  · rw [if_pos h, if_pos h]
    simp only [Generated.sev_dNdm, Generated.sev_Aj, real_zero, real_one]
    cases Pk aj 1 m1 mto <;> rfl
  · rw [if_neg h, if_neg h]
    simp only [real_zero]

/-- the entries written by `_derivs_sev`: `dNdt`, the two deposits, and the condition under which a deposit is made -/
theorem gen_sev_entries (dNdm dmdt dNdt mrem frem : ℝ) :
    Generated.sev_dNdt dNdm dmdt = -dNdm * dmdt ∧ Generated.sev_dNr dNdt frem = -dNdt * frem ∧
    Generated.sev_dMr mrem dNdt frem = -mrem * dNdt * frem ∧
    Generated.sev_gate mrem dNdt = (lt dNdt 0 && lt 0 mrem) := by
  refine ⟨rfl, rfl, rfl, ?_⟩
  rw [Generated.sev_gate, Bool.and_comm]; simp only [real_zero]

/-- the retention fraction is still read from the per-class table `self._frem[cls_rem]` (the translator refuses any other source) -/
theorem gen_frem_is_table_entry (x : ℝ) : Generated.sev_frem_is_table_entry x = 1 := by
  simp only [Generated.sev_frem_is_table_entry, real_one]

end Bridge
