import SspModel.Real
import SspModel.Generated.Formulas
import SspModel.Generated.Constants
import SspModel.Model.Life
import SspModel.Lemmas.Bridge.Basic
/-!
# Bridge (BHPop): the duplicated lifetime closures inside `InitialBHPopulation.from_IMF`
The expressions extracted from /repo's source *now* (`Generated.*`) equal the hand-written model (`Model.*`) over ℝ.
A source edit that changes one of these formulas breaks the lemma here and with it every property that imports this file.
-/
namespace Bridge
open Model Scalar

theorem gen_dmdt_bh (a0 a1 a2 t : ℝ) : Generated.dmdt_bh a0 a1 a2 t = dmdtAbs a0 a1 a2 t := by
  simp only [Generated.dmdt_bh, dmdtAbs, dmdtRaw, sci_one, real_one]
theorem gen_tms_bh (a0 a1 a2 m : ℝ) : Generated.tms_bh a0 a1 a2 m = tms a0 a1 a2 m := rfl
theorem gen_mto_bh (a0 a1 a2 t : ℝ) :
    (if Generated.mto_bh_cond a0 t then some (Generated.mto_bh_fin a0 a1 a2 t) else none) = mto a0 a1 a2 t := rfl

end Bridge
