import SspModel.Real
import SspModel.Generated.Formulas
import SspModel.Generated.Constants
import SspModel.Model.Life
import Mathlib.Tactic.NormNum
import SspModel.Lemmas.Bridge.Basic
/-!
# Bridge (BHPop): the duplicated lifetime closures inside `InitialBHPopulation.from_IMF`
The expressions extracted from /repo's source *now* (`Generated.*`) equal the hand-written model (`Model.*`) over ℝ.
A source edit that changes one of these formulas breaks the lemma here and with it every property that imports this file.
-/
namespace Bridge
open Model Scalar

theorem gen_dmdt_bh (a0 a1 a2 t : ℝ) : Generated.dmdt_bh a0 a1 a2 t = dmdtAbs a0 a1 a2 t := by
  simp only [Generated.dmdt_bh, dmdtAbs, dmdtRaw, sci_one, real_one]
theorem gen_tms_bh (a0 a1 a2 m : ℝ) : Generated.tms_bh a0 a1 a2 m = tms a0 a1 a2 m := rfl
theorem gen_mto_bh (a0 a1 a2 t : ℝ) :
    (if Generated.mto_bh_cond a0 t then some (Generated.mto_bh_fin a0 a1 a2 t) else none) = mto a0 a1 a2 t := rfl

/-- the entries of the nested `_derivs_BHs` are, expression by expression, those of `EvolvedMF._derivs_sev` with `frem = 1`, the
    hard-coded 0.1 in place of `Nmin`, and the extra `t <= final_age` in the deposit condition -/
theorem gen_bh_entries (Nj p Aj mto aj dNdm dmdt dNdt frem mrem m1 t fa : ℝ) :
    Generated.bh_Aj Nj p = Generated.sev_Aj Nj p ∧ Generated.bh_dNdm Aj mto aj = Generated.sev_dNdm Aj mto aj ∧
    Generated.bh_dNdt dNdm dmdt = Generated.sev_dNdt dNdm dmdt ∧ Generated.bh_dNr dNdt frem = Generated.sev_dNr dNdt frem ∧
    Generated.bh_dMr mrem dNdt frem = Generated.sev_dMr mrem dNdt frem ∧
    Generated.bh_active mto m1 Nj = Generated.sev_active mto m1 Nj Generated.NminBH ∧
    Generated.bh_gate t fa mrem = (Scalar.le t fa && Scalar.lt 0 mrem) ∧
    Generated.bh_frem (0 : ℝ) = 1 := by
  refine ⟨rfl, rfl, rfl, rfl, rfl, rfl, ?_, ?_⟩
  · simp only [Generated.bh_gate, real_zero]
  · simp only [Generated.bh_frem, real_ofSci]; norm_num

end Bridge
