import SspModel.Real
import SspModel.Generated.Formulas
import SspModel.Model.Esc
import Mathlib.Tactic.Ring
/-!
# Bridge (Esc): the entries of `EvolvedMF._derivs_esc`

Every element-wise expression of the escape derivative in /repo's source *now* (`Generated.esc_*`: the six pre-core-collapse updates,
the depletion mask, `Is`, both copies of `Js`, `Ir`, `Jr`, both normalisations `B`, and the four post-collapse updates) is the expression
the hand-written model (`Model.escPre`, `StarBin.Is/Js`, `remI/remJ`, `escB`, `escPost`) uses. An edit such as `Nr → Mr` in one update, a
swapped `Ir/Jr`, or a changed mask breaks the corresponding lemma.
-/
namespace Bridge
open Model Scalar

theorem gen_escPre (normM : Bool) (rate : ℝ) (stars : List (StarBin ℝ)) (rems : List (ℝ × ℝ)) :
    escPre normM rate stars rems =
      (let D := if normM then sumL (stars.map StarBin.mass) + sumL (rems.map (·.2))
                else sumL (stars.map (·.n)) + sumL (rems.map (·.1))
       (stars.map (fun b => if normM then Generated.esc_preM_dNs rate b.n D else Generated.esc_preN_dNs rate b.n D),
        stars.map (fun _ => (0 : ℝ)),
        rems.map (fun r =>
          if lt 0 r.1 then
            (if normM then (Generated.esc_preM_dNr rate r.1 r.2 D, Generated.esc_preM_dMr rate r.1 r.2 D)
             else (Generated.esc_preN_dNr rate r.1 r.2 D, Generated.esc_preN_dMr rate r.1 r.2 D))
          else (0, 0)))) := by
  cases normM <;> simp only [escPre, Generated.esc_preM_dNs, Generated.esc_preN_dNs, Generated.esc_preM_dNr, Generated.esc_preM_dMr,
    Generated.esc_preN_dNr, Generated.esc_preN_dMr, Bool.false_eq_true, if_false, if_true, real_zero]

theorem gen_depl (md : ℝ) (b : StarBin ℝ) :
    b.depl md = match b.moments with
      | some (p1, _, p2, _) => Generated.esc_depl p1 p2 md
      | none => false := by
  unfold StarBin.depl
  cases b.moments with
  | none => rfl
  | some v => obtain ⟨p1, p15, p2, p25⟩ := v; rfl

theorem gen_Is (md : ℝ) (b : StarBin ℝ) :
    b.Is md = match b.moments with
      | some (p1, p15, p2, _) => if Generated.esc_depl p1 p2 md then Generated.esc_Is b.n md p1 p15 else 0
      | none => 0 := by
  unfold StarBin.Is
  cases b.moments with
  | none => simp only [real_zero]
  | some v => obtain ⟨p1, p15, p2, p25⟩ := v; simp only [Generated.esc_depl, Generated.esc_Is, real_zero]; rfl

theorem gen_Js_a (md : ℝ) (b : StarBin ℝ) :
    b.Js md = match b.moments with
      | some (p1, _, p2, p25) => if Generated.esc_depl p1 p2 md then Generated.esc_Js_a b.n md p1 p2 p25 else 0
      | none => 0 := by
  unfold StarBin.Js
  cases b.moments with
  | none => simp only [real_zero]
  | some v => obtain ⟨p1, p15, p2, p25⟩ := v; simp only [Generated.esc_depl, Generated.esc_Js_a, real_zero]; rfl

theorem gen_Js_b (md : ℝ) (b : StarBin ℝ) :
    b.Js md = match b.moments with
      | some (p1, _, p2, p25) => if Generated.esc_depl p1 p2 md then Generated.esc_Js_b b.n md p1 p2 p25 else 0
      | none => 0 := by
  unfold StarBin.Js
  cases b.moments with
  | none => simp only [real_zero]
  | some v => obtain ⟨p1, p15, p2, p25⟩ := v; simp only [Generated.esc_depl, Generated.esc_Js_b, real_zero]; rfl

theorem gen_remI (md : ℝ) (r : ℝ × ℝ) : remI md r = if lt 0 r.1 then Generated.esc_Ir r.1 r.2 md else 0 := by
  simp only [remI, Generated.esc_Ir, real_zero]
theorem gen_remJ (md : ℝ) (r : ℝ × ℝ) : remJ md r = if lt 0 r.1 then Generated.esc_Jr r.1 r.2 md else 0 := by
  simp only [remJ, Generated.esc_Jr, real_zero]

theorem gen_escB (normM : Bool) (rate md : ℝ) (stars : List (StarBin ℝ)) (rems : List (ℝ × ℝ)) :
    escB normM rate md stars rems =
      if normM then Generated.esc_B_M rate (sumL (stars.map (StarBin.Js md))) (sumL (rems.map (remJ md)))
      else Generated.esc_B_N rate (sumL (stars.map (StarBin.Is md))) (sumL (rems.map (remI md))) := by
  simp only [escB, Generated.esc_B_M, Generated.esc_B_N]

theorem gen_post_entries (B md : ℝ) (b : StarBin ℝ) (r : ℝ × ℝ) :
    B * b.Is md = Generated.esc_post_dNs B (b.Is md) ∧
    B * b.dalphaUnit md = Generated.esc_post_dalpha B b.lo b.hi md ∧
    B * remI md r = Generated.esc_post_dNr B (remI md r) (remJ md r) ∧
    B * remJ md r = Generated.esc_post_dMr B (remI md r) (remJ md r) := by
  refine ⟨rfl, ?_, rfl, rfl⟩
  simp only [StarBin.dalphaUnit, Generated.esc_post_dalpha]
  rw [mul_div_assoc]

end Bridge
