import SspModel.Real
import SspModel.Model.Life
import Mathlib.Analysis.SpecialFunctions.Pow.Deriv
import Mathlib.Analysis.SpecialFunctions.Log.Deriv
/-! Helper lemmas for lifetime / turn-off over ℝ -/
namespace Model
open Scalar

theorem tms_real (a0 a1 a2 m : ℝ) : tms a0 a1 a2 m = a0 * Real.exp (a1 * m ^ a2) := rfl
theorem mtoFin_real (a0 a1 a2 t : ℝ) : mtoFin a0 a1 a2 t = (Real.log (t / a0) / a1) ^ (1 / a2) := by
  simp only [mtoFin, real_rpow, real_log, real_one]
theorem dmdtRaw_real (a0 a1 a2 t : ℝ) :
    dmdtRaw a0 a1 a2 t = (1 / (a1 * a2 * t)) * (Real.log (t / a0) / a1) ^ (1 / a2 - 1) := by
  simp only [dmdtRaw, real_rpow, real_log, real_one]

theorem tms_pos (a0 a1 a2 m : ℝ) (h0 : 0 < a0) : 0 < tms a0 a1 a2 m := by
  rw [tms_real]; positivity

/-- lifetimes exceed `a0` (so `mto` is finite exactly on lifetimes of actual masses) -/
theorem a0_lt_tms (a0 a1 a2 m : ℝ) (h0 : 0 < a0) (h1 : 0 < a1) (hm : 0 < m) : a0 < tms a0 a1 a2 m := by
  rw [tms_real]
  have : 0 < a1 * m ^ a2 := mul_pos h1 (Real.rpow_pos_of_pos hm _)
  have : 1 < Real.exp (a1 * m ^ a2) := Real.one_lt_exp_iff.2 (by linarith)
  nlinarith

theorem tms_strictAntiOn (a0 a1 a2 : ℝ) (h0 : 0 < a0) (h1 : 0 < a1) (h2 : a2 < 0) :
    StrictAntiOn (tms a0 a1 a2) (Set.Ioi 0) := by
  intro x hx y hy hxy
  simp only [tms_real]
  have hpow : y ^ a2 < x ^ a2 := Real.rpow_lt_rpow_of_neg hx hxy h2
  have : a1 * y ^ a2 < a1 * x ^ a2 := mul_lt_mul_of_pos_left hpow h1
  have := Real.exp_lt_exp.2 this
  exact mul_lt_mul_of_pos_left this h0

theorem logbase_pos (a0 a1 t : ℝ) (h0 : 0 < a0) (h1 : 0 < a1) (ht : a0 < t) :
    0 < Real.log (t / a0) / a1 :=
  div_pos (Real.log_pos (by rw [lt_div_iff₀ h0]; linarith)) h1

theorem mtoFin_pos (a0 a1 a2 t : ℝ) (h0 : 0 < a0) (h1 : 0 < a1) (ht : a0 < t) : 0 < mtoFin a0 a1 a2 t := by
  rw [mtoFin_real]; exact Real.rpow_pos_of_pos (logbase_pos a0 a1 t h0 h1 ht) _

theorem mtoFin_strictAntiOn (a0 a1 a2 : ℝ) (h0 : 0 < a0) (h1 : 0 < a1) (h2 : a2 < 0) :
    StrictAntiOn (mtoFin a0 a1 a2) (Set.Ioi a0) := by
  intro x hx y hy hxy
  simp only [mtoFin_real]
  have hbx := logbase_pos a0 a1 x h0 h1 hx
  have hlog : Real.log (x / a0) < Real.log (y / a0) :=
    Real.log_lt_log (div_pos (lt_trans h0 hx) h0) (div_lt_div_of_pos_right hxy h0)
  have hb : Real.log (x / a0) / a1 < Real.log (y / a0) / a1 := div_lt_div_of_pos_right hlog h1
  exact Real.rpow_lt_rpow_of_neg hbx hb (one_div_neg.2 h2)

theorem mto_tms (a0 a1 a2 m : ℝ) (h0 : 0 < a0) (h1 : 0 < a1) (h2 : a2 ≠ 0) (hm : 0 < m) :
    mtoFin a0 a1 a2 (tms a0 a1 a2 m) = m := by
  rw [mtoFin_real, tms_real]
  have : a0 * Real.exp (a1 * m ^ a2) / a0 = Real.exp (a1 * m ^ a2) := by field_simp
  rw [this, Real.log_exp]
  have : a1 * m ^ a2 / a1 = m ^ a2 := by field_simp
  rw [this, ← Real.rpow_mul hm.le]
  simp [h2]

theorem tms_mto (a0 a1 a2 t : ℝ) (h0 : 0 < a0) (h1 : 0 < a1) (h2 : a2 ≠ 0) (ht : a0 < t) :
    tms a0 a1 a2 (mtoFin a0 a1 a2 t) = t := by
  rw [tms_real, mtoFin_real]
  have hb := logbase_pos a0 a1 t h0 h1 ht
  rw [← Real.rpow_mul hb.le]
  have : 1 / a2 * a2 = 1 := by field_simp
  rw [this, Real.rpow_one]
  have : a1 * (Real.log (t / a0) / a1) = Real.log (t / a0) := by field_simp
  rw [this, Real.exp_log (div_pos (lt_trans h0 ht) h0)]
  field_simp

theorem mto_hasDerivAt (a0 a1 a2 t : ℝ) (h0 : 0 < a0) (h1 : 0 < a1) (h2 : a2 ≠ 0) (ht : a0 < t) :
    HasDerivAt (fun s => mtoFin a0 a1 a2 s) (dmdtRaw a0 a1 a2 t) t := by
  have htpos : 0 < t := lt_trans h0 ht
  have hbase := logbase_pos a0 a1 t h0 h1 ht
  have hd1 : HasDerivAt (fun s : ℝ => s / a0) (1 / a0) t := by
    simpa using (hasDerivAt_id t).div_const a0
  have hd2 : HasDerivAt (fun s : ℝ => Real.log (s / a0)) ((1 / a0) / (t / a0)) t :=
    hd1.log (by positivity)
  have hd3 := hd2.div_const a1
  have hd4 := hd3.rpow_const (p := 1 / a2) (Or.inl hbase.ne')
  have hfun : (fun s => mtoFin a0 a1 a2 s) = fun s => (Real.log (s / a0) / a1) ^ (1 / a2) := by
    funext s; rw [mtoFin_real]
  rw [hfun, dmdtRaw_real]
  refine hd4.congr_deriv ?_
  field_simp

theorem dmdtRaw_neg (a0 a1 a2 t : ℝ) (h0 : 0 < a0) (h1 : 0 < a1) (h2 : a2 < 0) (ht : a0 < t) :
    dmdtRaw a0 a1 a2 t < 0 := by
  rw [dmdtRaw_real]
  have hb := logbase_pos a0 a1 t h0 h1 ht
  have hp : 0 < (Real.log (t / a0) / a1) ^ (1 / a2 - 1) := Real.rpow_pos_of_pos hb _
  have htpos : 0 < t := lt_trans h0 ht
  have hden : a1 * a2 * t < 0 := by
    have : a1 * a2 < 0 := mul_neg_of_pos_of_neg h1 h2
    exact mul_neg_of_neg_of_pos this htpos
  have : 1 / (a1 * a2 * t) < 0 := one_div_neg.2 hden
  exact mul_neg_of_neg_of_pos this hp

end Model
