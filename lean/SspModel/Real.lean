import SspModel.Scalar
import SspModel.Lemmas.Erf
import Mathlib.Analysis.SpecialFunctions.Pow.Real
/-!
# The ℝ instance of `Scalar` — what the theorems are about — and its normalising lemmas.
-/
open Classical in
noncomputable instance : Scalar ℝ where
  ofNat := fun n => (n : ℝ)
  ofScientific := fun m s e => ((OfScientific.ofScientific m s e : ℚ) : ℝ)
  rpow := fun x y => x ^ y
  exp := Real.exp
  log := Real.log
  sqrt := Real.sqrt
  abs := fun x => |x|
  erf := erfR
  pi := Real.pi
  lt := fun a b => decide (a < b)
  le := fun a b => decide (a ≤ b)
  beq := fun a b => decide (a = b)

namespace Model
open Scalar

@[simp] theorem real_beq (a b : ℝ) : (Scalar.beq a b = true) ↔ a = b := by simp [Scalar.beq]
@[simp] theorem real_beq_false (a b : ℝ) : (Scalar.beq a b = false) ↔ a ≠ b := by simp [Scalar.beq]
@[simp] theorem real_lt (a b : ℝ) : (Scalar.lt a b = true) ↔ a < b := by simp [Scalar.lt]
@[simp] theorem real_lt_false (a b : ℝ) : (Scalar.lt a b = false) ↔ ¬ a < b := by simp [Scalar.lt]
@[simp] theorem real_le (a b : ℝ) : (Scalar.le a b = true) ↔ a ≤ b := by simp [Scalar.le]
@[simp] theorem real_le_false (a b : ℝ) : (Scalar.le a b = false) ↔ ¬ a ≤ b := by simp [Scalar.le]
@[simp] theorem real_rpow (a b : ℝ) : Scalar.rpow a b = a ^ b := rfl
@[simp] theorem real_log (a : ℝ) : Scalar.log a = Real.log a := rfl
@[simp] theorem real_exp (a : ℝ) : Scalar.exp a = Real.exp a := rfl
@[simp] theorem real_sqrt (a : ℝ) : Scalar.sqrt a = Real.sqrt a := rfl
@[simp] theorem real_abs (a : ℝ) : Scalar.abs a = |a| := rfl
@[simp] theorem real_erf (a : ℝ) : Scalar.erf a = erfR a := rfl
@[simp] theorem real_pi : (Scalar.pi : ℝ) = Real.pi := rfl
/-- not a global simp lemma (loops with `Nat.cast_ofNat`); use in explicit `simp only` -/
theorem real_ofNat (n : Nat) : (@OfNat.ofNat ℝ n ScalarLit.instOfNat) = (n : ℝ) := rfl
theorem real_ofSci (m : Nat) (s : Bool) (e : Nat) :
    (@OfScientific.ofScientific ℝ ScalarLit.instOfSci m s e)
      = ((OfScientific.ofScientific m s e : ℚ) : ℝ) := rfl
@[simp] theorem real_zero : (@OfNat.ofNat ℝ 0 ScalarLit.instOfNat) = (0 : ℝ) := by
  simp only [real_ofNat, Nat.cast_zero]
@[simp] theorem real_one : (@OfNat.ofNat ℝ 1 ScalarLit.instOfNat) = (1 : ℝ) := by
  simp only [real_ofNat, Nat.cast_one]
@[simp] theorem real_two : (@OfNat.ofNat ℝ 2 ScalarLit.instOfNat) = (2 : ℝ) := by
  simp only [real_ofNat]
@[simp] theorem real_three : (@OfNat.ofNat ℝ 3 ScalarLit.instOfNat) = (3 : ℝ) := by
  simp only [real_ofNat]
end Model
