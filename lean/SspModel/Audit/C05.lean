import SspModel.Props.C05
#print axioms Model.C05.C05_partial
