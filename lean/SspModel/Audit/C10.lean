import SspModel.Props.C10
#print axioms Model.C10.C10_holds
#print axioms Model.C10.gridComplete_spec
#print axioms Model.C10.grid_uSSE_rapid_ok
