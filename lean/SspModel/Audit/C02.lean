import SspModel.Props.C02
#print axioms Model.C02.C02_partial
