import SspModel.Props.C02
#print axioms Model.C02.C02_partial
#print axioms Model.C02.number_conserved
#print axioms Model.C02.mass_never_gained
