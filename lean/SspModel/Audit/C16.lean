import SspModel.Props.C16
#print axioms Model.C16.C16_partial
#print axioms Model.C16.repeat_identical
