import SspModel.Props.C20
#print axioms Model.C20.C20_partial
#print axioms Model.C20.gen_mom0
#print axioms Model.C20.gen_mom1
#print axioms Model.C20.gen_getmass
