import SspModel.Props.C20
#print axioms Model.C20.C20_partial
#print axioms Model.C20.gen_mom0
#print axioms Model.C20.gen_mom1
#print axioms Model.C20.gen_getmass
#print axioms Model.C20.kIntegral_spec
#print axioms Model.C20.density_pos
