import SspModel.Props.C14
#print axioms Model.C14.C14_holds
#print axioms Model.C14.msto_rows_coeffs
#print axioms Bridge.gen_dmdt_sev
#print axioms Bridge.gen_dmdt_bh
