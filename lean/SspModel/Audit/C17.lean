import SspModel.Props.C17
#print axioms Model.C17.C17_partial
