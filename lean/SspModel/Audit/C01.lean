import SspModel.Props.C01
#print axioms Model.C01.C01_partial
#print axioms Model.C01.mStar_spec
#print axioms Model.C01.closed_star_unique
#print axioms Model.C01.star_mass_rate
