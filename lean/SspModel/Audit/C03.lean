import SspModel.Props.C03
#print axioms Model.C03.C03_partial
