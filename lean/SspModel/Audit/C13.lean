import SspModel.Props.C13
#print axioms Model.C13.C13_partial
