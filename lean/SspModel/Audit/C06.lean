import SspModel.Props.C06
#print axioms Model.C06.C06_partial
#print axioms Model.C06.schedule_independent
#print axioms Model.C06.age_zero_row
#print axioms Model.C06.grid_breaks_at_turnoffs
