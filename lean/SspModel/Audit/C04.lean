import SspModel.Props.C04
#print axioms Model.C04.C04_partial
