import SspModel.Props.C12
#print axioms Model.C12.C12_partial
