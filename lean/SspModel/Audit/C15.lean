import SspModel.Props.C15
import SspModel.Props.C09
#print axioms Model.C15.C15_holds
#print axioms Bridge.gen_maxwellian
#print axioms Bridge.gen_sigmoid
#print axioms Model.C09.fallback_le_one_of_check
