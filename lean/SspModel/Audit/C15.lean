import SspModel.Props.C15
#print axioms Model.C15.C15_holds
#print axioms Bridge.gen_maxwellian
#print axioms Bridge.gen_sigmoid
