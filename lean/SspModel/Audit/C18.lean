import SspModel.Props.C18
#print axioms Model.C18.C18_partial
