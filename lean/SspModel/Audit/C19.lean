import SspModel.Props.C19
#print axioms Model.C19.C19_partial
#print axioms Model.C19.losses_eq
#print axioms Model.C19.piece_mass_le
