import SspModel.Props.C09
#print axioms Model.C09.C09_partial
#print axioms Model.C09.brokenBH_default
#print axioms Model.C09.fallback_le_one_of_check
#print axioms Tab.check_sound
#print axioms Model.C09.wd_physical
