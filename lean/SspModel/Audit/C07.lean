import SspModel.Props.C07
#print axioms Model.C07.C07_holds
