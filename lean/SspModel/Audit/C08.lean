import SspModel.Props.C08
#print axioms Model.C08.C08_partial
#print axioms Bridge.gen_mrem
