import SspModel.Props.C11
#print axioms Model.C11.C11_partial
#print axioms Model.C11.binned_straddle_witness
